"""C12 — local ReBAC checker = bounded derivability; limits only fail closed; batch = map.

Tie: `rbacx.rebac.local.LocalRelationshipChecker.check` / `batch_check` (real code, in-process, clock
injected) against the model `Rbacx.Rebac.check` / `batchCheck` on the boolean answers, and the
independent derivability spec (`Rbacx.Rebac.specOk`, proved equivalent to the inductive `Derivable`
by `c12_spec_decides`) evaluated by the Lean driver on the implementation's own answers:

    answer true  ⇒ derivable within max_depth                      (always)
    no node/time limit hit (the model run says) ⇒ answer = derivable
    batch_check(ts) = [check(t) for t in ts]                        (on the implementation's outputs)
    every call returns a bool and terminates (hang guard)
"""
from __future__ import annotations

import hashlib
import importlib
import itertools
import json
import random
import signal
import sys
import time as _time

import lib
import proto
import real  # noqa: F401  (puts <repo>/src on sys.path)

# ----------------------------------------------------------------------------- injected clock


class FakeTime:
    """Stands in for the `time` module inside rbacx.rebac.local.

    linear mode: every read advances a global counter by `step` ns (monotone time, absolute value keeps
    growing across calls) -> with deadline_ms = K and step = 1 ms the k-th in-loop read (k = 0, 1, …) is past
    the deadline iff k + 1 > K, the same for every call whatever its start time.
    script mode: read i of the current call returns script[i] (last value repeated); re-armed per call."""

    STEP = 1_000_000

    def __init__(self) -> None:
        self.now = 7_000_000_000
        self.script: list[int] | None = None
        self.i = 0
        self.reads = 0

    def arm(self, deadline: dict) -> None:
        if deadline["mode"] == "script":
            self.script = list(deadline["clock"])
            self.i = 0
        else:
            self.script = None

    def perf_counter_ns(self) -> int:
        self.reads += 1
        if self.script is not None:
            v = self.script[min(self.i, len(self.script) - 1)]
            self.i += 1
            return v
        self.now += self.STEP
        return self.now

    # the same clock through the other monotonic readers of `time` (best effort for refactors; floats are inexact)
    monotonic_ns = perf_counter_ns

    def perf_counter(self) -> float:
        return self.perf_counter_ns() / 1e9

    monotonic = perf_counter

    def __getattr__(self, name):  # anything else the module may want from `time`
        return getattr(_time, name)


CLOCK = FakeTime()


def _import_with_clock():
    """Import rbacx.rebac.local with the clock injected whichever way the module binds it
    (`import time` -> module attribute replaced; `from time import perf_counter_ns` -> bound during import)."""
    names = ("perf_counter_ns", "monotonic_ns", "perf_counter", "monotonic")
    saved = {n: getattr(_time, n) for n in names}
    for n in names:
        setattr(_time, n, getattr(CLOCK, n))
    try:
        sys.modules.pop("rbacx.rebac.local", None)
        mod = importlib.import_module("rbacx.rebac.local")
    finally:
        for n, f in saved.items():
            setattr(_time, n, f)
    for attr, val in list(vars(mod).items()):
        if val is _time:
            setattr(mod, attr, CLOCK)
    return mod


L = _import_with_clock()

NEVER_MS = 10 ** 9


class Hang(Exception):
    pass


def _on_alarm(signum, frame):  # pragma: no cover
    raise Hang()


signal.signal(signal.SIGALRM, _on_alarm)


# ----------------------------------------------------------------------------- building the real objects

UNKNOWN_NODE = ("not", "a", "userset", "node")


def mk_expr(e):
    if e == "this":
        return L.This()
    if e == "other":
        return UNKNOWN_NODE
    if e[0] == "c":
        return L.ComputedUserset(e[1])
    if e[0] == "t":
        return L.TupleToUserset(e[1], e[2])
    if e[0] == "u":
        return [mk_expr(x) for x in e[1]]
    raise ValueError(e)


def mk_pred(p: dict):
    k = p["k"]
    if k == "const":
        v = p["v"]
        return lambda ctx: v
    if k == "raise":
        def boom(ctx):
            raise RuntimeError("caveat backend down")
        return boom
    if k == "truthy":
        key = p["key"]
        return lambda ctx: ctx[key]
    if k == "get":
        key = p["key"]
        return lambda ctx: (ctx or {}).get(key)
    if k == "reenter":
        # a predicate that consults the same checker about another triple under ANOTHER context before answering for its own:
        # a check is a pure function of (store, rules, registry, triple, context), so the nested check may not disturb the outer one
        key, (qs, qr, qo), ctx2 = p["key"], p["query"], p["ctx"]

        def pred(ctx):
            chk = (holder or {}).get("chk")
            if chk is not None and not holder.get("busy"):
                holder["busy"] = True
                try:
                    holder.setdefault("inner", []).append(chk.check(qs, qr, qo, context=ctx2))
                finally:
                    holder["busy"] = False
            return (ctx or {}).get(key)
        return pred
    raise ValueError(p)


holder: dict = {}


def build(cfg: dict):
    store = L.InMemoryRelationshipStore()
    for s, r, o, c in cfg["tuples"]:
        store.add(s, r, o, caveat=c)
    rules = {ty: {rel: mk_expr(e) for rel, e in rels} for ty, rels in cfg["rules"]}
    reg = {name: mk_pred(p) for name, p in cfg["registry"]}
    chk = L.LocalRelationshipChecker(store, rules=rules, caveat_registry=reg, max_depth=cfg["max_depth"],
                                     max_nodes=cfg["max_nodes"], deadline_ms=cfg["deadline"]["ms"])
    holder.clear()
    holder["chk"] = chk
    return chk


def run_impl(cfg: dict, queries: list, batch: list | None, guard_s: float = 20):
    """-> (answers, batch_answers); an answer is a bool, or {"raised": cls} / {"hang": s} / {"nonbool": repr}."""
    chk = build(cfg)
    ctx = cfg["context"]
    out = []

    def norm(v):
        return v if isinstance(v, bool) else {"nonbool": repr(v)}

    hung = False
    signal.setitimer(signal.ITIMER_REAL, guard_s)
    try:
        for s, r, o in queries:
            if hung:
                out.append({"hang": guard_s})
                continue
            CLOCK.arm(cfg["deadline"])
            try:
                out.append(norm(chk.check(s, r, o, context=ctx)))
            except Hang:
                out.append({"hang": guard_s})
                hung = True
            except Exception as e:  # noqa: BLE001
                out.append({"raised": type(e).__name__})
        bout = None
        if hung and batch is not None:
            bout = {"hang": guard_s}
        elif batch is not None:
            CLOCK.arm(cfg["deadline"])
            try:
                res = chk.batch_check([tuple(t) for t in batch], context=ctx)
                bout = [norm(x) for x in res] if isinstance(res, list) else {"nonbool": repr(res)}
            except Hang:
                bout = {"hang": guard_s}
            except Exception as e:  # noqa: BLE001
                bout = {"raised": type(e).__name__}
    finally:
        signal.setitimer(signal.ITIMER_REAL, 0)
    return out, bout


def driver_cmd(cfg: dict, queries: list, observed: list | None, batch: list | None, observed_batch) -> dict:
    d = cfg["deadline"]
    if d["mode"] == "script":
        dl = {"clock": [str(x) for x in d["clock"]], "deadline_ms": str(d["ms"])}
    else:
        dl = {"step": str(FakeTime.STEP), "deadline_ms": str(d["ms"])}
    # for the model a re-entrant predicate is the plain predicate it ends with (the nested check has no effect on the outer one)
    registry = [[n, ({"k": "get", "key": q["key"]} if q.get("k") == "reenter" else q)] for n, q in cfg["registry"]]
    cmd = {"cmd": "rebac", "tuples": cfg["tuples"], "rules": cfg["rules"], "registry": registry,
           "context": None if cfg["context"] is None else proto.enc(cfg["context"]),
           "max_depth": str(cfg["max_depth"]), "max_nodes": str(cfg["max_nodes"]), "deadline": dl,
           "queries": [list(q) for q in queries]}
    if observed is not None and all(isinstance(x, bool) for x in observed):
        cmd["observed"] = observed
    if batch is not None:
        cmd["batch"] = [list(t) for t in batch]
        if isinstance(observed_batch, list) and all(isinstance(x, bool) for x in observed_batch):
            cmd["observed_batch"] = observed_batch
    return cmd


# ----------------------------------------------------------------------------- small scope

USERS = ["user:a", "b"]                    # one subject without a type prefix
OBJS = ["doc:1", "fld:1:x", "g"]           # two colons (partition takes the first); "g" has type `user` by default
RELS = ["v", "p"]
SUBJECTS = USERS + OBJS
BASE = [(s, r, o) for s in SUBJECTS for r in RELS for o in OBJS]          # 30 tuples incl. self loops
QUERIES = [(s, r, o) for s in USERS for r in RELS for o in OBJS] + [("doc:1", "v", "fld:1:x"), ("g", "p", "doc:1")]
BATCH = [QUERIES[0], QUERIES[6], QUERIES[0], QUERIES[3], QUERIES[1], QUERIES[9], QUERIES[6], QUERIES[12]]
TYPES = ["doc", "fld", "user"]

PRIMS = ["this", ["c", "v"], ["c", "p"], ["t", "v", "v"], ["t", "v", "p"], ["t", "p", "v"], ["t", "p", "p"], "other"]


def exprs_depth2() -> list:
    out = list(PRIMS)
    out.append(["u", []])
    out += [["u", [a]] for a in PRIMS]
    out += [["u", [a, b]] for a in PRIMS for b in PRIMS]
    out += [["u", [["u", [a]], "this"]] for a in PRIMS[1:7]]
    out += [["u", ["this", ["u", [a, b]]]] for a, b in [(PRIMS[1], PRIMS[5]), (PRIMS[2], PRIMS[3]), (PRIMS[6], PRIMS[2])]]
    return out


def rmap(d: dict) -> list:
    return [[ty, [[rel, e] for rel, e in rels.items()]] for ty, rels in d.items()]


HIER = {"doc": {"v": ["u", ["this", ["t", "p", "v"]]]}, "fld": {"v": ["u", ["this", ["t", "p", "v"]]]},
        "user": {"v": ["t", "p", "v"]}}
RULE_POOL = [
    {},
    HIER,
    {ty: {"v": ["c", "p"], "p": ["c", "v"]} for ty in TYPES},                                 # computed-userset cycle
    {"doc": {"v": ["u", [["t", "v", "p"], ["c", "p"]]], "p": ["t", "p", "p"]},
     "fld": {"v": ["c", "p"], "p": ["t", "v", "v"]}, "user": {"p": ["u", [["c", "v"], ["t", "p", "p"]]]}},
    {"doc": {"v": ["u", [["c", "v"], ["c", "v"], ["c", "p"]]], "p": ["u", [["t", "p", "p"], ["t", "p", "v"]]]},
     "fld": {"v": ["u", [["c", "v"], ["t", "p", "v"], ["t", "p", "v"]]]}},                    # self loops, duplicate children
    {ty: {"v": ["u", [["t", "p", "v"], ["t", "v", "v"], ["c", "p"]]], "p": ["u", [["t", "p", "p"], ["c", "v"]]]}
     for ty in TYPES},                                                                         # dense
    {"doc": {"v": ["t", "p", "v"]}, "fld": {"v": ["t", "p", "v"]}, "user": {"v": ["c", "p"]}},  # no This() anywhere
    {"doc": {"v": "other", "p": ["u", []]}, "fld": {"v": ["u", ["other", ["c", "p"]]]}},
]

DEFAULT_LIMITS = {"max_depth": 3, "max_nodes": 100, "deadline": {"mode": "linear", "ms": NEVER_MS}}


def mk_cfg(tuples, rules, registry=(), context=None, **lim) -> dict:
    c = {"tuples": [list(t) if len(t) == 4 else [t[0], t[1], t[2], None] for t in tuples],
         "rules": rmap(rules) if isinstance(rules, dict) else rules,
         "registry": [list(x) for x in registry], "context": context}
    c.update({**DEFAULT_LIMITS, **lim})
    return c


CAV_BASE = [("user:a", "v", "doc:1"), ("user:a", "v", "fld:1:x"), ("fld:1:x", "p", "doc:1"), ("doc:1", "p", "fld:1:x"),
            ("g", "p", "doc:1"), ("b", "v", "doc:1"), ("user:a", "p", "doc:1"), ("user:a", "v", "g")]
CAV_RULES = {"doc": {"v": ["u", ["this", ["t", "p", "v"], ["c", "p"]]]}, "fld": {"v": ["u", ["this", ["t", "p", "v"]]]}}
PRED_CHOICES = [None, {"k": "const", "v": True}, {"k": "const", "v": False}, {"k": "raise"},
                {"k": "truthy", "key": "k"}, {"k": "get", "key": "k"}]
CTX_CHOICES = [None, {}, {"k": True}, {"k": 0}]

LIMIT_DEPTHS = [-1, 0, 1, 2, 3]
LIMIT_NODES = [0, 1, 2, 3, 4, 5]
LIMIT_DEADLINES = [NEVER_MS, 0, 1, 2, 3]     # deadline passes from the K-th in-loop read on


def limit_pool(seed: int) -> list:
    """(store, rules) pairs on which the limits bite: hand-made shapes + a deterministic sample"""
    pool = [
        ([("user:a", "v", "fld:1:x"), ("fld:1:x", "p", "doc:1"), ("doc:1", "p", "fld:1:x")], HIER),               # cycle
        ([("user:a", "v", "g"), ("fld:1:x", "p", "doc:1"), ("doc:1", "p", "fld:1:x"), ("doc:1", "p", "doc:1")], HIER),
        ([("user:a", "p", "doc:1")], RULE_POOL[4]),                         # duplicate children before the hit
        ([("user:a", "p", "doc:1"), ("b", "v", "fld:1:x")], RULE_POOL[2]),
        ([("fld:1:x", "p", "doc:1"), ("doc:1", "p", "fld:1:x"), ("b", "p", "fld:1:x")], RULE_POOL[5]),
        ([("user:a", "v", "fld:1:x"), ("fld:1:x", "p", "doc:1"), ("fld:1:x", "p", "doc:1")], HIER),               # duplicate edge
        ([("doc:1", "p", "doc:1"), ("user:a", "v", "doc:1")], RULE_POOL[3]),
        ([("doc:1", "v", "fld:1:x"), ("fld:1:x", "p", "doc:1"), ("b", "p", "fld:1:x"), ("user:a", "v", "doc:1")], RULE_POOL[3]),
    ]
    r = random.Random(1000003 * seed + 12)
    ex = exprs_depth2()
    for _ in range(32):
        ts = [BASE[r.randrange(len(BASE))] for _ in range(r.randrange(1, 5))]
        rules = {ty: {rel: ex[r.randrange(len(ex))] for rel in RELS if r.random() < 0.7} for ty in TYPES}
        pool.append((ts, rules))
    return pool


def small_scope(run: lib.Run):
    """yield (label, cfg, queries, batch).  quick: a deterministic 1-in-k slice of every block (offset by the seed)."""
    quick = run.tier == "quick"
    seed = run.seed

    def keep(i: int, stride: int) -> bool:
        return (not quick) or (i % stride == seed % stride)

    # A: every ordered store of ≤2 tuples (duplicates, self loops included) × rule pool
    i = 0
    for n in (0, 1, 2):
        for ts in itertools.product(BASE, repeat=n):
            for k, rules in enumerate(RULE_POOL):
                i += 1
                if keep(i, 1):
                    yield f"A{n}/{k}", mk_cfg(ts, rules), QUERIES, BATCH
    # A3: every 3-element set of tuples × 5 rule maps;  A4: every 4-element set × 2 rule maps
    i = 0
    for ts in itertools.combinations(BASE, 3):
        for k in (1, 2, 3, 4, 5):
            i += 1
            if keep(i, 7):
                yield f"A3/{k}", mk_cfg(ts, RULE_POOL[k]), QUERIES, BATCH
    i = 0
    for ts in itertools.combinations(BASE, 4):
        for k in (1, 5):
            i += 1
            if keep(i, 12):
                yield f"A4/{k}", mk_cfg(ts, RULE_POOL[k]), QUERIES, BATCH
    # D: every expression of depth ≤2 at (doc, v) (and mirrored at the other keys) × a store pool
    r = random.Random(424243)
    stores = [[BASE[r.randrange(len(BASE))] for _ in range(r.randrange(1, 5))] for _ in range(24)]
    stores += [[("user:a", "p", "doc:1"), ("fld:1:x", "v", "doc:1"), ("user:a", "v", "fld:1:x"), ("g", "p", "doc:1")],
               [("b", "p", "doc:1"), ("doc:1", "p", "doc:1"), ("b", "v", "g"), ("g", "v", "doc:1")]]
    ex = exprs_depth2()
    i = 0
    for e in ex:
        for si, ts in enumerate(stores):
            i += 1
            if keep(i, 1):
                rules = {"doc": {"v": e}, "fld": {"v": ["u", ["this", ["t", "p", "v"]]], "p": e}, "user": {"v": e}}
                yield f"D/{si}", mk_cfg(ts, rules), QUERIES, BATCH
    small = PRIMS + [["u", ["this", ["t", "p", "v"]]], ["u", [["c", "p"], ["t", "v", "p"]]], ["u", [["u", [["c", "p"]]], "other"]]]
    i = 0
    for e1 in small:
        for e2 in small:
            for si in range(0, len(stores), 3):
                i += 1
                if keep(i, 1):
                    rules = {"doc": {"v": e1, "p": e2}, "fld": {"v": e2, "p": e1}}
                    yield f"D2/{si}", mk_cfg(stores[si], rules), QUERIES, BATCH
    # C: caveats — ordered stores of ≤2 tuples, each unconditional or under caveat c1 / c2, × registries × contexts
    cav = [(s, rel, o, c) for (s, rel, o) in CAV_BASE for c in (None, "c1", "c2")]
    i = 0
    for n in (1, 2):
        for ts in itertools.product(cav, repeat=n):
            if all(t[3] is None for t in ts):
                continue
            for p1, p2 in itertools.product(PRED_CHOICES, repeat=2):
                reg = [[nm, p] for nm, p in (("c1", p1), ("c2", p2)) if p is not None]
                needs_ctx = any(p is not None and p["k"] in ("truthy", "get") for p in (p1, p2))
                for ctx in (CTX_CHOICES if needs_ctx else [None]):
                    i += 1
                    if keep(i, 6):
                        yield f"C{n}", mk_cfg(ts, CAV_RULES, reg, ctx), QUERIES[:8], BATCH[:4]
    # B: limits — max_depth × max_nodes × deadline on a pool of stores/rules
    i = 0
    for pi, (ts, rules) in enumerate(limit_pool(0)):
        for md in LIMIT_DEPTHS:
            for mn in LIMIT_NODES:
                for ms in LIMIT_DEADLINES:
                    i += 1
                    if keep(i, 1):
                        yield f"B/{pi}", mk_cfg(ts, rules, max_depth=md, max_nodes=mn,
                                                deadline={"mode": "linear", "ms": ms}), QUERIES, BATCH


# ----------------------------------------------------------------------------- random graphs

R_USERS = ["user:a", "user:b", "c", "user:d:e"]
R_OBJS = ["doc:1", "doc:2", "fld:1", "fld:2:x", "org:1", "g", "doc:", ":x"]
R_RELS = ["v", "p", "e"]
R_TYPES = ["doc", "fld", "org", "user", ""]
R_CAVS = ["c1", "c2", "c3", "c4"]


def rand_expr(r: random.Random, depth: int):
    k = r.random()
    if depth > 0 and k < 0.35:
        return ["u", [rand_expr(r, depth - 1) for _ in range(r.randrange(0, 4))]]
    if k < 0.5:
        return "this"
    if k < 0.7:
        return ["c", r.choice(R_RELS)]
    if k < 0.96:
        return ["t", r.choice(R_RELS), r.choice(R_RELS)]
    return "other"


def rand_cfg(r: random.Random):
    nt = r.randrange(0, 13)
    ents = R_USERS + R_OBJS
    tuples = []
    for _ in range(nt):
        if tuples and r.random() < 0.1:
            tuples.append(list(r.choice(tuples)))       # duplicate (possibly with another caveat below)
            if r.random() < 0.5:
                tuples[-1][3] = r.choice([None] + R_CAVS)
            continue
        s = r.choice(ents) if r.random() < 0.6 else r.choice(R_OBJS)
        tuples.append([s, r.choice(R_RELS), r.choice(R_OBJS), r.choice(R_CAVS) if r.random() < 0.3 else None])
    rules = {}
    for ty in R_TYPES:
        if r.random() < 0.75:
            rules[ty] = {rel: rand_expr(r, 3) for rel in R_RELS if r.random() < 0.7}
    reg = []
    for c in R_CAVS:
        p = r.choice(PRED_CHOICES)
        if p is not None:
            reg.append([c, dict(p, key=r.choice(["k", "j"])) if "key" in p else p])
    ctx = r.choice([None, {}, {"k": True}, {"k": False, "j": "x"}, {"k": 1, "j": 0}, {"j": [], "k": [0]}, {"k": None}])
    k = r.random()
    if k < 0.45:
        lim = dict(DEFAULT_LIMITS, max_depth=r.choice([2, 3, 4, 8]))
    elif k < 0.9:
        lim = {"max_depth": r.choice([-2, 0, 1, 2, 3, 4, 6]), "max_nodes": r.choice([-1, 0, 1, 2, 3, 4, 6, 9, 15, 10000]),
               "deadline": {"mode": "linear", "ms": r.choice([NEVER_MS, NEVER_MS, -5, 0, 1, 2, 3, 5, 8])}}
    else:
        # arbitrary (non-monotone) clock script for single checks: values around the deadline, equality included
        ms = r.choice([0, 1, 2])
        start = r.randrange(0, 5) * 1_000_000
        dline = start + ms * 1_000_000
        clock = [start] + [dline + r.choice([-1_000_000, -1, 0, 0, 0, 1, 1_000_000]) for _ in range(r.randrange(1, 8))]
        lim = {"max_depth": r.choice([1, 2, 3, 6]), "max_nodes": r.choice([3, 6, 10000]),
               "deadline": {"mode": "script", "clock": clock, "ms": ms}}
    cfg = {"tuples": tuples, "rules": rmap(rules), "registry": reg, "context": ctx, **lim}
    subs = R_USERS + R_OBJS[:3]
    queries = []
    for _ in range(10):
        if tuples and r.random() < 0.3:
            t = r.choice(tuples)
            queries.append((r.choice(subs), t[1], t[2]))
        else:
            queries.append((r.choice(subs), r.choice(R_RELS), r.choice(R_OBJS)))
    batch = None
    if lim["deadline"]["mode"] == "linear":
        batch = [r.choice(queries) for _ in range(6)]
        s0, r0, o0 = batch[0]
        batch += [(r.choice(subs), r0, o0), (s0, r.choice(R_RELS), o0), batch[1]]
        queries = queries + [t for t in batch if t not in queries]
    return cfg, queries, batch


def reentrant_scope(run: lib.Run, scale: int = 1):
    """random configurations in which one caveat's predicate runs a nested check on the same checker under another context"""
    r = random.Random(run.seed * 15485867 + 1212)
    n = (1500 if run.tier == "quick" else 20000) * scale
    i = 0
    while i < n:
        cfg, queries, batch = rand_cfg(r)
        used = sorted({t[3] for t in cfg["tuples"] if t[3] is not None})
        if len(used) < 1 or cfg["deadline"]["mode"] != "linear":
            continue
        cfg["deadline"] = {"mode": "linear", "ms": NEVER_MS}     # the injected clock is shared by the nested check
        i += 1
        re_name = r.choice(used)
        key, other = r.choice([("k", "j"), ("j", "k")])
        reg = [[nm, pp] for nm, pp in cfg["registry"] if nm != re_name]
        # the other caveats look at `other`, on which the two contexts disagree
        reg = [[nm, ({"k": "get", "key": other} if r.random() < 0.7 else pp)] for nm, pp in reg]
        for nm in used:
            if nm != re_name and nm not in [x[0] for x in reg]:
                reg.append([nm, {"k": "get", "key": other}])
        inner_q = list(r.choice(queries))
        reg.append([re_name, {"k": "reenter", "key": key, "query": inner_q, "ctx": {key: True, other: True}}])
        cfg["registry"] = reg
        cfg["context"] = {key: r.choice([True, True, False]), other: False}
        yield f"RE#{i}", cfg, queries, batch


def crowded_scope(run: lib.Run, scale: int = 1):
    """random configurations in which ONE or TWO (resource, relation) pairs are crowded: 20 … 1100 further direct tuples from filler
    subjects (a shared document with many viewers), while the queried subjects hold the same relation on OTHER resources and the
    fillers hold other relations on the crowded one.  Queries go to the crowded pairs, directly and through the rewrite rules."""
    r = random.Random(run.seed * 15485863 + 1212)
    n = (60 if run.tier == "quick" else 600) * scale
    for i in range(n):
        cfg, queries, batch = rand_cfg(r)
        if cfg["deadline"]["mode"] != "linear":
            cfg.update(DEFAULT_LIMITS)
            batch = None
        cfg["max_nodes"] = max(cfg.get("max_nodes", 0), 10000)      # the fillers are not what a limit should cut off here
        tuples = cfg["tuples"]
        crowded = []
        for _ in range(r.choice([1, 1, 2])):
            obj, rel = r.choice(R_OBJS[:5]), r.choice(R_RELS)
            crowded.append((obj, rel))
            size = r.choice([20, 63, 64, 65, 66, 130, 300, 1100 if run.tier != "quick" else 200])
            at = r.randrange(0, len(tuples) + 1)
            tuples[at:at] = [[f"user:f{k}", rel, obj, None] for k in range(size)]
            for u in R_USERS:
                if r.random() < 0.7:
                    other = r.choice([o for o in R_OBJS[:5] if o != obj])
                    tuples.insert(r.randrange(0, len(tuples) + 1), [u, rel, other, r.choice([None, None] + R_CAVS)])
            for k in range(3):
                tuples.append([f"user:f{k}", r.choice([x for x in R_RELS if x != rel]), obj, None])
        extra = [(u, rel, obj) for obj, rel in crowded for u in R_USERS + ["user:f0", "user:f19", "user:nobody"]]
        extra += [(u, r.choice(R_RELS), obj) for obj, _ in crowded for u in R_USERS[:2]]
        queries = extra + queries[:4]
        if batch is not None:
            batch = [q for q in extra[:6]] + batch[:3]
            queries = queries + [t for t in batch if t not in queries]
        yield f"crowded#{i}", cfg, queries, batch


def random_scope(run: lib.Run, scale: int = 1, stream: int = 0):
    r = random.Random(run.seed * 104729 + 12 + 7907 * stream)
    n = (8000 if run.tier == "quick" else 120000) * scale
    for i in range(n):
        cfg, queries, batch = rand_cfg(r)
        yield f"R{stream}#{i}", cfg, queries, batch


# ----------------------------------------------------------------------------- coverage of the anchored functions

ANCHORED = ("check", "batch_check", "_direct_allowed", "_lookup_expr", "_caveat_holds", "_expand", "_split_ref",
            "direct_for_resource", "add")


class LineCov:
    def __init__(self) -> None:
        self.file = L.__file__
        self.hit: set[int] = set()

    def _local(self, frame, event, arg):
        if event == "line":
            self.hit.add(frame.f_lineno)
        return self._local

    def _global(self, frame, event, arg):
        if frame.f_code.co_filename == self.file:
            return self._local
        return None

    def __enter__(self):
        sys.settrace(self._global)
        return self

    def __exit__(self, *a):
        sys.settrace(None)

    def report(self) -> dict:
        import ast
        tree = ast.parse(open(self.file, encoding="utf-8").read())
        out = {}
        for node in ast.walk(tree):
            if isinstance(node, ast.FunctionDef) and node.name in ANCHORED:
                lines = set()
                for sub in ast.walk(node):
                    if isinstance(sub, ast.stmt) and not isinstance(sub, ast.FunctionDef):
                        if isinstance(sub, ast.Expr) and isinstance(sub.value, ast.Constant) and isinstance(sub.value.value, str):
                            continue  # docstring
                        lines.add(sub.lineno)
                missed = sorted(lines - self.hit)
                out[node.name] = {"statements": len(lines), "hit": len(lines) - len(missed), "missed_lines": missed}
        return out


# ----------------------------------------------------------------------------- the run


def cfg_digest(cfg: dict) -> str:
    return hashlib.sha1(json.dumps(cfg, sort_keys=True).encode()).hexdigest()[:16]


def judge(run: lib.Run, label: str, cfg: dict, queries: list, batch, obs: list, bobs, ans: dict) -> None:
    dg = cfg_digest(cfg)
    for i, (q, o, a) in enumerate(zip(queries, obs, ans["answers"])):
        cls = a["outcome"] + ("+derivable" if a["derivable"] and not a["model"] else "")
        run.count(cls)
        nontrivial = a["derivable"] or a["limit_hit"]
        run.case([dg, list(q)], nontrivial,
                 {"config": cfg, "query": list(q), "impl": o, "model": a["model"], "outcome": a["outcome"],
                  "derivable": a["derivable"]} if (nontrivial and label.startswith(("B", "R", "C"))) else None)
        case = {"label": label, "config": cfg, "query": list(q), "impl": o, "model": a["model"],
                "model_outcome": a["outcome"], "derivable": a["derivable"], "limit_hit": a["limit_hit"]}
        if not isinstance(o, bool):
            run.spec_failures.append({**case, "why": "check() did not return a bool (raised / hung / non-bool)"})
            continue
        if o != a["model"]:
            run.disagreements.append(case)
        if a["spec_ok"] is False:
            why = ("answered true for a relation that is not derivable within max_depth" if o and not a["derivable"]
                   else "no node/time limit was hit, yet the answer differs from derivability within max_depth")
            run.spec_failures.append({**case, "why": why})
    if batch is not None:
        b = ans["batch"]
        run.count("batch")
        case = {"label": label, "config": cfg, "batch": [list(t) for t in batch], "impl_batch": bobs, "model_batch": b["model"]}
        if not (isinstance(bobs, list) and all(isinstance(x, bool) for x in bobs)):
            run.spec_failures.append({**case, "why": "batch_check() raised / hung / returned non-bools"})
            return
        idx = {tuple(q): o for q, o in zip(queries, obs)}
        singles = [idx.get(tuple(t)) for t in batch]
        if bobs != b["model"]:
            run.disagreements.append(case)
        if all(isinstance(x, bool) for x in singles) and bobs != singles:
            run.spec_failures.append({**case, "impl_individual": singles, "why": "batch_check differs from the individual checks"})
        elif b["spec_ok"] is False:
            run.spec_failures.append({**case, "why": "a batch answer violates the derivability spec"})


def run_cases(run: lib.Run, gens, cov: LineCov | None = None, cov_every: int = 0) -> None:
    pending: list = []
    cmds: list = []

    def flush():
        if not cmds:
            return
        try:
            answers = proto.run_driver(cmds)
        except proto.DriverError as e:
            raise lib.CheckError(f"model driver: {e}") from e
        for (label, cfg, queries, batch, obs, bobs), ans in zip(pending, answers):
            judge(run, label, cfg, queries, batch, obs, bobs, ans)
        pending.clear()
        cmds.clear()

    n = 0
    for g in gens:
        for label, cfg, queries, batch in g:
            n += 1
            if cov is not None and cov_every and n % cov_every == 0:
                with cov:
                    obs, bobs = run_impl(cfg, queries, batch)
            else:
                obs, bobs = run_impl(cfg, queries, batch)
            pending.append((label, cfg, queries, batch, obs, bobs))
            cmds.append(driver_cmd(cfg, queries, obs, batch, bobs))
            if len(cmds) >= 4000:
                flush()
            if any(isinstance(o, dict) and "hang" in o for o in obs) or (isinstance(bobs, dict) and "hang" in bobs):
                run.notes.append(f"a call did not return within the hang guard at {label}: run cut short")
                run.extra["hang"] = True
                break
        if run.extra.get("hang"):
            break
    flush()
    run.extra["configurations"] = run.extra.get("configurations", 0) + n



# ----------------------------------------------------------------------------- one long-lived checker, changing contexts


SEQ_TUPLES = [("user:a", "viewer", "doc:1", "c_ok"), ("user:b", "viewer", "doc:1", "c_lvl"), ("folder:f", "parent", "doc:2", "c_ok"),
              ("user:a", "viewer", "folder:f", None), ("user:b", "viewer", "folder:f", "c_lvl")]
SEQ_RULES = [["doc", [["viewer", ["u", ["this", ["t", "parent", "viewer"]]]]]], ["folder", [["viewer", "this"]]]]
SEQ_REGISTRY = [["c_ok", {"k": "get", "key": "ok"}], ["c_lvl", {"k": "get", "key": "lvl"}]]
SEQ_CONTEXTS = [None, {}, {"ok": True}, {"ok": False}, {"ok": True, "lvl": False}, {"ok": False, "lvl": True}, {"lvl": True}, {"other": 1}]
SEQ_QUERIES = [("user:a", "viewer", "doc:1"), ("user:b", "viewer", "doc:1"), ("user:a", "viewer", "doc:2"), ("user:b", "viewer", "doc:2"),
               ("user:c", "viewer", "doc:1")]
SEQ_LATE_TUPLE = ("user:c", "viewer", "doc:1", None)


def call_sequences(run: lib.Run) -> None:
    """ONE long-lived checker is asked a SEQUENCE of batch_check / check calls under contexts that change from call to call (same keys
    with other values, other keys, {} and None), a tuple being added to the store in between: an answer is a function of (store, rules,
    registry, triple, context) and of nothing an earlier call left behind.  Every answer is compared with a FRESH checker over the same
    store asked the same triple under the same context, and every batch with the individual checks (C12: "a batch check equals the
    individual checks"; a relation granted under one context is not thereby derivable under another)."""
    import itertools as it
    cfg = {"tuples": [list(t) for t in SEQ_TUPLES], "rules": SEQ_RULES, "registry": SEQ_REGISTRY, "max_depth": 4, "max_nodes": 1000,
           "deadline": {"mode": "step", "ms": NEVER_MS}, "context": None}
    n_ctx = len(SEQ_CONTEXTS)
    seqs = list(it.product(range(n_ctx), repeat=2)) + [s for s in it.product(range(n_ctx), repeat=3)
                                                      if run.tier != "quick" or (s[0] * 64 + s[1] * 8 + s[2] + run.seed) % 3 == 0]
    for seq in seqs:
        for late in (None, 1):
            CLOCK.arm(cfg["deadline"])
            chk = build(cfg)
            tuples = [list(t) for t in SEQ_TUPLES]
            for step, ci in enumerate(seq):
                if late is not None and step == late:
                    chk.store.add(*SEQ_LATE_TUPLE[:3], caveat=SEQ_LATE_TUPLE[3])
                    tuples.append(list(SEQ_LATE_TUPLE))
                ctx = SEQ_CONTEXTS[ci]
                batch = SEQ_QUERIES + [SEQ_QUERIES[0], SEQ_QUERIES[2]]
                try:
                    got_batch = chk.batch_check([tuple(q) for q in batch], context=ctx)
                    got_single = [chk.check(*q, context=ctx) for q in SEQ_QUERIES]
                    fresh = build({**cfg, "tuples": tuples})
                    want = {q: fresh.check(*q, context=ctx) for q in SEQ_QUERIES}
                except Exception as e:  # noqa: BLE001
                    run.spec_failures.append({"part": "call sequence", "contexts": [SEQ_CONTEXTS[i] for i in seq], "step": step,
                                              "why": f"a call raised {type(e).__name__}: {e}"})
                    return
                run.case(["seq", list(seq), late, step], True)
                run.count("call-sequence step")
                if list(got_batch) != [want[q] for q in batch] or got_single != [want[q] for q in SEQ_QUERIES]:
                    run.spec_failures.append({
                        "part": "call sequence", "tuples": tuples, "rules": SEQ_RULES, "registry": SEQ_REGISTRY,
                        "contexts": [SEQ_CONTEXTS[i] for i in seq], "tuple_added_before_step": late, "step": step, "context": ctx,
                        "batch": [list(q) for q in batch], "impl_batch": list(got_batch), "impl_single_same_checker": got_single,
                        "fresh_checker_individual": [want[q] for q in batch],
                        "why": "a checker that has answered earlier calls (other contexts / before a tuple was added) answers differently "
                               "from a fresh checker over the same store under the same context: batch_check / check is not the "
                               "individual derivability check"})
                    return


# ----------------------------------------------------------------------------- the translated source vs CPython


def _wire_tuple(t) -> list:
    return [t.subject, t.relation, t.resource, t.caveat]


def translated_jobs(run: lib.Run):
    """a deterministic slice of the configurations the differential run uses (small scope + random), without re-entrant predicates"""
    import itertools as it
    small = it.islice(small_scope(run), 0, None, 9 if run.tier == "quick" else 3)
    rnd = it.islice(random_scope(run, scale=1, stream=2), 0, 250 if run.tier == "quick" else 1500)
    n = 0
    for label, cfg, queries, batch in it.chain(small, rnd):
        if any(q.get("k") == "reenter" for _, q in cfg["registry"]):
            continue
        n += 1
        if run.tier == "quick" and n > 700:
            break
        yield label, cfg, queries[:6] if run.tier == "quick" else queries, batch


def translated_vs_python(run: lib.Run) -> tuple[bool, str]:
    """the translated store / `_split_ref` / checker (Generated.Src.rebac_*, evaluated by `lake env lean --run Rbacx/Run/SrcEvalRebac.lean`
    with fuel = Rebac.fuelBound, the bound of Translated.check_terminates) against the REAL objects of rbacx.rebac.local on the same
    arguments: `check`, `batch_check`, `_direct_allowed`, `_split_ref`, `_lookup_expr` (None or not), `_expand`, `direct_for_resource`,
    `by_subject`, `_caveat_holds`.  The registry outcomes handed to the translation are what `bool(pred(context))` of the real
    predicates did.  Validates the translator (harness/pytolean_rebac.py) and Model/PyRebac.lean, which C12_translated trusts."""
    import subprocess
    jobs, lines = [], []
    for label, cfg, queries, batch in translated_jobs(run):
        ctx = cfg["context"]
        outcomes = []
        for name, p in cfg["registry"]:
            try:
                outcomes.append([name, bool(mk_pred(p)(ctx))])
            except Exception:  # noqa: BLE001
                outcomes.append([name, "raises"])
        d = cfg["deadline"]
        scripted = d["mode"] == "script"
        try:
            chk = build(cfg)
            want = []
            for s, r, o in queries:
                CLOCK.arm(d)
                ty, ident_ = L._split_ref(o)
                ex = chk._lookup_expr(ty, r)
                dfr = list(chk.store.direct_for_resource(r, o))
                want.append({"check": chk.check(s, r, o, context=ctx), "direct": chk._direct_allowed(s, r, o, ctx), "split": [ty, ident_],
                             "lookup_none": ex is None, "expand": [list(x) for x in chk._expand(ex, s, o, ctx)],
                             "dfr": [_wire_tuple(t) for t in dfr], "by_subject": [_wire_tuple(t) for t in chk.store.by_subject(s, r)],
                             "holds": [chk._caveat_holds(t, ctx) for t in dfr]})
            wb = None
            if batch is not None and not scripted:
                CLOCK.arm(d)
                wb = chk.batch_check([tuple(t) for t in batch], context=ctx)
        except Exception as e:  # noqa: BLE001  (a refactored source without these helpers: reported by the obligation, not judged here)
            run.count("translated-rebac: python raised (not judged)")
            if len(run.notes) < 5:
                run.notes.append(f"translated_vs_python: the real code raised {type(e).__name__}: {e} at {label}")
            continue
        jobs.append((label, cfg, queries, batch if wb is not None else None, want, wb))
        lines.append(json.dumps({
            "tuples": cfg["tuples"], "rules": cfg["rules"], "outcomes": outcomes, "max_depth": str(cfg["max_depth"]),
            "max_nodes": str(cfg["max_nodes"]), "deadline_ms": str(d["ms"]),
            "clock": {"script": [str(x) for x in d["clock"]]} if scripted else {"step": str(FakeTime.STEP)},
            "queries": [list(q) for q in queries], "batch": [list(t) for t in batch] if wb is not None else None}))
    if not lines:
        return False, "no configuration could be run on the real code"
    p = subprocess.run(["lake", "env", "lean", "--run", "Rbacx/Run/SrcEvalRebac.lean"], cwd=lib.LEAN, input="\n".join(lines) + "\n",
                       capture_output=True, text=True, timeout=900)
    outs = [ln for ln in p.stdout.split("\n") if ln]
    if p.returncode != 0 or len(outs) != len(lines):
        return False, "SrcEvalRebac: " + (p.stderr or p.stdout)[-800:]
    bad = n = exhausted = 0
    for (label, cfg, queries, batch, want, wb), ln in zip(jobs, outs):
        got = json.loads(ln)
        if "answers" not in got or len(got["answers"]) != len(queries):
            return False, f"SrcEvalRebac: {ln[:300]}"
        for q, w, g in zip(queries, want, got["answers"]):
            n += 1
            if g["check"] is None:
                exhausted += 1
            diff = [k for k in w if g.get(k) != w[k]]
            run.count("translated-rebac: " + ("check true" if w["check"] else "check false") + (", expands" if w["expand"] else ""))
            if diff:
                bad += 1
                if bad == 1:
                    run.disagreements.append({"part": "translated source vs python", "label": label, "config": cfg, "query": list(q),
                                              "differs_in": diff, "impl": {k: w[k] for k in diff}, "translated": {k: g.get(k) for k in diff},
                                              "fuel": g.get("fuel"),
                                              "what": "the translated local.py (Generated.Src.rebac_*, fuel = Rebac.fuelBound) and the real code differ in " + ", ".join(diff)})
        if wb is not None:
            n += 1
            run.count("translated-rebac: batch")
            if got.get("batch") != wb:
                bad += 1
                if bad == 1:
                    run.disagreements.append({"part": "translated source vs python", "label": label, "config": cfg, "batch": [list(t) for t in batch],
                                              "impl_batch": wb, "translated": got.get("batch"),
                                              "what": "the translated batch_check and the real one differ"})
    run.count("translated-rebac", n)
    run.evaluations += n
    if exhausted:
        return False, f"{exhausted} of {n} evaluations ran out of fuel = fuelBound (Translated.check_terminates says they cannot)"
    return bad == 0, f"{bad} of {n} evaluations differ" if bad else f"agree on {n} evaluations (never out of fuel)"


# ----------------------------------------------------------------------------- shrinking / replay


def still_fails(cfg: dict, case: dict) -> bool:
    """does the implementation still contradict the spec on this (smaller) configuration?"""
    if "query" in case:
        q = tuple(case["query"])
        obs, _ = run_impl(cfg, [q], None, guard_s=case.get("_guard", 10))
        if not isinstance(obs[0], bool):
            return True
        ans = proto.run_driver([driver_cmd(cfg, [q], obs, None, None)])[0]
        return ans["answers"][0]["spec_ok"] is False
    batch = [tuple(t) for t in case["batch"]]
    qs = list(dict.fromkeys(batch))
    obs, bobs = run_impl(cfg, qs, batch, guard_s=case.get("_guard", 10))
    if not (isinstance(bobs, list) and all(isinstance(x, bool) for x in bobs)):
        return True
    idx = dict(zip(qs, obs))
    if bobs != [idx[t] for t in batch]:
        return True
    ans = proto.run_driver([driver_cmd(cfg, qs, obs, batch, bobs)])[0]
    return ans["batch"]["spec_ok"] is False


def shrink(case: dict) -> dict:
    cfg = json.loads(json.dumps(case["config"]))
    hung = isinstance(case.get("impl"), dict) and "hang" in case["impl"]
    if hung or (isinstance(case.get("impl_batch"), dict) and "hang" in case["impl_batch"]):
        # every probe of a hanging input costs the guard: keep it short and shrink the store only
        case = {**case, "_guard": 2}
        cfg["tuples"] = lib.shrink_list(cfg["tuples"], lambda xs: _attempt({**cfg, "tuples": xs}, case), budget=12)
        out = {**case, "config": cfg}
        out.pop("_guard")
        return out

    def attempt(cand: dict) -> bool:
        try:
            return still_fails(cand, case)
        except Exception:  # noqa: BLE001
            return False

    cfg["tuples"] = lib.shrink_list(cfg["tuples"], lambda xs: attempt({**cfg, "tuples": xs}), budget=40)
    flat = [(ty, rel, e) for ty, rels in cfg["rules"] for rel, e in rels]

    def regroup(fl):
        d: dict = {}
        for ty, rel, e in fl:
            d.setdefault(ty, []).append([rel, e])
        return [[ty, rels] for ty, rels in d.items()]

    flat = lib.shrink_list(flat, lambda xs: attempt({**cfg, "rules": regroup(xs)}), budget=40)
    cfg["rules"] = regroup(flat)
    cfg["registry"] = lib.shrink_list(cfg["registry"], lambda xs: attempt({**cfg, "registry": xs}), budget=10)
    if "batch" in case:
        b = lib.shrink_list(case["batch"], lambda xs: bool(xs) and attempt_batch(cfg, case, xs), budget=20)
        case = {**case, "batch": b}
    out = {**case, "config": cfg}
    # re-observe on the shrunk input so that the replay file is self-contained
    if "query" in case:
        q = tuple(case["query"])
        obs, _ = run_impl(cfg, [q], None, guard_s=case.get("_guard", 10))
        ans = proto.run_driver([driver_cmd(cfg, [q], obs, None, None)])[0]["answers"][0]
        out.update({"impl": obs[0], "model": ans["model"], "model_outcome": ans["outcome"], "derivable": ans["derivable"],
                    "limit_hit": ans["limit_hit"]})
    else:
        batch = [tuple(t) for t in out["batch"]]
        qs = list(dict.fromkeys(batch))
        obs, bobs = run_impl(cfg, qs, batch, guard_s=case.get("_guard", 10))
        ans = proto.run_driver([driver_cmd(cfg, qs, obs, batch, bobs)])[0]
        out.update({"impl_batch": bobs, "impl_individual": [dict(zip(qs, obs))[t] for t in batch],
                    "model_batch": ans["batch"]["model"], "derivable": ans["batch"]["derivable"]})
    return out


def _attempt(cfg: dict, case: dict) -> bool:
    try:
        return still_fails(cfg, case)
    except Exception:  # noqa: BLE001
        return False


def attempt_batch(cfg: dict, case: dict, xs: list) -> bool:
    try:
        return still_fails(cfg, {**case, "batch": xs})
    except Exception:  # noqa: BLE001
        return False


def check(run: lib.Run, audit: dict) -> int:
    run.rule = ("small scope (thorough: complete; quick: deterministic 1-in-k slice, offset by the seed): A every ordered store of ≤2 "
                "tuples, every 3-set and every 4-set over 5 subjects (2 users, 3 objects; one id without type prefix, one with two colons) × 2 relations "
                "× 3 objects (self loops, cycles, duplicates) × a pool of 8 rewrite maps; D every userset expression of union-depth ≤2 over "
                f"This/ComputedUserset/TupleToUserset/unknown ({len(exprs_depth2())}) × 26 stores, and 11×11 expression pairs; C ordered stores of ≤2 tuples "
                "each unconditional or under one of two caveats × 6×6 registries (absent/true/false/raise/ctx[k]/ctx.get(k)) × 4 contexts; "
                "B max_depth −1..3 × max_nodes 0..5 × deadline passing at read 0/1/2/3/never on 40 stores; each configuration asked 14 "
                "triples individually and 8 in one batch_check.  random: graphs of ≤12 tuples (duplicates, caveats, odd ids), nested rules "
                "of depth ≤3, random limits, monotone and scripted (non-monotone, equality-at-deadline) clocks; re-entrant: random graphs in which "
                "one caveat's predicate runs a nested check on the same checker under a context that flips the other caveats.  A case = (configuration, "
                "query triple), distinct by content hash; non-trivial = the relation is derivable within max_depth or the model run hit a "
                "node/time limit")
    run.exhaustive = run.tier == "thorough"
    run.assumptions = [
        "caveat predicates are pure functions of the context (no state between calls); the model takes bool(pred(context)) as a table entry; "
        "a predicate that itself calls check() is modelled as the plain predicate it ends with (checks do not interfere with one another)",
        "subjects, relations, resources, caveat names and rule keys are str; max_depth / max_nodes / deadline_ms are int",
        "the clock is injected by replacing the module attribute rbacx.rebac.local.time (the code reads time.perf_counter_ns()); "
        "the theorems quantify over every clock behaviour, the differential run exercises monotone linear clocks and scripted ones",
        "rule maps and the caveat registry are dicts (unique keys); a rule value None is the same as a missing rule",
        "direct tuples count even when the rewrite for the relation has no This() (the code checks them first; documented behaviour)",
    ]
    if not audit["ok"]:
        raise lib.CheckError(f"Lean build/audit failed at {audit['stage']}: "
                             f"{audit.get('log') or audit.get('forbidden') or audit.get('bad_axioms')}")
    # local.py as it is written NOW, translated into Lean (typed; the BFS loop run with a budget), is proved to terminate within
    # Rebac.fuelBound and to equal the model the theorems are about
    tr = audit["facts"].get("translated_rebac")
    untranslatable = isinstance(tr, dict) and "extraction_failed" in tr
    ok_tr, detail_tr = lib.run_obligation("C12_translated")
    run.obligation("C12_translated: Generated.Src.rebac_* (the current source text of rbacx/rebac/local.py: RelTuple, the userset-expression "
                   "classes, InMemoryRelationshipStore, _split_ref, LocalRelationshipChecker; check's `while queue:` run with a budget) — for every "
                   "store, rule map, registry outcome table, limits, clock and query the translated check returns within fuelBound = 2 + "
                   "max_nodes⁺·(sum of the rewrite widths) iterations and then equals the model's Rebac.check under the clock's deadline oracle; "
                   "_split_ref, add/direct_for_resource/by_subject, _caveat_holds, _direct_allowed, _lookup_expr, _expand, batch_check equal "
                   "their model counterparts", ok_tr,
                   "discharged" if ok_tr else (str(tr["extraction_failed"]) if untranslatable else detail_tr))
    if untranslatable or not isinstance(tr, dict):
        ok_py, detail_py = True, "skipped: local.py is not in the translatable subset (see C12_translated)"
    else:
        ok_py, detail_py = translated_vs_python(run)
    run.obligation("translated local.py evaluates like the real store / checker (check, batch_check, _direct_allowed, _split_ref, _lookup_expr, "
                   "_expand, direct_for_resource, by_subject, _caveat_holds; translator + Model/PyRebac.lean vs CPython; never out of fuel)",
                   ok_py, detail_py)
    tr_disagreements = [c for c in run.disagreements if c.get("part") == "translated source vs python"]
    run.disagreements = [c for c in run.disagreements if c.get("part") != "translated source vs python"]
    cov = LineCov()
    run_cases(run, [small_scope(run), random_scope(run, scale=run.boost), reentrant_scope(run, scale=run.boost), crowded_scope(run, scale=run.boost)], cov, cov_every=7)
    run.extra["anchored_line_coverage"] = cov.report()
    run.extra["clock_reads"] = CLOCK.reads
    if not run.spec_failures:
        call_sequences(run)
    violations = []
    if (run.disagreements or not ok_tr) and not run.spec_failures:
        scale = 5 if run.tier == "quick" else 1
        run.notes.append(("correspondence broke" if run.disagreements else "the translation tie (C12_translated) broke")
                         + f": widened the random search (×{scale}, fresh stream) looking for a spec failure")
        run_cases(run, [random_scope(run, scale=scale, stream=1)])
    if run.spec_failures:
        first = run.spec_failures[0]
        # prefer a failure that does not depend on limits / clocks if there is one (easier to read)
        for c in run.spec_failures[:200]:
            if "query" in c and c.get("limit_hit") is False and c["config"]["deadline"]["ms"] == NEVER_MS:
                first = c
                break
        c = first if first.get("part") == "call sequence" else shrink(first)
        path = run.write_replay("spec", {
            "what": "implementation output contradicts the C12 spec (Rbacx.Rebac.specOk = decidable Derivable, theorem c12_spec_decides): "
                    + first["why"],
            "case": c, "more": len(run.spec_failures) - 1,
            "how_to_read": "config.tuples = [subject, relation, resource, caveat]; rules = [[object_type, [[relation, expr]]]]; expr: this | "
                           "[c, rel] ComputedUserset | [t, tupleset, computed] TupleToUserset | [u, [..]] union; deadline.ms = deadline_ms "
                           "under a clock advancing 1 ms per read"})
        violations.append((path, True))
    elif not ok_tr:
        path = run.write_replay("obligation", {
            "what": "per-run obligation Rbacx/Run/C12_translated.lean no longer checks: the translated source of rbacx/rebac/local.py is not "
                    "proved to terminate within fuelBound and to equal the model's Rebac.check (and helpers), the functions theorems "
                    "Rbacx.C12.* are about; the widened search found no input on which the implementation contradicts the derivability spec",
            "translation": tr if untranslatable else "translated (see lean/Rbacx/Generated.lean, Src.rebac_*)", "lean": detail_tr[-1500:],
            "first_disagreement": (run.disagreements or tr_disagreements)[:1]})
        violations.append((path, False))
    elif tr_disagreements or not ok_py:
        first = tr_disagreements[0] if tr_disagreements else {"part": "translated source vs python", "what": detail_py}
        path = run.write_replay("correspondence", {
            "what": "translated source vs python: " + str(first.get("what")) + "; the obligation C12_translated rests on a translation that "
                    "CPython contradicts (or that could not be evaluated)",
            "first": first, "count": len(tr_disagreements)})
        violations.append((path, False))
    elif run.disagreements:
        path = run.write_replay("correspondence", {
            "what": "model (Rbacx.Rebac.check / batchCheck) and implementation disagree on the boolean answer; theorems Rbacx.C12.* "
                    "no longer speak about this code (no input violating the derivability spec was found)",
            "first": run.disagreements[0], "count": len(run.disagreements)})
        violations.append((path, False))
    return run.finish(audit, violations)


def replay(run: lib.Run, audit: dict, path: str) -> int:
    rp = json.load(open(path))
    c = rp.get("case") or rp.get("first")
    cfg = c["config"]
    if "query" in c:
        q = tuple(c["query"])
        obs, _ = run_impl(cfg, [q], None)
        ans = proto.run_driver([driver_cmd(cfg, [q], obs, None, None)])[0]["answers"][0]
        print("query:", q)
        print("impl :", obs[0])
        print("model:", ans["model"], ans["outcome"], "derivable within max_depth:", ans["derivable"], "spec_ok:", ans["spec_ok"])
        bad = (not isinstance(obs[0], bool)) or ans["spec_ok"] is False or obs[0] != ans["model"]
    else:
        batch = [tuple(t) for t in c["batch"]]
        qs = list(dict.fromkeys(batch))
        obs, bobs = run_impl(cfg, qs, batch)
        ans = proto.run_driver([driver_cmd(cfg, qs, obs, batch, bobs)])[0]
        singles = [dict(zip(qs, obs))[t] for t in batch]
        print("batch:", batch)
        print("impl batch_check:", bobs)
        print("impl individual :", singles)
        print("model           :", ans["batch"]["model"], "spec_ok:", ans["batch"]["spec_ok"])
        bad = bobs != singles or bobs != ans["batch"]["model"] or ans["batch"]["spec_ok"] is False
    print("recorded:", {k: c.get(k) for k in ("impl", "model", "derivable", "impl_batch", "impl_individual", "why")})
    print("REPRODUCED" if bad else "not reproduced on this tree")
    return 1 if bad else 0
