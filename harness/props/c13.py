"""C13 — rel conditions: canonical lookup, fail closed, memoised per decision only.

Tie: real `Guard` with recording relationship checkers (sync, async, raising, absent) against the
model's memoised evaluation (`guardDecideM`): decision AND the exact sequence of checker calls
(subject, relation, resource, merged context). Spec clauses checked directly on the observations:
no duplicate (triple, context) within one decision, nothing reused across decisions (relationship data
changed between decisions), concurrent evaluations on engines with different checkers never cross-talk.
Partial: contextvars / event-loop isolation are observed, not proved."""
from __future__ import annotations

import asyncio
import json
import random

import gen
import guardcases as gc
import lib
import proto
import real


def ctx_hash(ctx) -> str:
    return json.dumps(proto.enc(ctx), sort_keys=True) if ctx else ""


def norm(v):
    """dict key order is irrelevant for a call's context"""
    if isinstance(v, dict):
        return {k: norm(v[k]) for k in sorted(v)}
    if isinstance(v, list):
        return [norm(x) for x in v]
    return v


def call_key(c):
    s, r, o, ctx = c
    return (s, r, o, json.dumps(norm(proto.dec(ctx)) if ctx is not None else None, sort_keys=True, default=str))


def run_one(policy, req, cfg, flavour):
    events, calls = [], []
    try:
        g = real.make_guard(policy, cfg, events, rel_calls=calls, flavour=flavour)
        d = real.call_guard(g, req, flavour)
    except Exception as e:  # noqa: BLE001
        return {"raised": type(e).__name__}, calls
    return {"ok": real.render_decision(d, events)}, calls


REL_TEMPLATES = [
    {"rel": "viewer"}, {"rel": {"relation": "owner"}}, {"rel": {"relation": "viewer", "subject": "user:9"}},
    {"rel": {"relation": "viewer", "subject": "bob", "resource": "7"}}, {"rel": {"relation": "viewer", "resource": "doc:7", "ctx": {"ip": "10.0.0.1"}}},
    {"rel": {"relation": "viewer", "subject": {"attr": "context.s"}, "resource": {"attr": "resource.id"}}},
    {"rel": {"relation": "viewer", "ctx": {}}}, {"rel": {"relation": "", "subject": "x"}}, {"rel": {"relation": "viewer", "subject": {"attr": "context.n"}}},
    {"and": [{"rel": "viewer"}, {"rel": "viewer"}, {"rel": "owner"}]}, {"or": [{"rel": "owner"}, {"rel": "viewer"}, {"rel": "owner"}]},
    {"not": {"rel": "viewer"}}, {"and": [{"rel": {"relation": "viewer", "ctx": {"a": 1, "b": 2}}}, {"rel": {"relation": "viewer", "ctx": {"b": 2, "a": 1}}}]},
    {"and": [{"rel": {"relation": "viewer", "ctx": {"a": 1}}}, {"rel": {"relation": "viewer", "ctx": {"a": 1.0}}}, {"rel": {"relation": "viewer", "ctx": {"a": True}}}]},
]


def cases(run: lib.Run, scale: int = 1):
    quick = run.tier == "quick"
    r = random.Random(run.seed * 613 + 13)
    reqs = [
        {"sid": "u1", "roles": [], "sattrs": {}, "action": "read", "rtype": "doc", "rid": "1", "rattrs": {}, "ctx": {"s": "bob", "n": 5}},
        {"sid": "alice", "roles": [], "sattrs": {}, "action": "read", "rtype": "doc", "rid": 7, "rattrs": {}, "ctx": {"_rebac": {"ip": "1.1.1.1", "k": 0}, "s": "user:9"}},
        {"sid": None, "roles": [], "sattrs": {}, "action": "read", "rtype": None, "rid": None, "rattrs": {}, "ctx": {"_rebac": {}}},
        {"sid": 1, "roles": [], "sattrs": {}, "action": "read", "rtype": "file", "rid": "1", "rattrs": {}},
    ]
    tables = [{"table": [], "default": True}, {"table": [], "default": False}, {"table": [], "default": None},
              {"table": [["user:u1", "viewer", "doc:1", True], ["user:alice", "viewer", "doc:7", None], ["user:9", "viewer", "doc:7", True],
                         ["user:bob", "viewer", "doc:7", False], ["user:u1", "owner", "doc:1", False]], "default": False}, None]
    # exhaustive: every template pair as two rules × 3 algorithms × requests × checker tables
    for i, c1 in enumerate(REL_TEMPLATES):
        for j, c2 in enumerate(REL_TEMPLATES):
            if quick and (i * 7 + j) % 3:
                continue
            # the rule's own declared type(s) never enter the lookup: the triple is built from the REQUEST's resource
            rtypes = ["*", ["file", "doc"], "doc", ["img", "*"], ["file", "doc", "img"]]
            for ai, algo in enumerate(gen.ALGOS):
                pol = {"algorithm": algo, "rules": [
                    {"id": "a", "effect": "permit", "actions": ["read"], "resource": {"type": rtypes[(i + j + ai) % 5]}, "condition": c1},
                    {"id": "b", "effect": "deny", "actions": ["read"], "resource": {"type": rtypes[(i + 2 * j + ai + 1) % 5]}, "condition": c2}]}
                for qi, req in enumerate(reqs):
                    t = tables[(i + j + qi) % len(tables)]
                    cfg = {"strict": False}
                    if t is not None:
                        # what a failing backend raises (a timeout of its own included) makes no difference: false, and looked up once
                        cfg["rel"] = {**t, "raise_with": ["RuntimeError", "TimeoutError", "asyncio.TimeoutError", "OSError"][(i + j + qi + ai) % 4]}
                    yield pol, req, cfg
    for pol, req, cfg in gc.random_cases(run.seed * 617 + 13, (1500 if quick else 15000) * scale, rel=1.0, nested=0.4, hostile=0.05):
        if r.random() < 0.15:
            cfg = {k: v for k, v in cfg.items() if k != "rel"}
        yield pol, req, cfg


def run_cases(run: lib.Run, audit: dict, scale: int = 1):
    consts = audit["facts"]["consts"]
    flav = ["sync", "async", "sync-in-loop", "sync-collab-async", "async-collab-async", "sync-collab-awaitable", "async-collab-awaitable"]
    batch, cmds = [], []
    for i, (pol, req, cfg) in enumerate(cases(run, scale)):
        out, calls = run_one(pol, req, cfg, flav[i % len(flav)])
        batch.append((pol, req, cfg, flav[i % len(flav)], out, calls))
        cmd = real.guard_cmd(pol, req, cfg, consts, proto.build_oracle(pol, req, cfg.get("resolver"), cfg.get("checker")))
        cmd["want_rel_calls"] = True
        cmds.append(cmd)
    answers = proto.run_driver(cmds)
    for (pol, req, cfg, fl, out, calls), model in zip(batch, answers):
        run.count(f"{gc.outcome_class(out)}|calls={min(len(calls), 4)}")
        run.case([pol, req, cfg], bool(calls), {"policy": pol, "request": req, "cfg": cfg, "impl": out, "calls": calls} if calls else None)
        case = {"policy": pol, "request": req, "cfg": cfg, "flavour": fl, "impl": out, "impl_calls": calls, "model": model}
        keys = [call_key(c) for c in calls]
        if len(set(keys)) != len(keys):
            run.spec_failures.append({**case, "spec": "the same triple-and-context was looked up twice within one decision"})
            continue
        if cfg.get("rel") is None and calls:
            run.spec_failures.append({**case, "spec": "a checker was consulted although none is configured"})
            continue
        mcalls = [call_key(c) for c in (model.get("rel_calls") or [])] if isinstance(model, dict) else []
        proj = (lambda o: ("raised",) if "raised" in o else (o["ok"]["allowed"], o["ok"]["effect"], o["ok"]["reason"], o["ok"]["rule_id"]))
        if proj(out) != proj(model) or keys != mcalls:
            run.disagreements.append(case)


def check_isolation(run: lib.Run):
    """nothing reused across decisions; concurrent evaluations on engines with different checkers do not cross-talk"""
    pol = {"algorithm": "deny-overrides", "rules": [{"id": "a", "effect": "permit", "actions": ["read"], "resource": {"type": "doc"},
                                                     "condition": {"and": [{"rel": "viewer"}, {"rel": "viewer"}]}}]}
    req = {"sid": "u1", "roles": [], "sattrs": {}, "action": "read", "rtype": "doc", "rid": "1", "rattrs": {}, "ctx": {}}
    calls: list = []
    rel = real.TableRel([], True, calls)
    from rbacx.core.engine import Guard
    g = Guard(pol, relationship_checker=rel)
    d1 = real.call_guard(g, req)
    rel.default = False          # relationship data changes between decisions
    d2 = real.call_guard(g, req)
    run.evaluations += 2
    run.count("isolation:sequential")
    if not (d1.allowed and not d2.allowed and len(calls) == 2):
        run.spec_failures.append({"part": "across decisions", "first": d1.allowed, "second": d2.allowed, "calls": calls,
                                  "spec": "a lookup made in one decision was reused in the next (or repeated within one)"})
    # concurrent: N evaluate_async on two engines with different (async, slow) checkers
    ca, cb = [], []

    class Slow(real.TableRel):
        def check(self, subject, relation, resource, *, context=None):
            async def _c():
                await asyncio.sleep(0.001)
                return self._answer(subject, relation, resource, context)
            return _c()
    ga = Guard(pol, relationship_checker=Slow([], True, ca))
    gb = Guard(pol, relationship_checker=Slow([], False, cb))
    s, a, r, c = real.make_request(req)

    async def many():
        tasks = []
        for i in range(40):
            tasks.append((ga if i % 2 == 0 else gb).evaluate_async(s, a, r, c))
        return await asyncio.gather(*tasks)
    res = asyncio.run(many())
    run.evaluations += 40
    run.count("isolation:concurrent")
    ok = all(d.allowed == (i % 2 == 0) for i, d in enumerate(res)) and len(ca) == 20 and len(cb) == 20
    if not ok:
        run.spec_failures.append({"part": "concurrent engines", "allowed": [d.allowed for d in res], "calls_a": len(ca), "calls_b": len(cb),
                                  "spec": "concurrent evaluations on engines with different checkers affected each other (or lookups were shared)"})


def check_nested(run: lib.Run):
    """a relationship checker that, in the middle of a decision of engine A, asks ANOTHER engine B for a decision: B has no
    checker (its `rel` conditions are false), or its own checker with other answers — the lookups of the two decisions must not mix"""
    import threading
    from rbacx.core.engine import Guard
    rel_pol = {"algorithm": "deny-overrides", "rules": [{"id": "a", "effect": "permit", "actions": ["read"], "resource": {"type": "doc"},
                                                         "condition": {"rel": "viewer"}}]}
    req = {"sid": "u1", "roles": [], "sattrs": {}, "action": "read", "rtype": "doc", "rid": "1", "rattrs": {}, "ctx": {}}
    s, a, r, c = real.make_request(req)
    for inner_kind in ("no-checker", "denying-checker"):
        for mode in ("sync", "async"):
            inner_calls: list = []
            inner = Guard(rel_pol, relationship_checker=None if inner_kind == "no-checker" else real.TableRel([], False, inner_calls))
            seen: list = []

            class Asking:
                def check(self, subject, relation, resource, *, context=None):
                    if mode == "async":
                        async def _c():
                            seen.append((await inner.evaluate_async(s, a, r, c)).allowed)
                            return True
                        return _c()
                    seen.append(inner.evaluate_sync(s, a, r, c).allowed)
                    return True
            outer = Guard(rel_pol, relationship_checker=Asking())
            box: dict = {}

            def go():
                try:
                    box["d"] = outer.evaluate_sync(s, a, r, c).allowed
                except Exception as e:  # noqa: BLE001
                    box["d"] = "raised:" + type(e).__name__
            th = threading.Thread(target=go, daemon=True)
            th.start()
            th.join(20)
            run.evaluations += 1
            run.count("isolation:nested")
            got = {"outer": box.get("d", "did not return"), "inner": seen}
            if got != {"outer": True, "inner": [False]}:
                run.spec_failures.append({"part": "nested decisions", "inner_engine": inner_kind, "checker": mode, "observed": got,
                                          "expected": {"outer": True, "inner": [False]},
                                          "spec": "a decision made by another engine inside a checker call saw this engine's checker / memo (or vice versa)"})


# ----------------------------------------------------------------------------- translated source vs python (C13_translated)


class _RecChecker:
    """a relationship checker whose `check` records its arguments and answers from `behave(call index, subject, relation, resource)`:
    a value to return, or an exception class to raise"""

    def __init__(self, behave, rows: list):
        self.behave, self.rows, self.n = behave, rows, 0

    def check(self, subject, relation, resource, *, context=None):
        import copy
        args = [subject, relation, resource, copy.deepcopy(context)]
        self.n += 1
        out = self.behave(self.n, subject, relation, resource)
        if isinstance(out, type) and issubclass(out, BaseException):
            self.rows.append([args, {"err": "raised:" + out.__name__}])
            raise out("rel backend down")
        self.rows.append([args, {"ok": out}])
        return out


REL_EXPRS = [
    "viewer", "", "owner", 5, None, True, [], ["viewer"], 1.5, {}, {"relation": "viewer"}, {"relation": ""}, {"relation": None}, {"relation": 5},
    {"relation": 0}, {"relation": ["x"]}, {"relation": "viewer", "subject": "user:9"}, {"relation": "viewer", "subject": "bob", "resource": "7"},
    {"relation": "viewer", "subject": "", "resource": ""}, {"relation": "viewer", "subject": 5, "resource": 7}, {"relation": "viewer", "subject": ":", "resource": "a:b:c"},
    {"relation": "viewer", "resource": "doc:7", "ctx": {"ip": "10.0.0.1"}}, {"relation": "viewer", "ctx": {"k": 2, "new": [1, {"z": 1, "a": 2}]}},
    {"relation": "viewer", "subject": {"attr": "context.s"}, "resource": {"attr": "resource.id"}}, {"relation": "viewer", "subject": {"attr": "context.n"}},
    {"relation": "viewer", "subject": {"attr": "context.missing.deeper"}, "resource": {"attr": "subject.id"}}, {"relation": "viewer", "ctx": {}},
    {"relation": "viewer", "ctx": 5}, {"relation": "viewer", "ctx": None}, {"relation": "viewer", "ctx": {"ip": None}}, {"relation": "viewer", "subject": None, "resource": None},
    {"relation": "viewer", "subject": {"attr": "context.s"}, "ctx": {"ip": "10.0.0.1", "k": 1.0}},
]

REL_ENVS = [
    {"subject": {"id": "u1"}, "action": "read", "resource": {"type": "doc", "id": "1"}, "context": {"s": "bob", "n": 5}},
    {"subject": {"id": "alice", "roles": []}, "action": "read", "resource": {"type": "doc", "id": 7, "attrs": {}}, "context": {"_rebac": {"ip": "1.1.1.1", "k": 0}, "s": "user:9"}},
    {"subject": {"id": None}, "resource": {"type": None, "id": None}, "context": {"_rebac": {}}},
    {"subject": {"id": 1}, "resource": {"type": "file", "id": "1"}},
    {"subject": {"id": 1.5}, "resource": {"type": 0, "id": 0}, "context": None},
    {"subject": {}, "resource": None, "context": {"_rebac": None, "s": ""}},
    {"resource": {"id": "x"}, "context": {"_rebac": {"b": 1, "a": {"y": 1, "x": 2}}, "s": "a:b"}},
    {}, {"subject": None, "resource": {"type": "doc"}}, {"subject": {"id": "u"}, "resource": "doc", "context": {}}, {"subject": {"id": "u"}, "resource": {"type": "doc"}, "context": 5},
    {"subject": {"id": "u"}, "resource": {"type": "doc"}, "context": {"_rebac": 5}}, {"subject": {"id": "u"}, "resource": {"type": ["doc"], "id": [1]}, "context": {"_rebac": {"k": 1}}},
]

MEMO_KINDS = ["empty", "none", "hit", "miss", "list", "hit-falsy", "hit-truthy"]


def _behaviours():
    from rbacx.core.policy import ConditionTypeError
    vals = [True, False, None, 1, 0, "", "yes", [], [0], 1.5]
    out = [("always-" + repr(v), (lambda v: lambda n, s, r, o: v)(v)) for v in vals]
    for cls in (RuntimeError, TimeoutError, OSError, KeyError, ConditionTypeError):
        out.append(("raises-" + cls.__name__, (lambda c: lambda n, s, r, o: c)(cls)))
    return out


def rel_leaf_cases(run: lib.Run, scale: int = 1):
    """(rel expression, env, checker behaviour | None, memo kind, event loop set?)"""
    r = random.Random(run.seed * 7129 + 13)
    beh = _behaviours()
    k = 0
    for expr in REL_EXPRS:
        for env in REL_ENVS:
            k += 1
            for j in range(2 if run.tier == "quick" else 6):
                b = None if (k + j) % 9 == 0 else beh[(k * 5 + j * 7) % len(beh)]
                yield expr, env, b, MEMO_KINDS[(k + 3 * j) % 7], (k + j) % 5 == 0
    for _ in range((300 if run.tier == "quick" else 3000) * scale):
        yield gen.choice(r, REL_EXPRS), gen.choice(r, REL_ENVS), (None if r.random() < 0.1 else gen.choice(r, beh)), \
            gen.choice(r, MEMO_KINDS), r.random() < 0.25


def translated_vs_python(run: lib.Run) -> tuple[bool, str]:
    """the translated `rel` branch (Generated.Src.rel_range: state-and-exception-passing, harness/pytolean_rel.py) and the translated
    `_canon_subject` / `_canon_resource`, evaluated by `lake env lean --run Rbacx/Run/SrcEvalRel.lean`, against the REAL
    `eval_condition({"rel": …}, env)` with recording / raising / absent checkers, empty / pre-filled / absent / non-dict memos and with or
    without an event loop in EVAL_LOOP: the result (or WHICH exception), the list of checker calls (subject, relation, resource, merged
    context) and the content of the memo afterwards.  Externals of the translation (`getattr`, `_ctx_hash`, `resolve_awaitable_in_worker`)
    and the checker's outcomes are tables of what the real run did.  Validates harness/pytolean_rel.py and Model/PyRel.lean."""
    import builtins
    import copy
    import subprocess
    from props import c04
    from rbacx.core import policy as rpolicy
    from rbacx.core.relctx import EVAL_LOOP, REL_CHECKER, REL_LOCAL_CACHE
    rec = c04._ExtRecorder()
    real_hash, real_raw = rpolicy._ctx_hash, rpolicy.resolve_awaitable_in_worker

    def fresh_rows():
        rec.rows, rec.bad = {"getattr": {}, "_ctx_hash": {}, "resolve_awaitable_in_worker": {}}, False

    def rec_getattr(obj, name, *default):
        return rec.note("getattr", [obj, name, *default], lambda: builtins.getattr(obj, name, *default))

    def rec_hash(ctx):
        return rec.note("_ctx_hash", [ctx], lambda: real_hash(ctx))

    def rec_raw(res, loop, timeout=None):
        # the event loop is a stub: what the resolution does to a value is decided here (identity, or a timeout for one value)
        def go():
            if res == "yes":
                raise TimeoutError("stub: the awaitable did not resolve")
            return res
        return rec.note("resolve_awaitable_in_worker", [res, "<object>", timeout], go)

    def run_real(cond, env, behave, memo, loop):
        rows: list = []
        toks = [(REL_CHECKER, REL_CHECKER.set(None if behave is None else _RecChecker(behave, rows))), (REL_LOCAL_CACHE, REL_LOCAL_CACHE.set(memo)),
                (EVAL_LOOP, EVAL_LOOP.set(object() if loop else None))]
        try:
            return c04._outcome(lambda: rpolicy.eval_condition(copy.deepcopy(cond), copy.deepcopy(env))), rows
        finally:
            for var, tok in reversed(toks):
                var.reset(tok)

    def enc_memo(memo):
        return [[proto.enc(k_), proto.enc(v_)] for k_, v_ in memo.items()] if isinstance(memo, dict) else None

    calls, skipped = [], 0
    rpolicy.getattr, rpolicy._ctx_hash, rpolicy.resolve_awaitable_in_worker = rec_getattr, rec_hash, rec_raw
    try:
        for expr, env, beh, memo_kind, loop in rel_leaf_cases(run, run.boost):
            cond = {"rel": expr, "==": [1, 2]}
            behave = None if beh is None else beh[1]
            fresh_rows()
            memo: object = {}
            if memo_kind in ("hit", "hit-falsy", "hit-truthy", "miss"):
                probe: dict = {}
                run_real(cond, env, (lambda n, s, r_, o: True) if behave is None else behave, probe, False)
                if memo_kind == "miss":
                    memo = {(k_[0], str(k_[1]) + "x") + tuple(k_[2:]): True for k_ in probe} | {("a", "b", "c", ""): False}
                else:
                    pick = {"hit": lambda v: v, "hit-falsy": lambda v: [0, None, "", []][len(str(v)) % 4], "hit-truthy": lambda v: [1, "no", [0]][len(str(v)) % 3]}[memo_kind]
                    memo = {("z", "z", "z", "z"): True} | {k_: pick(v_) for k_, v_ in probe.items()}
                fresh_rows()
            elif memo_kind == "none":
                memo = None
            elif memo_kind == "list":
                memo = []
            before = copy.deepcopy(memo)
            want, rows = run_real(cond, env, behave, memo, loop)
            try:
                line = {"fn": "rel_range", "args": [proto.enc(cond), proto.enc(env)], "oracle": proto.build_oracle(cond, env),
                        "ext": {k_: list(v_.values()) for k_, v_ in rec.rows.items()},
                        "checker": None if behave is None else [[[proto.enc(a) for a in args], ({"ok": proto.enc(o["ok"])} if "ok" in o else o)] for args, o in rows],
                        "eval_loop": loop, "memo": enc_memo(before)}
                expect = {"res": want, "memo": enc_memo(memo), "calls": [[proto.enc(a) for a in args] for args, _o in rows]}
            except TypeError:
                skipped += 1
                continue
            if want is None or rec.bad:
                skipped += 1
                continue
            calls.append((json.dumps(line), expect, f"rel|{memo_kind}|{'no checker' if beh is None else beh[0]}|loop={loop}", (cond, env)))
        for env in REL_ENVS:
            for ov in [None, "bob", "user:9", "", ":", "a:b:c", 5, 0, True, [], ["x"], {}, {"attr": "context.s"}, {"attr": "context.n"}, {"attr": "resource.id"},
                       {"attr": "subject.id"}, {"attr": "context.missing.deeper"}, {"attr": "resource.type"}, {"attr": 5}, {"x": 1}]:
                for fn, f in (("_canon_subject", rpolicy._canon_subject), ("_canon_resource", rpolicy._canon_resource)):
                    fresh_rows()
                    want = c04._outcome(lambda: f(copy.deepcopy(env), copy.deepcopy(ov)))
                    if ov is None and want != c04._outcome(lambda: f(copy.deepcopy(env))):
                        return False, f"{fn}: the default of `override` is not None"
                    if want is None or rec.bad:
                        skipped += 1
                        continue
                    line = {"fn": fn, "args": [proto.enc(env), proto.enc(ov)], "oracle": proto.build_oracle(env, ov), "ext": {"getattr": list(rec.rows["getattr"].values())}}
                    calls.append((json.dumps(line), want, fn, (env, ov)))
    finally:
        del rpolicy.getattr
        rpolicy._ctx_hash, rpolicy.resolve_awaitable_in_worker = real_hash, real_raw
    p = subprocess.run(["lake", "env", "lean", "--run", "Rbacx/Run/SrcEvalRel.lean"], cwd=lib.LEAN, input="\n".join(c[0] for c in calls) + "\n",
                       capture_output=True, text=True, timeout=900)
    outs = [ln for ln in p.stdout.split("\n") if ln]
    if p.returncode != 0 or len(outs) != len(calls):
        return False, "SrcEvalRel: " + (p.stderr or p.stdout)[-800:]
    bad = unrepresented = 0
    for (_line, want, label, raw), ln in zip(calls, outs):
        got = json.loads(ln)
        res = got.get("res", got)
        if isinstance(res, dict) and res.get("err") == "raised:NotRepresented":
            unrepresented += 1      # an operation on a value Model/PyRel.lean / PyExcept.lean deliberately do not represent (dict(<list of pairs>), …)
            continue
        wres = want.get("res", want)
        run.count("translated-rel")
        run.count(f"translated-rel: {label.split('|')[0]} -> " + (wres["err"] if "err" in wres else "value")
                  + (f" calls={len(want['calls'])}" if "calls" in want else ""))
        if got != want:
            bad += 1
            if bad == 1:
                run.disagreements.append({"part": "translated source vs python", "function": label, "args": list(raw), "impl": {"python": want}, "model": got,
                                          "what": "the translated rel branch / canonicaliser (Generated.Src.rel_range, canon_subject, canon_resource) and the real "
                                                  "eval_condition / function differ in result, checker calls or final memo"})
    if skipped:
        run.hist["translated-rel: outside the value universe (not evaluated)"] = skipped
    if unrepresented:
        run.hist["translated-rel: an operation that is deliberately not represented (not compared)"] = unrepresented
    run.evaluations += len(calls)
    return bad == 0, f"{bad} of {len(calls)} evaluations differ" if bad else f"agree on {len(calls) - unrepresented} evaluations"


def check(run: lib.Run, audit: dict) -> int:
    run.rule = ("exhaustive: ordered pairs of 14 rel-condition templates (short/extended form, literal and attribute overrides with/without ':', ctx "
                "merge, repeated and reordered-ctx lookups, and/or/not) × 3 algorithms × 4 requests × 5 checker tables (all-true, all-false, raising, "
                "mixed, absent), quick: pairs subsampled 1/3; random grammar policies / nested sets with rel everywhere; 7 API flavours (sync/async "
                "checkers); isolation probes (data changed between decisions; 40 concurrent evaluate_async on two engines; a checker that asks a second engine mid-decision). non-trivial = the checker "
                "was consulted")
    run.exhaustive = True
    run.assumptions = ["contextvars copy semantics across asyncio.to_thread and event-loop resolution of async checkers are observed, not proved (partial)",
                       "the recording checker answers from a table keyed by the triple (deterministic within a decision)"]
    if not audit["ok"]:
        raise lib.CheckError(f"Lean build/audit failed at {audit['stage']}: {audit.get('log') or audit.get('forbidden') or audit.get('bad_axioms')}")
    # the `rel` branch of eval_condition and the two canonicalisers as they are written NOW, translated into Lean (state-and-exception-
    # passing), are proved to do what the model's relQuery / evalRel / evalRelM say (per-run obligation); the translation itself is
    # compared with CPython
    trr = audit["facts"].get("translated_rel")
    rel = trr.get("rel") if isinstance(trr, dict) else None
    rel_failed = (trr or {}).get("extraction_failed") if isinstance(trr, dict) else None
    if isinstance(rel, dict) and "extraction_failed" in rel:
        rel_failed = rel["extraction_failed"]
    ok_tr, detail_tr = lib.run_obligation("C13_translated", deps=["C04_translated"])
    run.obligation("C13_translated: Generated.Src.rel_range / canon_subject / canon_resource (the current source text of the `rel` branch of "
                   "eval_condition and of _canon_subject / _canon_resource; ContextVars as parameters: checker outcome function, memo state, "
                   "event loop; externals getattr, _ctx_hash, resolve_awaitable_in_worker) = the model's relQuery / evalRel / evalRelM: the same "
                   "canonical triple and merged context handed to the checker, fail closed without a checker and on a raise, memo probed before the "
                   "call and stored after it, for every well-formed env, rel expression, checker outcome function and memo state", ok_tr,
                   "discharged" if ok_tr else (str(rel_failed) if rel_failed else detail_tr))
    if rel_failed or not isinstance(rel, dict):
        ok_py, detail_py = True, "skipped: the rel branch is not in the translatable subset (see C13_translated)"
    else:
        ok_py, detail_py = translated_vs_python(run)
    run.obligation("translated rel branch / canonicalisers evaluate like the real eval_condition({'rel': …}) / _canon_*: result or exception, "
                   "checker calls, final memo (harness/pytolean_rel.py + Model/PyRel.lean vs CPython)", ok_py, detail_py)
    tr_dis = [d for d in run.disagreements if d.get("part") == "translated source vs python"]
    run.disagreements = [d for d in run.disagreements if d.get("part") != "translated source vs python"]
    run_cases(run, audit, scale=run.boost * (1 if ok_tr else 2))
    check_isolation(run)
    check_nested(run)
    violations = []
    if run.disagreements and not run.spec_failures:
        run_cases(run, audit, scale=3)
    if not run.spec_failures and not run.disagreements and not ok_tr:
        path = run.write_replay("obligation", {"what": "per-run obligation Rbacx/Run/C13_translated.lean no longer checks: the translated source of the `rel` "
                                               "branch of eval_condition / _canon_subject / _canon_resource is not proved to do what the model's relQuery / "
                                               "evalRel / evalRelM say (canonical triple, fail closed, memo lookup before and store after the call), the "
                                               "functions theorems Rbacx.C13.* are about; the widened search found no request whose decision or checker-call "
                                               "sequence differs from the model's",
                                               "translation": rel_failed, "lean": detail_tr[-1500:], "first_disagreement": tr_dis[:1]})
        violations.append((path, False))
    elif not run.spec_failures and not run.disagreements and (tr_dis or not ok_py):
        first = tr_dis[0] if tr_dis else {"part": "translated source vs python", "what": detail_py}
        path = run.write_replay("correspondence", {"what": "translated source vs python: " + str(first.get("what")) + "; the obligation C13_translated rests on "
                                                   "a translation that CPython contradicts (or that could not be evaluated)", "first": first, "count": len(tr_dis)})
        violations.append((path, False))
    if run.spec_failures:
        path = run.write_replay("spec", {"what": "C13 violated on the real engine", "case": run.spec_failures[0], "count": len(run.spec_failures)})
        violations.append((path, True))
    elif run.disagreements:
        d = run.disagreements[0]
        # a different canonical triple / a call where the model makes none / a true where the model says false IS a violation of the statement
        path = run.write_replay("lookup", {"what": "decision or checker-call sequence differs from the canonical lookup semantics (model Rbacx.guardDecideM; "
                                           "theorems Rbacx.C13.*)", "case": d, "count": len(run.disagreements)})
        violations.append((path, True))
    return run.finish(audit, violations)


def replay(run: lib.Run, audit: dict, path: str) -> int:
    rp = json.load(open(path))
    c = rp.get("case") or rp.get("first")
    if "policy" in c:
        print("impl now:", run_one(c["policy"], c["request"], c["cfg"], c.get("flavour", "sync")))
    print("recorded:", json.dumps(c, default=str)[:1500])
    return 0
