"""C14 — context independence: sync = async, no cross-talk, mutation or deadlock.

Proved part: deadlock freedom of the reloader's blocking skeleton from a static condition checked on the
programs traced from the real code on every run (`Run/C14_locks.lean`).
Observed part (partial, named): (a) the three API flavours × sync/async collaborators return identical decisions
and events on the C01 inputs; (b) evaluating never mutates policy or request objects; (c) N concurrent
`evaluate_async` calls on one or several engines equal the sequential results; (d) every blocking entry point
(evaluate, check, start, stop) returns in every calling context (plain thread, inside a running loop, worker
thread; polling thread mid-check) under a watchdog."""
from __future__ import annotations

import asyncio
import copy
import json
import threading
import time

import guardcases as gc
import lib
import proto
import real
from rbacx.core.engine import Guard
from rbacx.policy import loader as rloader

FLAVOURS = ["sync", "async", "sync-in-loop", "sync-collab-async", "async-collab-async", "sync-collab-awaitable", "async-collab-awaitable"]
WATCHDOG = 8.0


def with_watchdog(fn, context: str):
    """run fn in `context`; returns (returned?, result or exception repr)"""
    box: dict = {}

    def call():
        try:
            box["r"] = fn()
        except BaseException as e:  # noqa: BLE001
            box["e"] = repr(e)

    def in_loop():
        async def main():
            call()
        asyncio.run(main())

    def in_worker():
        th2 = threading.Thread(target=call, daemon=True)
        th2.start()
        th2.join()
    target = {"plain": call, "loop": in_loop, "worker": in_worker}[context]
    th = threading.Thread(target=target, daemon=True)
    th.start()
    th.join(WATCHDOG)
    if th.is_alive():
        return False, "did not return within the watchdog"
    return True, box.get("e") or box.get("r")


class BlockingSrc:
    def __init__(self):
        self.gate, self.inload, self.block = threading.Event(), threading.Event(), False
        self.block_etag, self.inetag = False, threading.Event()

    def etag(self):
        if self.block_etag:
            self.inetag.set()
            self.gate.wait(WATCHDOG)
        return None

    def load(self):
        if self.block:
            self.inload.set()
            self.gate.wait(WATCHDOG)
        return {"rules": []}


class AsyncSrc:
    async def etag(self):
        return None

    async def load(self):
        await asyncio.sleep(0)
        return {"rules": []}


P_RULE = {"algorithm": "deny-overrides", "rules": [{"id": "r", "effect": "permit", "actions": ["read"], "resource": {"type": "doc"}}]}


def blocking_entry_points(run: lib.Run):
    P = {"rules": []}
    req = real.make_request({"sid": "u", "roles": [], "sattrs": {}, "action": "read", "rtype": "doc", "rid": "1", "rattrs": {}, "ctx": {}})
    for ctx in ("plain", "loop", "worker"):
        probes = {
            "Guard.evaluate_sync": lambda: Guard(P).evaluate_sync(*req).allowed,
            "Guard.is_allowed_sync": lambda: Guard(P).is_allowed_sync(*req),
            "HotReloader.check_and_reload": lambda: rloader.HotReloader(Guard(P), BlockingSrc()).check_and_reload(),
            "HotReloader.check_and_reload(force, async source)": lambda: rloader.HotReloader(Guard(P), AsyncSrc()).check_and_reload(force=True),
        }

        # collaborators that re-enter the engine: a role resolver / obligation checker that asks a SECOND Guard through the sync API
        def nested(kind):
            def f():
                inner = Guard({"algorithm": "deny-overrides", "rules": [{"id": "d", "effect": "permit", "actions": ["*"], "resource": {"type": "*"}}]})

                class SyncRes:
                    def expand(self, roles):
                        return ["delegate"] if inner.evaluate_sync(*req).allowed else []

                class AsyncRes:
                    async def expand(self, roles):
                        return ["delegate"] if inner.evaluate_sync(*req).allowed else []

                class AsyncRes2:
                    async def expand(self, roles):
                        return ["delegate"] if (await inner.evaluate_async(*req)).allowed else []
                res = {"sync": SyncRes, "async": AsyncRes, "async-await": AsyncRes2}[kind]()
                outer = Guard({"algorithm": "deny-overrides", "rules": [{"id": "r", "effect": "permit", "actions": ["read"], "resource": {"type": "doc"},
                                                                         "condition": {"contains": [{"attr": "subject.roles"}, "delegate"]}}]},
                              role_resolver=res)
                return outer.evaluate_sync(*req).allowed is True
            return f
        for kind in ("sync", "async", "async-await"):
            probes[f"Guard.evaluate_sync with a {kind} role resolver that evaluates on a second Guard"] = nested(kind)

        # a Guard WITH a decision cache used from several calling contexts at once (cache fills must not serialise callers on a
        # primitive that belongs to one event loop)
        def cached_two_threads():
            from rbacx.core.cache import DefaultInMemoryCache
            g = Guard(P_RULE, cache=DefaultInMemoryCache(64))
            start = threading.Barrier(3)
            out: list = []

            def one(k):
                start.wait(5)
                for j in range(20):
                    rq = real.make_request({"sid": f"u{k}", "roles": [], "sattrs": {}, "action": "read", "rtype": "doc", "rid": str(j % 3), "rattrs": {}, "ctx": {}})
                    out.append(g.evaluate_sync(*rq).allowed)
            ths = [threading.Thread(target=one, args=(k,), daemon=True) for k in range(2)]
            for t in ths:
                t.start()
            start.wait(5)
            for t in ths:
                t.join(WATCHDOG - 2)
            if any(t.is_alive() for t in ths):
                raise TimeoutError("two threads calling evaluate_sync on one cached Guard did not both finish")
            return len(out) == 40 and all(out)

        def cached_sync_inside_async():
            from rbacx.core.cache import DefaultInMemoryCache
            entered = threading.Event()

            class SlowRes:
                async def expand(self, roles):
                    entered.set()
                    await asyncio.sleep(0.05)
                    return list(roles)
            g = Guard(P_RULE, cache=DefaultInMemoryCache(64), role_resolver=SlowRes())

            async def main():
                t = asyncio.ensure_future(g.evaluate_async(*req))
                await asyncio.sleep(0)
                while not entered.is_set():
                    await asyncio.sleep(0.001)
                inner = g.evaluate_sync(*req).allowed          # the sync API from inside the running loop, while an async call is in flight
                return inner and (await t).allowed
            box: dict = {}

            def runner():                                      # its own thread and loop (this probe may itself be called from a running loop)
                try:
                    box["r"] = asyncio.run(asyncio.wait_for(main(), WATCHDOG - 2))
                except BaseException as e:  # noqa: BLE001
                    box["r"] = repr(e)
            th = threading.Thread(target=runner, daemon=True)
            th.start()
            th.join(WATCHDOG - 1)
            if th.is_alive():
                raise TimeoutError("evaluate_sync inside the loop while evaluate_async is in flight did not return")
            return box.get("r")
        probes["cached Guard: two threads × 20 evaluate_sync"] = cached_two_threads
        probes["cached Guard: evaluate_sync inside the loop while evaluate_async is in flight"] = cached_sync_inside_async

        def start_stop(initial, force, timeout, src_cls=BlockingSrc):
            def f():
                r = rloader.HotReloader(Guard(P), src_cls(), initial_load=initial, poll_interval=0.05)
                r.start(force_initial=force)
                time.sleep(0.08)
                r.stop(timeout=timeout)
                return r._thread is None or timeout is not None
            return f
        for initial in (False, True):
            for force in (False, True):
                for timeout in (1.0, None):
                    probes[f"HotReloader.start(initial_load={initial}, force_initial={force}) + stop(timeout={timeout})"] = start_stop(initial, force, timeout)
        probes["HotReloader.start(initial_load=True) + stop(None), async source"] = start_stop(True, False, None, AsyncSrc)

        def stop_mid_check():
            src = BlockingSrc()
            r = rloader.HotReloader(Guard(P), src, poll_interval=0.05)
            src.block = True
            r.start()
            src.inload.wait(WATCHDOG / 2)
            threading.Timer(0.3, src.gate.set).start()
            r.stop(timeout=None)
            return True
        probes["HotReloader.stop(timeout=None) with the poller mid-check"] = stop_mid_check

        def lock_free_after(calls: str):
            """after the API calls returned on this thread, another thread can still use the reloader (no acquire left unreleased on any exit:
            the dynamic counterpart of Rbacx.Translated.reloader_lock_released_on_every_exit)"""
            def f():
                r = rloader.HotReloader(Guard(P), BlockingSrc(), poll_interval=0.05)
                for c in calls.split(", "):
                    {"stop": lambda: r.stop(timeout=0.5), "start": r.start, "check": r.check_and_reload}[c]()
                box: dict = {}
                th = threading.Thread(target=lambda: box.setdefault("r", (r.check_and_reload(), r.last_etag)), daemon=True)
                th.start()
                th.join(WATCHDOG / 2)
                r.stop(timeout=0.5)
                if th.is_alive():
                    raise TimeoutError(f"after [{calls}] returned, check_and_reload on ANOTHER thread did not return (the reloader lock was left held)")
                return True
            return f
        def failing_source(exc_name: str):
            """the error paths of the check (the `except` clauses call _register_error, which takes the lock itself) return, twice in a row
            (the second check runs inside the suppression window), and leave the reloader usable from another thread"""
            def f():
                class FailingSrc:
                    def etag(self):
                        return None

                    def load(self):
                        raise {"FileNotFoundError": FileNotFoundError("gone"), "JSONDecodeError": json.JSONDecodeError("bad", "{", 0),
                               "RuntimeError": RuntimeError("boom")}[exc_name]
                r = rloader.HotReloader(Guard(P), FailingSrc(), poll_interval=0.05)
                first, second = r.check_and_reload(), r.check_and_reload(force=True)
                th = threading.Thread(target=r.check_and_reload, daemon=True)
                th.start()
                th.join(WATCHDOG / 2)
                if th.is_alive():
                    raise TimeoutError(f"after a check whose source raised {exc_name}, check_and_reload on another thread did not return")
                return (first, second) == (False, False)
            return f
        for exc_name in ("FileNotFoundError", "JSONDecodeError", "RuntimeError"):
            probes[f"HotReloader.check_and_reload with a source whose load() raises {exc_name}"] = failing_source(exc_name)
        for calls in ("stop", "check", "start, stop", "start, start, stop, stop", "stop, start, stop"):
            probes[f"HotReloader usable from another thread after [{calls}] returned"] = lock_free_after(calls)

        def stuck_source(where: str, action: str):
            """the poller is stuck inside the source (released only AFTER the entry point has returned): the entry point may
            not wait for it — the reloader lock must not be held across source calls"""
            def f():
                src = BlockingSrc()
                r = rloader.HotReloader(Guard(P), src, poll_interval=0.05)
                if where == "load":
                    src.block = True
                else:
                    src.block_etag = True
                r.start()
                try:
                    (src.inload if where == "load" else src.inetag).wait(WATCHDOG / 2)
                    if action == "stop":
                        r.stop(timeout=0.2)
                    elif action == "stop, then start":
                        r.stop(timeout=0.2)
                        r.start()
                    elif action == "stop twice, then check_and_reload":
                        r.stop(timeout=0.1)
                        r.stop(timeout=0.1)
                        src.block = src.block_etag = False
                        r.check_and_reload(force=True)
                    elif action == "diagnostics":
                        _ = (r.last_etag, r.last_error, r.suppressed_until) if hasattr(r, "last_etag") else None
                    else:
                        r.start()
                    return True
                finally:
                    src.gate.set()
                    r.stop(timeout=1.0)
            return f
        for where in ("load", "etag"):
            for action in ("stop", "diagnostics", "start", "stop, then start", "stop twice, then check_and_reload"):
                probes[f"HotReloader {action} while the poller is stuck inside source.{where}()"] = stuck_source(where, action)
        for name, fn in probes.items():
            ok, res = with_watchdog(fn, ctx)
            run.evaluations += 1
            run.count(f"entry:{ctx}:{'returned' if ok else 'HUNG'}")
            if not ok:
                run.spec_failures.append({"part": "blocking entry point", "entry": name, "context": ctx, "observed": res,
                                          "spec": "a blocking entry point did not return (deadlock)"})
            elif name.startswith(("Guard.evaluate_sync with a", "cached Guard")) and res is not True:
                run.spec_failures.append({"part": "blocking entry point", "entry": name, "context": ctx, "observed": res,
                                          "spec": "a nested evaluation through a collaborator returned another decision in this calling context"})
            elif isinstance(res, str) and res.startswith(("RuntimeError", "Timeout")):
                run.spec_failures.append({"part": "blocking entry point", "entry": name, "context": ctx, "observed": res,
                                          "spec": "a blocking entry point raised instead of returning"})


class _Scrubber:
    """overwrites, in place, every top-level subject / resource / context attribute and the role list of the env it is handed
    (what an in-place redaction of `subject.attrs.x` / `context.y` does); nested values are replaced, never mutated"""

    def log(self, payload):
        env = payload.get("env") or {}
        for path in (("subject", "attrs"), ("resource", "attrs"), ("context",)):
            m = env
            for seg in path:
                m = m.get(seg) if isinstance(m, dict) else None
            if isinstance(m, dict):
                for k in list(m):
                    m[k] = "***"
        roles = (env.get("subject") or {}).get("roles")
        if isinstance(roles, list):
            roles[:] = ["***"] * len(roles)
        for k in ("id",):
            if isinstance(env.get("subject"), dict):
                env["subject"][k] = "***"
            if isinstance(env.get("resource"), dict):
                env["resource"][k] = "***"


def flavours_and_mutation(run: lib.Run, audit: dict, widen: bool = False):
    quick = run.tier == "quick"
    cases = list(gc.enum_cases(True))[:: (6 if quick else 2)]
    cases += list(gc.random_cases(run.seed * 1409 + 14, 700 if quick else 7000, hostile=0.1, rel=0.3, nested=0.3))
    if widen:        # an obligation about the API flavours no longer checks: search further for inputs on which they differ
        cases += list(gc.random_cases(run.seed * 1409 + 15, 1400 if quick else 7000, hostile=0.1, rel=0.3, nested=0.3))
    # every case with a relationship checker also runs with a backend that FAILS on every lookup (sync: raises in the call; async: the
    # coroutine / awaitable raises when resolved): the flavours must still agree — a Decision in all of them
    twins = []
    for j, (pol, req, cfg) in enumerate(cases):
        if isinstance(cfg.get("rel"), dict) and (cfg["rel"].get("table") or cfg["rel"].get("default") is not None):
            twins.append((pol, req, {**cfg, "rel": {**cfg["rel"], "table": [], "default": None,
                                                    "raise_with": ["RuntimeError", "TimeoutError", "asyncio.TimeoutError", "OSError", "KeyError"][j % 5]}}))
    cases += twins
    for i, (pol, req, cfg) in enumerate(cases):
        cfg = {**cfg, "metrics": True, "logger": True}
        pol_before, req_before = proto.canon(pol), proto.canon(req)
        outs = {}
        for fl in FLAVOURS:
            outs[fl] = real.run_guard(pol, req, cfg, fl)
        run.count(gc.outcome_class(outs["sync"]))
        if isinstance(cfg.get("rel"), dict) and cfg["rel"].get("default") is None and not cfg["rel"].get("table"):
            run.count("rel-backend-fails-on-every-lookup")
        nontrivial = "ok" in outs["sync"] and outs["sync"]["ok"]["reason"] in ("matched", "explicit_deny", "obligation_failed")
        run.case([pol, req, cfg], nontrivial, {"policy": pol, "request": req, "cfg": cfg, "sync": outs["sync"]} if i % 200 == 0 else None)
        ref = json.dumps(outs["sync"], sort_keys=True)
        diff = [fl for fl in FLAVOURS if json.dumps(outs[fl], sort_keys=True) != ref]
        if diff:
            run.spec_failures.append({"part": "flavour equality", "policy": pol, "request": req, "cfg": cfg, "outcomes": outs, "differing": diff,
                                      "spec": "API flavours / sync vs async collaborators returned different decisions or events"})
        if i % 3 == 0:
            # a log sink that scrubs the payload it is handed IN PLACE (as DecisionLogger(redact_in_place=True) does): the env is the
            # engine's own object — the caller's subject / resource / context and the policy must stay untouched
            try:
                g = real.make_guard(pol, {k: v for k, v in cfg.items() if k not in ("logger", "metrics")}, [])
                g.logger_sink = _Scrubber()
                real.call_guard(g, req)
                real.call_guard(g, req, "async")
                run.count("scrubbing-sink")
            except Exception:  # noqa: BLE001
                pass
        if proto.canon(pol) != pol_before or proto.canon(req) != req_before:
            run.spec_failures.append({"part": "mutation", "policy": pol, "request": req, "policy_before": json.loads(pol_before),
                                      "spec": "evaluation mutated the policy or the request"})


def concurrency(run: lib.Run):
    """N concurrent evaluate_async on one engine and on several engines = the sequential results"""
    cases = list(gc.random_cases(run.seed * 1423 + 14, 60, rel=0.3, plain_cfg=False))
    guards, reqs, seq = [], [], []
    for pol, req, cfg in cases[:12]:
        ev: list = []
        try:
            g = real.make_guard(pol, cfg, ev, flavour="async-collab-async")
        except Exception:  # noqa: BLE001
            continue
        guards.append(g)
    if not guards:
        return
    for k, (pol, req, cfg) in enumerate(cases):
        reqs.append((guards[k % len(guards)], real.make_request(req)))
    for g, (s, a, r, c) in reqs:
        try:
            d = asyncio.run(g.evaluate_async(s, a, r, c))
            seq.append((d.allowed, d.effect, d.rule_id, d.reason))
        except Exception as e:  # noqa: BLE001
            seq.append(("raised", type(e).__name__))

    async def many():
        async def one(g, s, a, r, c):
            try:
                d = await g.evaluate_async(s, a, r, c)
                return (d.allowed, d.effect, d.rule_id, d.reason)
            except Exception as e:  # noqa: BLE001
                return ("raised", type(e).__name__)
        return await asyncio.gather(*[one(g, *args) for g, args in reqs])
    conc = asyncio.run(many())
    run.evaluations += len(reqs)
    run.count("concurrent-batch")
    if list(conc) != seq:
        idx = [i for i, (x, y) in enumerate(zip(conc, seq)) if x != y]
        run.spec_failures.append({"part": "non-interference", "differing_indices": idx[:10], "concurrent": [conc[i] for i in idx[:5]],
                                  "sequential": [seq[i] for i in idx[:5]], "spec": "concurrent evaluations affected each other"})


def ambient_context(run: lib.Run) -> None:
    """collaborators that read ambient state the CALLER set (a contextvars.ContextVar: tenant, request scope): the synchronous API, the
    asynchronous API and the synchronous API inside a running loop hand the collaborator the caller's CURRENT context — on the first call
    of a thread and on every later one, on the main thread and on a re-used pool thread"""
    import contextvars
    from concurrent.futures import ThreadPoolExecutor
    tenant: contextvars.ContextVar = contextvars.ContextVar("verif_c14_tenant", default="none")
    grants = {"acme": ["admin"], "globex": []}
    pol = {"algorithm": "deny-overrides", "rules": [{"id": "adm", "effect": "permit", "actions": ["read"], "resource": {"type": "doc"},
                                                      "condition": {"hasAny": [{"attr": "subject.roles"}, ["admin"]]}}]}

    class SyncRes:
        def expand(self, roles):
            return list(roles or []) + grants.get(tenant.get(), [])

    class AsyncRes:
        async def expand(self, roles):
            await asyncio.sleep(0)
            return list(roles or []) + grants.get(tenant.get(), [])
    s_, a_, r_, c_ = real.make_request({"sid": "u", "roles": [], "sattrs": {}, "action": "read", "rtype": "doc", "rid": "1", "rattrs": {}, "ctx": {}})

    def sequence(g, how):
        out = []
        for t in ("acme", "globex", "acme", "globex"):
            tenant.set(t)
            if how == "sync":
                d = g.evaluate_sync(s_, a_, r_, c_)
            elif how == "async":
                d = asyncio.run(g.evaluate_async(s_, a_, r_, c_))
            else:
                async def outer():
                    return g.evaluate_sync(s_, a_, r_, c_)
                d = asyncio.run(outer())
            out.append(bool(d.allowed))
        return out
    want = [True, False, True, False]
    for res_name, res in (("sync resolver", SyncRes), ("async resolver", AsyncRes)):
        for how in ("sync", "async", "sync-in-loop"):
            for where in ("main thread", "pool thread"):
                g = Guard(copy.deepcopy(pol), role_resolver=res())
                run.evaluations += 1
                run.count("ambient-context")
                try:
                    if where == "main thread":
                        got = contextvars.copy_context().run(sequence, g, how)
                    else:
                        with ThreadPoolExecutor(max_workers=1) as ex:
                            got = ex.submit(lambda: contextvars.copy_context().run(sequence, g, how)).result(timeout=WATCHDOG)
                except Exception as e:  # noqa: BLE001
                    got = f"{type(e).__name__}: {e}"
                # what is required: a collaborator sees the caller's CURRENT context or none at all (the variable's default; the sync API
                # inside a running loop evaluates on a helper thread that does not inherit the caller's context) — never the context of an
                # EARLIER call: that would make the decision depend on the history of the thread
                default_answer = bool(grants.get("none"))
                if isinstance(got, list) and all(x in (w, default_answer) for x, w in zip(got, want)) and len(got) == len(want):
                    run.count("ambient-context:" + ("current" if got == want else "no-caller-context"))
                    continue
                if got != want:
                    run.spec_failures.append({"part": "ambient context", "collaborator": res_name, "api": how, "where": where, "policy": pol,
                                              "tenants_in_order": ["acme", "globex", "acme", "globex"], "grants": grants, "allowed": got, "expected": want,
                                              "spec": "a collaborator saw the ambient context of an EARLIER call (neither the caller's current context nor none): the decision depends on the thread's history"})


def core_assembly_obligation(run: lib.Run, audit: dict) -> tuple[bool, str]:
    """run and register the per-run obligation C14_core_assembly (facts of the plugin extractors/src_translation_sinks.py); shared with C11
    ("exactly one audit record and one metric per evaluation" needs the sink block to be run exactly once per evaluation)"""
    asm = audit["facts"].get("translated_sinks")
    failed = None
    if not isinstance(asm, dict):
        failed = "no facts extracted"
    elif "extraction_failed" in asm:
        failed = asm["extraction_failed"]
    elif "failed" in asm.get("assembly", {}):
        failed = asm["assembly"]["failed"]
    ok_asm, detail_asm = lib.run_obligation("C14_core_assembly")
    run.obligation("C14_core_assembly: Guard._evaluate_core_async is exactly [start; engine_env range; cache protocol range; engine_gate range; sink "
                   "block] with no statement outside the designated ranges and no return before the sink block; no other place of the class reads the "
                   "sink objects; evaluate_async, evaluate_sync (both branches), is_allowed_sync, is_allowed_async each reach the core exactly once "
                   "with their four arguments unchanged and hand back its result (resp. `.allowed`) — for every behaviour of the core",
                   ok_asm, "discharged" if ok_asm else (str(failed) if failed else detail_asm))
    run.extra["core_assembly"] = asm.get("assembly") if isinstance(asm, dict) else asm
    return ok_asm, detail_asm


def static_locks_obligation(run: lib.Run, audit: dict) -> tuple[bool, str]:
    """run and register the per-run obligation C14_locks_static (facts of the plugin extractors/src_translation_locks.py): the reloader's lock
    discipline read statically over ALL control paths of the current source text"""
    f = audit["facts"].get("translated_locks")
    failed = None
    if not isinstance(f, dict):
        failed = "no facts extracted"
    elif "extraction_failed" in f:
        failed = f["extraction_failed"]
    elif f.get("unsupported"):
        failed = "outside the translated subset: " + "; ".join(f["unsupported"][:4])
    ok, detail = lib.run_obligation("C14_locks_static")
    if not ok and failed is None:
        import re as _re
        m = _re.search(r"C14_locks_static\.lean:(\d+):\d+: error", detail)
        if m:
            try:
                ln = open(f"{lib.LEAN}/Rbacx/Run/C14_locks_static.lean", encoding="utf-8").read().splitlines()[int(m.group(1)) - 1]
                failed = "does not check at: " + " ".join(ln.split())[:200]
            except Exception:  # noqa: BLE001
                pass
    run.obligation("C14_locks_static: every control path (any number of loop iterations, every branch, every exit incl. exceptions) of HotReloader.__init__ / "
                   "check_and_reload (+ helper function) / check_and_reload_async / _register_error / start / stop / _run_loop, read off the source text, "
                   "makes no blocking call (join, result, source.etag/load) while holding the lock, releases every acquire on every exit, never re-acquires a "
                   "non-re-entrant lock, waits only for higher-ranked threads (LockProg.safe by decide + soundness theorem) — hence deadlock freedom for "
                   "every schedule (reloader_deadlock_free); every traced program of this run is a path of the static programs",
                   ok, "discharged" if ok else (str(failed) if failed else detail))
    run.extra["static_locks"] = {k: f.get(k) for k in ("names", "lock", "reentrant", "unsupported", "helpers")} if isinstance(f, dict) and "extraction_failed" not in f else f
    return ok, (str(failed) + " | " if failed else "") + detail


def check(run: lib.Run, audit: dict) -> int:
    run.rule = ("deadlock: static lock programs of every method of HotReloader read off the source text (all control paths; obligation C14_locks_static) + per-run obligation over 5 traced scenarios (check / start+stop × plain / running loop × initial load) + every blocking "
                "entry point × {plain thread, running loop, worker thread} under a watchdog (36 probes per context incl. the reloader being usable from another thread after 5 API call sequences returned, a source whose load() raises (3 classes: the check's error paths),collaborators that re-enter a second Guard, async source, stop(None) "
                "with the poller mid-check, stop/start/diagnostics with the poller stuck inside source.load()/etag()); flavours: C01 template pool (subsampled) + random grammar cases × 7 flavours (sync / async API / sync inside a loop × sync, async-def and awaitable-returning collaborators) with recording sinks, "
                "policy/request canonical form compared before/after (every third case also with a log sink that scrubs its payload in place); one batch of 60 concurrent evaluate_async over 12 engines against the "
                "sequential results; collaborators reading a caller-set ContextVar over 4 calls with alternating values (3 APIs × sync/async resolver × main / pool "
                "thread: current or no caller context, never an earlier call's); an evaluation paused at every matcher/evaluator call of its decision "
                "function while another request is decided on a second thread. non-trivial = a rule decided")
    run.assumptions = ["flavour equality, non-interference and non-mutation are observed, not proved (PARTIAL)",
                       "threading.RLock is a correct re-entrant mutex; Future.result/Thread.join block until the thread finishes"]
    if not audit["ok"]:
        raise lib.CheckError(f"Lean build/audit failed at {audit['stage']}: {audit.get('log') or audit.get('forbidden') or audit.get('bad_axioms')}")
    progs = audit["facts"].get("reloader_programs")
    ok, detail = lib.run_obligation("C14_locks")
    run.obligation("C14_locks: LockFreeWhileBlocking on every traced reloader scenario", ok, detail if not ok else "discharged")
    run.extra["traced_scenarios"] = {k: v["progs"] for k, v in progs.items()} if isinstance(progs, dict) and "extraction_failed" not in progs else progs
    # "one core", read off the source text: the core method is the designated (translated) ranges in sequence with nothing in between, every
    # API flavour hands back the core's outcome on its own four arguments (resp. its `.allowed`), sinks are touched only in the sink block
    ok_asm, detail_asm = core_assembly_obligation(run, audit)
    # "no deadlock", read off the source text over ALL control paths (the traced scenarios above cover the paths that were run)
    ok_st, detail_st = static_locks_obligation(run, audit)
    blocking_entry_points(run)
    if any(f.get("observed") == "did not return within the watchdog" for f in run.spec_failures):
        # an entry point hung: its threads are still parked inside the engine (possibly holding a shared helper loop or a lock), so
        # further in-process evaluations could block for ever — the hang is the finding; report it now
        run.notes.append("an entry point did not return: flavour / mutation / concurrency parts skipped (process state is no longer trustworthy)")
    else:
        flavours_and_mutation(run, audit, widen=not ok_asm)
        concurrency(run)
        ambient_context(run)
        # one evaluation paused inside its decision while another request is decided on a second thread (shared with C09)
        from props import c09 as _c09
        before = len(run.spec_failures)
        _c09.inside_decision_probes(run)
        for f in run.spec_failures[before:]:
            f["spec"] = "concurrent evaluations affected each other: " + f["spec"]
    violations = []
    if run.spec_failures:
        path = run.write_replay("spec", {"what": "C14 violated", "case": run.spec_failures[0], "count": len(run.spec_failures)})
        violations.append((path, True))
    elif not ok:
        # broken obligation: the watchdog probes above are the search for a failing calling context; none hung
        path = run.write_replay("obligation", {"what": "per-run obligation Rbacx/Run/C14_locks.lean no longer checks (a thread waits for another while "
                                               "holding the lock, or the traced skeleton changed shape); theorem Rbacx.C14.c14_no_deadlock no longer "
                                               "applies", "traced": progs, "lean": detail})
        violations.append((path, False))
    elif not ok_st:
        # broken static obligation: the watchdog probes above (every blocking entry point × calling context, the poller mid-check / stuck in
        # the source) are the search for a schedule of the real code that hangs; none did
        path = run.write_replay("obligation", {"what": "per-run obligation Rbacx/Run/C14_locks_static.lean no longer checks: on some control path of the "
                                               "CURRENT source text of HotReloader a thread blocks (join / result / source call) while holding the lock, "
                                               "an acquire is not released on some exit, a plain Lock is re-acquired, the text left the translated subset, "
                                               "or a traced program is not a path of the static reading; theorem Rbacx.Translated.reloader_deadlock_free no "
                                               "longer applies; the watchdog probes found no hanging schedule on the real code",
                                               "static": run.extra.get("static_locks"), "lean": detail_st[-1800:]})
        violations.append((path, False))
    elif not ok_asm:
        # the flavour / mutation comparison above (widened) is the search for an input on which the API flavours differ; none found
        path = run.write_replay("obligation", {"what": "per-run obligation Rbacx/Run/C14_core_assembly.lean no longer checks: the source text of "
                                               "Guard._evaluate_core_async is no longer exactly the designated ranges in sequence, or a sink object is "
                                               "read outside the sink block, or an API flavour (evaluate_async / evaluate_sync / is_allowed_*) no "
                                               "longer hands back the core's outcome on its own arguments unchanged: `sync = async = in-loop sync` is "
                                               "no longer read off the source; the widened flavour comparison found no input on which they differ",
                                               "assembly": run.extra.get("core_assembly"), "lean": detail_asm[-1500:]})
        violations.append((path, False))
    code = run.finish(audit, violations)
    if any(f.get("observed") == "did not return within the watchdog" for f in run.spec_failures):
        # the hung entry point's threads are still there; a NON-daemon one (a ThreadPoolExecutor worker waiting for the reloader lock, as in
        # the pre-repair start()) would keep the interpreter from exiting after the verdict has been printed: leave now, with the verdict's code
        import os
        import sys
        sys.stdout.flush()
        sys.stderr.flush()
        os._exit(code)
    return code


def replay(run: lib.Run, audit: dict, path: str) -> int:
    c = json.load(open(path)).get("case") or {}
    print("recorded:", json.dumps(c, default=str)[:1500])
    if c.get("part") == "flavour equality":
        for fl in FLAVOURS:
            print(fl, real.run_guard(c["policy"], c["request"], c["cfg"], fl))
    return 0
