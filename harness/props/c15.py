"""C15 — built-in cache: linearizable LRU map with TTL and a hard capacity.

Tie between `rbacx.core.cache.DefaultInMemoryCache` (real code, in-process, `time.monotonic` injected as an
integer clock) and the Lean model `Rbacx.Cache.step`:

* sequential, exhaustive: every op sequence up to a depth over small alphabets (3 keys, capacities -1..3,
  ttl None/0/-1/2, clock ticks, "slow" sets whose clock advances inside the call), enumerated depth-first on both
  sides (`cache-tree`); compared: every result and `list(cache._data.keys())` after every call;
* sequential, random: seeded sequences up to length 300 with key pools > 128 (purge prefix) and clocks that land
  exactly on deadlines (`cache-ops`), the observation spec `Rbacx.Cache.traceOk` evaluated by Lean on the
  IMPLEMENTATION's observations (for tree nodes the implementation's observation equals the model's, on which
  the driver evaluates the same predicate);
* concurrent: 2–8 real threads on one real cache whose `_data` is an OrderedDict subclass asserting
  `cache._lock._is_owned()` on every access and logging the order in which calls took the lock; the sequential
  model replayed in that order must reproduce every result; plus black-box tiny histories checked for a
  linearisation by brute force (Wing–Gong over all orders respecting program and real-time order);
* per-run obligation `Rbacx/Run/C15_locked.lean` over the lock-discipline facts extracted from the source;
* tie by regeneration: the methods get/set/delete/clear/_purge_expired_unlocked are translated from the current source text into
  state-passing Lean functions (harness/pytolean_methods.py, plugin extractors/src_translation_cache.py), the per-run obligation
  `Rbacx/Run/C15_translated.lean` proves them equal to `Rbacx.Cache.step`, and the translation is evaluated against the real cache
  (`translated_vs_python`, `Rbacx/Run/SrcEvalCache.lean`)."""
from __future__ import annotations

import itertools
import json
import os
import random
import sys
import threading
import time as _time
from collections import OrderedDict

import lib
import proto
import real  # noqa: F401  (puts <repo>/src on sys.path)
from rbacx.core import cache as rcache

KEYS3 = ["k0", "k1", "k2"]
CORPUS = os.path.join(lib.VERIF, "corpus", "C15.json")


# ----------------------------------------------------------------------------- injected clock, instrumented dict


class Clock:
    """integer clock; `after` is the value it jumps to as soon as `set` has written its entry"""
    __slots__ = ("now", "after", "armed")

    def __init__(self) -> None:
        self.now = 0
        self.after = 0
        self.armed = False


class FakeTime:
    """stands in for the `time` module inside rbacx.core.cache"""

    def __init__(self, clock: Clock, tls: threading.local | None = None):
        self._c = clock
        self._tls = tls

    def monotonic(self):
        v = self._c.now
        if self._tls is not None:
            rec = getattr(self._tls, "rec", None)
            if rec is not None:
                rec["reads"].append(v)
        return v

    def __getattr__(self, name):  # anything else the module might use
        import time as _t
        return getattr(_t, name)


class HookedOD(OrderedDict):
    """the real OrderedDict, plus: the clock moves from now1 to now2 right after `set` wrote its entry"""
    clock: Clock | None = None

    def __setitem__(self, k, v):
        OrderedDict.__setitem__(self, k, v)
        c = self.clock
        if c is not None and c.armed:
            c.armed = False
            c.now = c.after


class patched_time:
    def __init__(self, fake):
        self.fake = fake

    def __enter__(self):
        self.old = rcache.time
        rcache.time = self.fake
        return self

    def __exit__(self, *a):
        rcache.time = self.old


def out_of_get(v):
    if v is None:
        return ["got", None]
    if isinstance(v, int) and not isinstance(v, bool):
        return ["got", v]
    return ["got", f"<{type(v).__name__}>"]


def apply_op(cache, clock: Clock, op: list, s=1):
    """run one explicit op on the real cache; returns the protocol rendering of its result.  `s`: every clock value and ttl is
    multiplied by it (s = 0.5: half-second clock and ttls 0.5, 1.5, … — exact in binary floating point, so the run must be
    step for step the one with s = 1)"""
    kind = op[0]
    try:
        if kind == "get":
            clock.now = op[2] * s
            return out_of_get(cache.get(op[1]))
        if kind == "set":
            clock.now, clock.after = op[4] * s, op[5] * s
            clock.armed = op[5] != op[4]
            try:
                r = cache.set(op[1], op[2], None if op[3] is None else op[3] * s)
            finally:
                clock.armed = False
                clock.now = op[5] * s
            return "done" if r is None else f"returned:{r!r}"
        if kind == "del":
            r = cache.delete(op[1])
            return "done" if r is None else f"returned:{r!r}"
        if kind == "clear":
            r = cache.clear()
            return "done" if r is None else f"returned:{r!r}"
    except KeyError:
        return "KeyError"
    except Exception as e:  # noqa: BLE001
        return f"raised:{type(e).__name__}"
    raise lib.CheckError(f"bad op {op!r}")


def run_impl(maxsize: int, ops: list, s=1) -> list:
    """observations [[out, keys], …] of the real cache on an explicit op sequence"""
    clock = Clock()
    with patched_time(FakeTime(clock)):
        cache = rcache.DefaultInMemoryCache(maxsize)
        d = HookedOD()
        d.clock = clock
        cache._data = d
        obs = []
        for op in ops:
            out = apply_op(cache, clock, op, s)
            obs.append([out, list(cache._data.keys())])
    return obs


def cmd_ops(maxsize: int, prefix, ops: list, observed: list | None = None) -> dict:
    c = {"cmd": "cache-ops", "maxsize": maxsize, "prefix": prefix, "ops": ops}
    if observed is not None:
        c["observed"] = observed
    return c


VISIBLE = {"capacity", "result", "loss"}   # clauses about what a client can see; "gain"/"order" are about _data only


def pick_bad(spec: dict) -> tuple[int, list]:
    """the observation to report: the first one violating a client-visible clause if there is one, else the first"""
    for i, cl in spec.get("bad") or []:
        if VISIBLE & set(cl):
            return i, cl
    return spec["first_bad"], spec["clauses"]


def well_formed(obs: list) -> bool:
    """can the observation be handed to the Lean spec at all (only protocol outcomes, string keys)"""
    for out, keys in obs:
        if not (out in ("done", "KeyError") or (isinstance(out, list) and (out[1] is None or isinstance(out[1], int)))):
            return False
        if not all(isinstance(k, str) for k in keys):
            return False
    return True


# ----------------------------------------------------------------------------- exhaustive trees


def alphabet(full: bool, nkeys: int = 3) -> list:
    a: list = []
    for j in range(nkeys):
        a.append(["get", j])
    for j in range(nkeys):
        for ttl in ([None, 0, -1, 2] if full else [None, 2]):
            a.append(["set", j, ttl, 0])
        if full:
            a.append(["set", j, 2, 2])      # slow set: the clock passes the new entry's deadline inside the call
            a.append(["set", j, None, 1])   # slow set without ttl: only the purge sees the later clock
    for j in range(nkeys):
        a.append(["del", j])
    a.append(["clear"])
    a.append(["tick", 1])
    if full:
        a.append(["tick", 2])
    return a


def tree_impl(maxsize: int, alpha: list, depth: int, canon: bool):
    """depth-first enumeration on the real cache; returns (tokens, nontrivial flags, counters)"""
    clock = Clock()
    nodes: list[str] = []
    nontriv: list[bool] = []
    hist = {"get_hit": 0, "get_miss": 0, "set": 0, "set_shrinks": 0, "KeyError": 0, "other": 0}
    cache = rcache.DefaultInMemoryCache(maxsize)

    def rec(items, now, used, pos, fuel):
        for t in alpha:
            kind = t[0]
            j = t[1] if kind in ("get", "set", "del") else None
            if j is not None and canon and j > used:
                continue
            used2 = max(used, j + 1) if j is not None else used
            if kind == "tick":
                nodes.append("t")
                nontriv.append(False)
                if fuel > 1:
                    rec(items, now + t[1], used2, pos + 1, fuel - 1)
                continue
            d = HookedOD(items)
            d.clock = clock
            cache._data = d
            clock.now = now
            clock.armed = False
            nt = False
            if kind == "get":
                try:
                    v = cache.get(KEYS3[j])
                    tok = "N" if v is None else f"v{v}"
                except Exception as e:  # noqa: BLE001
                    tok = f"X{type(e).__name__}"
                if tok[0] == "v":
                    hist["get_hit"] += 1
                    nt = True
                else:
                    hist["get_miss"] += 1
            elif kind == "set":
                if t[3]:
                    clock.after = now + t[3]
                    clock.armed = True
                try:
                    cache.set(KEYS3[j], pos, t[2])
                    tok = "-"
                    hist["set"] += 1
                except KeyError:
                    tok = "E"
                    hist["KeyError"] += 1
                except Exception as e:  # noqa: BLE001
                    tok = f"X{type(e).__name__}"
                clock.armed = False
                clock.now = now + t[3]
            elif kind == "del":
                try:
                    cache.delete(KEYS3[j])
                    tok = "-"
                except Exception as e:  # noqa: BLE001
                    tok = f"X{type(e).__name__}"
                hist["other"] += 1
            else:
                try:
                    cache.clear()
                    tok = "-"
                except Exception as e:  # noqa: BLE001
                    tok = f"X{type(e).__name__}"
                hist["other"] += 1
            d2 = cache._data
            keys = list(d2.keys())
            if kind == "set":
                before = len(items) + (0 if any(k == KEYS3[j] for k, _ in items) else 1)
                if len(keys) < before:
                    hist["set_shrinks"] += 1   # eviction or purge happened
                    nt = True
            nodes.append(tok + ";" + ",".join(map(str, keys)))
            nontriv.append(nt)
            if fuel > 1:
                rec(list(d2.items()), clock.now, used2, pos + 1, fuel - 1)

    with patched_time(FakeTime(clock)):
        rec([], 0, 0, 1, depth)
    return nodes, nontriv, hist


def paths_of_indices(alpha: list, depth: int, canon: bool, targets: set) -> dict:
    """template paths of the nodes with the given preorder indices (same enumeration order as tree_impl / cache-tree)"""
    counter = [0]
    found: dict = {}
    last = max(targets) if targets else -1

    def rec(path, used, fuel):
        for t in alpha:
            if counter[0] > last:
                return
            j = t[1] if t[0] in ("get", "set", "del") else None
            if j is not None and canon and j > used:
                continue
            used2 = max(used, j + 1) if j is not None else used
            idx = counter[0]
            counter[0] += 1
            if idx in targets:
                found[idx] = path + [t]
            if fuel > 1:
                rec(path + [t], used2, fuel - 1)

    rec([], 0, depth)
    return found


def path_of_index(alpha: list, depth: int, canon: bool, target: int) -> list:
    return paths_of_indices(alpha, depth, canon, {target})[target]


def explicit_ops(path: list) -> list:
    """templates → explicit ops with clock values (ticks folded in); value = 1-based position in the path"""
    now, ops = 0, []
    for pos, t in enumerate(path, 1):
        if t[0] == "tick":
            now += t[1]
        elif t[0] == "get":
            ops.append(["get", KEYS3[t[1]], now])
        elif t[0] == "set":
            ops.append(["set", KEYS3[t[1]], pos, t[2], now, now + t[3]])
            now += t[3]
        elif t[0] == "del":
            ops.append(["del", KEYS3[t[1]]])
        else:
            ops.append(["clear"])
    return ops


def tree_scopes(tier: str, wide: bool) -> list:
    """(label, alphabet, depth, canonical-keys?, capacities)"""
    if tier == "quick" and not wide:
        return [("full/d4", alphabet(True), 4, True, [-1, 0, 1, 2, 3]),
                ("core/d5", alphabet(False), 5, True, [1, 2, 3]),
                ("full/d3/all-keys", alphabet(True), 3, False, [-1, 0, 1, 2, 3])]
    if tier == "quick":          # widened search after a broken obligation / correspondence
        return [("full/d5", alphabet(True), 5, True, [2])]
    if wide:
        return [("core/d7", alphabet(False), 7, True, [2])]
    return [("full/d5", alphabet(True), 5, True, [-1, 0, 1, 2, 3]),
            ("core/d6", alphabet(False), 6, True, [1, 2, 3]),
            ("full/d3/all-keys", alphabet(True), 3, False, [-1, 0, 1, 2, 3])]


def run_trees(run: lib.Run, prefix, wide: bool = False) -> None:
    for label, alpha, depth, canon, caps in tree_scopes(run.tier, wide):
        for cap in caps:
            nodes, nontriv, hist = tree_impl(cap, alpha, depth, canon)
            ans = proto.run_driver([{"cmd": "cache-tree", "maxsize": cap, "prefix": prefix, "depth": depth,
                                     "canon": canon, "alphabet": alpha}])[0]
            model = ans["nodes"]
            if len(model) != len(nodes):
                raise lib.CheckError(f"tree enumeration out of step: impl {len(nodes)} nodes, model {len(model)} ({label}, cap {cap})")
            if ans["spec_failures"]:
                raise lib.CheckError(f"observation spec false on the MODEL's own trace ({label}, cap {cap}): contradicts c15_trace_ok")
            run.evaluations += len(nodes)
            for k, v in hist.items():
                run.count(f"tree:{k}", v)
            run.count("tree:sequences", len(nodes))
            tag = f"{label}/{cap}/"
            run.nontrivial.update(tag + str(i) for i, nt in enumerate(nontriv) if nt)
            bad = [i for i, (a, b) in enumerate(zip(nodes, model)) if a != b]
            if bad:
                run.count("tree:nodes-differing-from-model", len(bad))
            if bad and len(run.disagreements) + len(run.spec_failures) < 40:
                # keep only first divergences (a node whose ancestors all agree): later ones are consequences
                paths = paths_of_indices(alpha, depth, canon, set(bad[:300]))
                seen_paths: list = []
                for i in bad[:300]:
                    path = paths[i]
                    if any(path[:len(p)] == p for p in seen_paths):
                        continue
                    seen_paths.append(path)
                    note_divergence(run, prefix, cap, explicit_ops(path), f"tree {label} cap={cap} node#{i}")
                    if len(seen_paths) >= 4:
                        break
            if len(run.samples) < 1 and nodes:
                i = max(range(len(nodes)), key=lambda x: (nontriv[x], x % 9973))
                p = path_of_index(alpha, depth, canon, i)
                run.samples.append({"kind": "tree-node", "scope": label, "maxsize": cap, "ops": explicit_ops(p),
                                    "impl_last": nodes[i]})


def note_divergence(run: lib.Run, prefix, maxsize: int, ops: list, label: str) -> None:
    """model and implementation differ somewhere on `ops`: record, and ask the Lean spec about the implementation"""
    obs = run_impl(maxsize, ops)
    if well_formed(obs):
        ans = proto.run_driver([cmd_ops(maxsize, prefix, ops, obs)])[0]
        spec = ans["observed_spec"]
    else:
        ans = proto.run_driver([cmd_ops(maxsize, prefix, ops)])[0]
        spec = {"ok": False, "first_bad": next(i for i, o in enumerate(obs) if not well_formed([o])),
                "clauses": ["result"]}   # an exception / a foreign value where the spec admits none
    model = ans["model"]
    if obs != model:
        first = next(i for i, (a, b) in enumerate(zip(obs, model)) if a != b)
        run.disagreements.append({"label": label, "maxsize": maxsize, "prefix": prefix, "ops": ops, "impl": obs,
                                  "model": model, "first_difference_at_op": first})
    if not spec["ok"]:
        i, cl = pick_bad(spec)
        run.spec_failures.append({"label": label, "maxsize": maxsize, "prefix": prefix, "ops": ops[:i + 1], "impl": obs[:i + 1],
                                  "spec": {"ok": False, "first_bad": spec["first_bad"], "reported": i, "clauses": cl}})


# ----------------------------------------------------------------------------- random sequences


def gen_sequence(r: random.Random, big: bool) -> tuple[int, list]:
    if big:
        nkeys = r.choice([140, 180, 260])
        maxsize = r.choice([129, 135, 150, 200, 300])
        length = 300
        p_set = 0.8
    else:
        nkeys = r.choice([2, 3, 4, 6])
        maxsize = r.choice([-1, 0, 1, 1, 2, 2, 3, 4, 5])
        length = r.choice([10, 20, 40, 60])
        p_set = 0.45
    keys = [f"k{i}" for i in range(nkeys)]
    ttls = [None, None, 0, -1, 1, 2, 2, 3, 5] + ([40, 90] if big else [])
    now, ops = 0, []
    for i in range(1, length + 1):
        x = r.random()
        if r.random() < (0.15 if big else 0.35):
            now += r.choice([1, 1, 1, 2, 3] + ([30] if big and r.random() < 0.1 else []))
        if x < p_set:
            k = keys[i % nkeys] if big and r.random() < 0.7 else r.choice(keys)
            ttl = r.choice(ttls)
            delta = r.choice([1, 2, 5]) if r.random() < 0.12 else 0
            ops.append(["set", k, i, ttl, now, now + delta])
            now += delta
        elif x < p_set + (0.15 if big else 0.4):
            ops.append(["get", r.choice(keys), now])
        elif x < 0.97:
            ops.append(["del", r.choice(keys)])
        else:
            ops.append(["clear"])
    return maxsize, ops


def gen_prefix_sequence(r: random.Random) -> tuple[int, list]:
    """a dict that is filled beyond the purge prefix first (128 in the source: 128–150 entries, capacity above that), with deadlines on
    both sides of the prefix boundary, then short random traffic while the clock passes those deadlines: a reached deadline beyond the
    prefix survives a `set`, a `get` there removes it lazily, and a hit moves entries across the boundary"""
    n0 = r.choice([131, 150, 170, 200])
    maxsize = n0 + r.choice([-1, 0, 1, 5, 60])
    nkeys = n0 + 12
    keys = [f"k{i}" for i in range(nkeys)]
    now, ops = 0, []
    for i in range(n0):
        # long-lived entries fill most of the prefix (so the dict stays longer than it), short deadlines sit around and beyond its end
        ttl = r.choice([None, None, 60, 60, 4] if i < 124 and r.random() < 0.95 else [None, 2, 4, 4, 7])
        ops.append(["set", keys[i], i + 1, ttl, now, now])
    for i in range(n0 + 1, n0 + 1 + r.choice([30, 60])):
        if r.random() < 0.4:
            now += r.choice([1, 1, 2, 3])
        x = r.random()
        k = r.choice(keys) if r.random() < 0.5 else keys[r.choice([0, 1, 126, 127, 128, 129, n0 - 1, n0, nkeys - 1])]
        if x < 0.45:
            delta = r.choice([1, 3]) if r.random() < 0.15 else 0
            ops.append(["set", k, i, r.choice([None, 0, 1, 2, 5]), now, now + delta])
            now += delta
        elif x < 0.85:
            ops.append(["get", k, now])
        elif x < 0.99:
            ops.append(["del", k])
        else:
            ops.append(["clear"])
    return maxsize, ops


def classify(run: lib.Run, maxsize: int, ops: list, obs: list) -> bool:
    """outcome histogram of one sequence; returns whether it is non-trivial (a hit and a capacity/expiry loss)"""
    deadline: dict = {}
    prev: list = []
    hit = loss = False
    for op, (out, keys) in zip(ops, obs):
        if op[0] == "get":
            if isinstance(out, list) and out[1] is not None:
                run.count("get:hit")
                hit = True
            elif op[1] in deadline:
                dl = deadline[op[1]]
                if op[1] not in prev:
                    run.count("get:miss-after-eviction-or-purge")
                    loss = True
                elif dl is not None and dl <= op[2]:
                    run.count("get:miss-expired" + ("-exactly-at-deadline" if dl == op[2] else ""))
                    loss = True
                else:
                    run.count("get:miss-other")
            else:
                run.count("get:miss-never-set-or-deleted")
        elif op[0] == "set":
            deadline[op[1]] = op[4] + op[3] if (op[3] is not None and op[3] > 0) else None
            base = [k for k in prev if k != op[1]] + [op[1]]
            gone = [k for k in base if k not in keys]
            if out == "KeyError":
                run.count("set:KeyError")
            elif gone:
                exp = [k for k in gone if deadline.get(k) is not None and deadline[k] <= op[5]]
                run.count("set:purged", len(exp))
                run.count("set:evicted", len(gone) - len(exp))
                loss = True
            else:
                run.count("set:stored")
            if len(keys) > 128:
                run.count("set:dict>128")
        elif op[0] == "del":
            deadline.pop(op[1], None)
            run.count("delete")
        else:
            deadline.clear()
            run.count("clear")
        prev = keys
    return hit and loss


def run_sequences(run: lib.Run, prefix, seqs: list, label: str) -> None:
    """seqs: [(maxsize, ops)] → impl observations, model, Lean spec on the impl's observations"""
    batch, cmds = [], []
    for k, (maxsize, ops) in enumerate(seqs):
        for s in ((1, 0.5) if k % 3 == 0 and label != "corpus" else (1,)):
            obs = run_impl(maxsize, ops, s)
            batch.append((maxsize, ops, obs, s))
            cmds.append(cmd_ops(maxsize, prefix, ops, obs if well_formed(obs) else None))
    answers = proto.run_driver(cmds)
    base_label = label
    for n, ((maxsize, ops, obs, s), ans) in enumerate(zip(batch, answers)):
        label = base_label if s == 1 else base_label + "/clock-and-ttls-halved"
        if s != 1:
            run.count("seq:fractional-ttl")
        nontrivial = classify(run, maxsize, ops, obs)
        run.case([maxsize, ops], nontrivial, {"kind": label, "maxsize": maxsize, "ops": ops[:12], "n_ops": len(ops),
                                              "impl_first": obs[:12]} if nontrivial and len(run.samples) < 3 else None)
        if not ans["model_spec"]:
            raise lib.CheckError("observation spec false on the MODEL's own trace: contradicts c15_trace_ok")
        if obs != ans["model"]:
            first = next(i for i, (a, b) in enumerate(zip(obs, ans["model"])) if a != b)
            run.disagreements.append({"label": f"{label}#{n}", "maxsize": maxsize, "prefix": prefix, "ops": ops[:first + 1],
                                      "impl": obs[:first + 1], "model": ans["model"][:first + 1], "first_difference_at_op": first})
        spec = ans["observed_spec"]
        if spec is None:
            spec = {"ok": False, "first_bad": next(i for i, o in enumerate(obs) if not well_formed([o])), "clauses": ["result"]}
        if not spec["ok"]:
            i, cl = pick_bad(spec)
            run.spec_failures.append({"label": f"{label}#{n}", "maxsize": maxsize, "prefix": prefix, "ops": ops[:i + 1],
                                      "impl": obs[:i + 1],
                                      "spec": {"ok": False, "first_bad": spec["first_bad"], "reported": i, "clauses": cl}})


def run_random(run: lib.Run, prefix, scale: int = 1) -> None:
    r = random.Random(run.seed * 1000003 + 15)
    quick = run.tier == "quick"
    small = [gen_sequence(r, False) for _ in range((1500 if quick else 6000) * scale)]
    big = [gen_sequence(r, True) for _ in range((30 if quick else 120) * scale)]
    beyond = [gen_prefix_sequence(r) for _ in range((6 if quick else 40) * scale)]
    run_sequences(run, prefix, small, "random-small")
    run_sequences(run, prefix, big, "random-big")
    run_sequences(run, prefix, beyond, "random-beyond-purge-prefix")


def run_corpus(run: lib.Run, prefix) -> None:
    if not os.path.exists(CORPUS):
        return
    cases = json.load(open(CORPUS))["cases"]
    run_sequences(run, prefix, [(c["maxsize"], c["ops"]) for c in cases], "corpus")


# ----------------------------------------------------------------------------- concurrency


class LockCheckOD(OrderedDict):
    """`_data` of the cache under test: every access checks that the calling thread owns `cache._lock`
    and the first access of each call logs the call (= the order in which calls took the lock)."""
    ctx = None

    def _chk(self, name):
        ctx = self.ctx
        if ctx is None:
            return
        rec = getattr(ctx.tls, "rec", None)
        if rec is None:
            return
        try:
            owned = ctx.cache._lock._is_owned()
        except Exception:  # noqa: BLE001
            owned = False
        if not owned:
            ctx.unlocked.append({"thread": rec["tid"], "call": [str(x) if isinstance(x, str) else x for x in rec["op"]], "access": name})
        if not rec["logged"]:
            rec["logged"] = True
            ctx.order.append(rec)


def _wrap(name):
    base = getattr(OrderedDict, name)

    def f(self, *a, **kw):
        self._chk(name)
        return base(self, *a, **kw)
    f.__name__ = name
    return f


for _n in ("__getitem__", "__setitem__", "__delitem__", "__contains__", "__len__", "__iter__", "__reversed__", "get", "pop",
           "popitem", "move_to_end", "clear", "items", "keys", "values", "setdefault", "update", "copy"):
    setattr(LockCheckOD, _n, _wrap(_n))


class YKey(str):
    """a str key whose hashing gives up the GIL: every dict access inside the cache becomes a point where
    another thread may run, so critical sections really are contended (no sleeping, just a yield)"""
    __slots__ = ()

    def __hash__(self):
        _time.sleep(0)
        return str.__hash__(self)

    __eq__ = str.__eq__


class ConcCtx:
    def __init__(self, maxsize: int, instrument: bool):
        self.tls = threading.local()
        self.clock = Clock()
        self.order: list = []
        self.unlocked: list = []
        self.seq = itertools.count()
        self.cache = rcache.DefaultInMemoryCache(maxsize)
        if instrument:
            d = LockCheckOD()
            d.ctx = self
            self.cache._data = d


def gen_thread_ops(r: random.Random, n: int, keys: list) -> list:
    ops = []
    for _ in range(n):
        x = r.random()
        k = r.choice(keys)
        if x < 0.4:
            ops.append(("set", k, r.choice([None, None, 0, -1, 1, 2, 3])))
        elif x < 0.75:
            ops.append(("get", k))
        elif x < 0.87:
            ops.append(("del", k))
        elif x < 0.9:
            ops.append(("clear",))
        else:
            ops.append(("tick",))
    return ops


def run_threads(ctx: ConcCtx, plans: list) -> list:
    """plans: per thread a list of abstract ops; returns all call records"""
    recs: list = []
    barrier = threading.Barrier(len(plans))
    uid = itertools.count(1)
    errors: list = []

    def body(tid, plan):
        mine = []
        try:
            barrier.wait()
            for op in plan:
                if op[0] == "tick":
                    ctx.clock.now += 1
                    continue
                rec = {"tid": tid, "op": list(op), "reads": [], "logged": False, "val": None}
                if op[0] == "set":
                    rec["val"] = next(uid)
                rec["inv"] = next(ctx.seq)
                ctx.tls.rec = rec
                try:
                    if op[0] == "get":
                        rec["out"] = out_of_get(ctx.cache.get(op[1]))
                    elif op[0] == "set":
                        ctx.cache.set(op[1], rec["val"], op[2])
                        rec["out"] = "done"
                    elif op[0] == "del":
                        ctx.cache.delete(op[1])
                        rec["out"] = "done"
                    else:
                        ctx.cache.clear()
                        rec["out"] = "done"
                except KeyError:
                    rec["out"] = "KeyError"
                except Exception as e:  # noqa: BLE001
                    rec["out"] = f"raised:{type(e).__name__}"
                finally:
                    ctx.tls.rec = None
                rec["res"] = next(ctx.seq)
                mine.append(rec)
                if len(plan) > 10:
                    _time.sleep(0)      # long runs: hand the GIL over between calls so that the lock changes hands
        except Exception as e:  # noqa: BLE001
            errors.append(repr(e))
        recs.extend(mine)

    ths = [threading.Thread(target=body, args=(i, p), daemon=True) for i, p in enumerate(plans)]
    for t in ths:
        t.start()
    for t in ths:
        t.join(120)
        if t.is_alive():
            raise lib.CheckError("cache worker thread did not finish (deadlock?)")
    if errors:
        raise lib.CheckError(f"worker error: {errors[0]}")
    return recs


def rec_to_op(rec: dict) -> list:
    """the explicit model op of a recorded call, with the clock values the call actually read"""
    op, reads = rec["op"], rec["reads"]
    op = [str(x) if isinstance(x, str) else x for x in op]
    if op[0] == "get":
        return ["get", op[1], reads[0] if reads else 0]
    if op[0] == "set":
        if not reads:
            n1 = n2 = 0
        elif len(reads) == 1:
            n1 = n2 = reads[0]
        else:
            n1, n2 = reads[0], reads[-1]
        return ["set", op[1], rec["val"], op[2], n1, n2]
    if op[0] == "del":
        return ["del", op[1]]
    return ["clear"]


def strip(rec: dict) -> dict:
    return {"thread": rec["tid"], "op": rec_to_op(rec), "out": rec["out"], "invoke": rec["inv"], "response": rec["res"]}


def run_hammer(run: lib.Run, prefix, r: random.Random, scale: int) -> None:
    """2–8 threads on one instrumented cache; sequential replay in lock-acquisition order"""
    quick = run.tier == "quick"
    rounds = (3 if quick else 8) * scale
    n_ops = 150 if quick else 400
    jobs = []
    for nthreads in range(2, 9):
        for _ in range(rounds):
            maxsize = r.choice([0, 1, 2, 3, 5, -1])
            keys = [YKey(f"k{i}") for i in range(r.choice([2, 4, 6]))]
            ctx = ConcCtx(maxsize, instrument=True)
            plans = [gen_thread_ops(r, n_ops, keys) for _ in range(nthreads)]
            with patched_time(FakeTime(ctx.clock, ctx.tls)):
                recs = run_threads(ctx, plans)
            final_keys = [str(k) for k in OrderedDict.keys(ctx.cache._data)]
            jobs.append((nthreads, maxsize, ctx, recs, final_keys))
    cmds = [cmd_ops(maxsize, prefix, [rec_to_op(x) for x in ctx.order]) for _, maxsize, ctx, _, _ in jobs]
    answers = proto.run_driver(cmds)
    for (nthreads, maxsize, ctx, recs, final_keys), ans in zip(jobs, answers):
        run.count(f"conc:hammer-threads={nthreads}")
        run.count("conc:calls", len(recs))
        overlapped = sum(1 for a, b in zip(ctx.order, ctx.order[1:]) if a["tid"] != b["tid"])
        run.count("conc:thread-switches-in-lock-order", overlapped)
        run.case(["hammer", nthreads, maxsize, [x["inv"] for x in ctx.order][:50]], overlapped > 0,
                 {"kind": "hammer", "threads": nthreads, "maxsize": maxsize, "lock_order_head": [strip(x) for x in ctx.order[:8]]}
                 if len(run.samples) < 3 else None)
        if ctx.unlocked:
            run.extra.setdefault("unlocked_accesses", []).extend(ctx.unlocked[:5])
            run.count("conc:access-without-lock", len(ctx.unlocked))
        problem = None
        if len(ctx.order) != len(recs):
            problem = "a call made no access to _data (not in the lock order)"
        else:
            # real-time order must be respected by the lock order: nobody later in lock order returned before
            # an earlier one was invoked
            min_res_after = None
            for x in reversed(ctx.order):
                if min_res_after is not None and min_res_after < x["inv"]:
                    problem = "lock order contradicts real-time order"
                    break
                min_res_after = x["res"] if min_res_after is None else min(min_res_after, x["res"])
            if not problem:
                outs = [x["out"] for x in ctx.order]
                model = ans["model"]
                for i, (o, m) in enumerate(zip(outs, model)):
                    if o != m[0]:
                        problem = f"result of call #{i} in lock order differs from the sequential model"
                        break
                if not problem and model and model[-1][1] != final_keys:
                    problem = "final key order differs from the sequential model"
                if not problem and not model and final_keys:
                    problem = "final key order differs from the sequential model"
        if problem:
            run.disagreements.append({"label": f"concurrent hammer threads={nthreads}", "what": problem, "maxsize": maxsize,
                                      "prefix": prefix, "lock_order": [strip(x) for x in ctx.order[:200]],
                                      "model": ans["model"][:200], "final_keys": final_keys,
                                      "unlocked": ctx.unlocked[:5]})


def linearisations(recs: list):
    """all total orders of the calls that respect real-time order (hence program order)"""
    n = len(recs)
    before = [[a for a in range(n) if recs[a]["res"] < recs[b]["inv"]] for b in range(n)]

    def rec(done: tuple, left: frozenset):
        if not left:
            yield done
            return
        for b in sorted(left):
            if all(a not in left for a in before[b]):
                yield from rec(done + (b,), left - {b})
    yield from rec((), frozenset(range(n)))


def run_tiny(run: lib.Run, prefix, r: random.Random, scale: int, instrument: bool = False) -> None:
    """black-box tiny concurrent histories, brute-force linearisability against the model"""
    quick = run.tier == "quick"
    n_hist = (300 if quick else 2000) * scale
    hists = []
    for _ in range(n_hist):
        nthreads = r.choice([2, 2, 3, 3, 4])
        per = 3 if nthreads == 2 else 2
        maxsize = r.choice([0, 1, 1, 2, 2])
        keys = [YKey(k) for k in ["k0", "k1", "k2"][:r.choice([1, 2, 3])]]
        ctx = ConcCtx(maxsize, instrument=instrument)
        plans = []
        for _t in range(nthreads):
            p = [op for op in gen_thread_ops(r, per + 1, keys) if op[0] != "tick"][:per]
            plans.append(p)
        with patched_time(FakeTime(ctx.clock, ctx.tls)):
            recs = run_threads(ctx, plans)
        if recs:
            hists.append((maxsize, recs))
    cmds, index = [], []
    for h, (maxsize, recs) in enumerate(hists):
        for order in linearisations(recs):
            cmds.append(cmd_ops(maxsize, prefix, [rec_to_op(recs[i]) for i in order]))
            index.append((h, order))
    answers = proto.run_driver(cmds)
    ok = [False] * len(hists)
    n_orders = [0] * len(hists)
    for (h, order), ans in zip(index, answers):
        n_orders[h] += 1
        if ok[h]:
            continue
        recs = hists[h][1]
        if all(recs[i]["out"] == m[0] for i, m in zip(order, ans["model"])):
            ok[h] = True
    for h, (maxsize, recs) in enumerate(hists):
        run.count("conc:tiny-histories")
        run.count("conc:tiny-candidate-orders", n_orders[h])
        concurrent = n_orders[h] > 1
        run.case(["tiny", maxsize, [strip(x) for x in recs]], concurrent, None)
        if not ok[h]:
            run.spec_failures.append({"label": "concurrent history without a linearisation", "maxsize": maxsize, "prefix": prefix,
                                      "history": [strip(x) for x in sorted(recs, key=lambda x: x["inv"])],
                                      "orders_tried": n_orders[h], "concurrent": True})


def run_concurrent(run: lib.Run, prefix, scale: int = 1) -> None:
    r = random.Random(run.seed * 7907 + 151)
    old = sys.getswitchinterval()
    sys.setswitchinterval(1e-5)
    try:
        run_hammer(run, prefix, r, scale)
        run_tiny(run, prefix, r, scale)
    finally:
        sys.setswitchinterval(old)


# ----------------------------------------------------------------------------- the translated methods vs the real cache


class SiteTime:
    """stands in for the `time` module inside rbacx.core.cache and notes WHERE each reading was taken: (source line of the call site,
    value) — the translated methods take one clock parameter per call site"""

    def __init__(self, clock: Clock):
        self._c = clock
        self.reads: list = []

    def monotonic(self):
        v = self._c.now
        self.reads.append((sys._getframe(1).f_lineno, v))
        return v

    def __getattr__(self, name):
        import time as _t
        return getattr(_t, name)


_METHOD = {"get": "get", "set": "set", "del": "delete", "clear": "clear"}


def _exact(x):
    """a clock value / deadline as the exact integer it is (the injected clock is integral, so `now + float(ttl)` is)"""
    if isinstance(x, float) and x == int(x):
        return int(x)
    return x


def _entries(cache) -> list:
    import dataclasses
    return [[k, [_exact(getattr(e, f.name)) for f in dataclasses.fields(e)]] for k, e in OrderedDict.items(cache._data)]


def drive_real(maxsize: int, ops: list, sites: dict) -> tuple[list, list, list]:
    """the real cache on explicit ops from the empty dict → (calls for the evaluator, expected [out, entries] per call, complaints)"""
    clock = Clock()
    ft = SiteTime(clock)
    calls, want, odd = [], [], []
    with patched_time(ft):
        cache = rcache.DefaultInMemoryCache(maxsize)
        d = HookedOD()
        d.clock = clock
        cache._data = d
        for op in ops:
            ft.reads = []
            out = apply_op(cache, clock, op)
            m = _METHOD[op[0]]
            args = {"get": op[1:2], "set": op[1:4], "del": op[1:2], "clear": []}[op[0]]
            nows = []
            by_line: dict = {}
            for ln, v in ft.reads:
                by_line.setdefault(ln, []).append(v)
            known = {s["line"] for s in sites[m]}
            for s_ in sites[m]:
                vs = by_line.get(s_["line"], [])
                if len(vs) > 1:
                    odd.append(f"{m}: the call site at line {s_['line']} was read {len(vs)} times in one call")
                nows.append(_exact(vs[0]) if vs else 0)
            if set(by_line) - known:
                odd.append(f"{m}: time.monotonic() was read at line(s) {sorted(set(by_line) - known)}, not a call site of the translation")
            calls.append({"m": m, "nows": nows, "args": [proto.enc(a) for a in args]})
            if out == "done":
                res = ["ret", None]
            elif isinstance(out, list):
                res = ["ret", out[1]]
            elif out == "KeyError":
                res = ["raised", "KeyError"]
            else:
                res = ["raised", str(out).split(":", 1)[-1]]
            want.append([res, _entries(cache)])
    return calls, want, odd


def short_paths(depth: int) -> list:
    """every template path of exactly this depth over the full alphabet, keys up to renaming (as the op trees)"""
    alpha = alphabet(True)
    out: list = []

    def rec(path, used, fuel):
        for t in alpha:
            j = t[1] if t[0] in ("get", "set", "del") else None
            if j is not None and j > used:
                continue
            used2 = max(used, j + 1) if j is not None else used
            if fuel > 1:
                rec(path + [t], used2, fuel - 1)
            else:
                out.append(path + [t])
    rec([], 0, depth)
    return out


def translated_vs_python(run: lib.Run, tr: dict, prefix) -> tuple[bool, str]:
    """the translated methods (Generated.Src.cache_*, evaluated by `lake env lean --run Rbacx/Run/SrcEvalCache.lean`) against the real
    `DefaultInMemoryCache` on the same call sequences: result, key order and entries (value, deadline) after every call; every call
    site of `time.monotonic()` is handed the value the real call read there.  Validates the translator (harness/pytolean_methods.py) and
    Model/PyOrdDict.lean, the two things the obligation C15_translated trusts."""
    import subprocess
    sites = tr["sites"]
    quick = run.tier == "quick"
    r = random.Random(run.seed * 9176 + 1515)
    seqs: list = []
    paths3 = short_paths(3)
    for cap in (-1, 0, 1, 2, 3):
        # depth 3 exhaustively for the capacities at which three calls can fill the dict and overflow it; a seeded third elsewhere
        chosen = paths3 if cap in (1, 2) or not quick else r.sample(paths3, len(paths3) // 3)
        seqs.extend((cap, explicit_ops(p)) for p in chosen)
    seqs.extend(gen_sequence(r, False) for _ in range((400 if quick else 4000) * run.boost))
    seqs.extend(gen_sequence(r, True) for _ in range((4 if quick else 30) * run.boost))
    seqs.extend(gen_prefix_sequence(r) for _ in range((12 if quick else 80) * run.boost))
    lines, wants, odd = [], [], []
    for maxsize, ops in seqs:
        calls, want, o = drive_real(maxsize, ops, sites)
        odd.extend(o)
        lines.append(json.dumps({"maxsize": maxsize, "state": [], "calls": calls}))
        wants.append(want)
    p = subprocess.run(["lake", "env", "lean", "--run", "Rbacx/Run/SrcEvalCache.lean"], cwd=lib.LEAN, input="\n".join(lines) + "\n",
                       capture_output=True, text=True, timeout=900)
    outs = [ln for ln in p.stdout.split("\n") if ln]
    if p.returncode != 0 or len(outs) != len(lines):
        return False, "SrcEvalCache: " + (p.stderr or p.stdout)[-800:]
    bad = n_calls = 0
    for (maxsize, ops), want, ln in zip(seqs, wants, outs):
        got = json.loads(ln)
        steps = got.get("steps")
        first = None
        if steps is None or len(steps) != len(want):
            first = 0
        for i, (w, st) in enumerate(zip(want, steps or [])):
            n_calls += 1
            run.count("translated-cache")
            g = [[st["out"][0], proto.dec(st["out"][1]) if st["out"][0] == "ret" else st["out"][1]],
                 [[k, [proto.dec(x) for x in vs]] for k, vs in st["state"]]]
            kind = ops[i][0] + (":" + ("KeyError" if w[0][0] == "raised" else "hit" if ops[i][0] == "get" and w[0][1] is not None else "-"))
            run.count(f"translated-cache: {kind}")
            if len(w[1]) > 128:
                run.count("translated-cache: dict>128")
            if ops[i][0] == "set" and prefix is not None and any(e[1][-1] is not None and e[1][-1] <= ops[i][5] for e in w[1][prefix:]):
                run.count("translated-cache: a reached deadline beyond the purge prefix survives the set")
            if g != w and first is None:
                first = i
        if first is not None:
            bad += 1
            if bad == 1:
                run.disagreements.append({"part": "translated source vs python", "maxsize": maxsize, "calls": ops[:first + 1],
                                          "impl": {"python": want[first]}, "model": (steps or [got])[first] if (steps or [got])[first:] else got,
                                          "what": "the translated cache methods (Generated.Src.cache_*) and the real DefaultInMemoryCache "
                                                  f"differ at call #{first} of this sequence (result / key order / entries)"})
    run.evaluations += n_calls
    if odd:
        run.disagreements.append({"part": "translated source vs python", "what": "clock readings do not fit the call sites: " + odd[0],
                                  "count": len(odd)})
        return False, odd[0]
    return bad == 0, (f"{bad} of {len(seqs)} call sequences differ" if bad else f"agree on {n_calls} calls in {len(seqs)} sequences")


# ----------------------------------------------------------------------------- verdict


def spec_verdict(maxsize: int, prefix, ops: list, s=1) -> dict:
    obs = run_impl(maxsize, ops, s)
    if not well_formed(obs):
        i = next(i for i, o in enumerate(obs) if not well_formed([o]))
        return {"ok": False, "first_bad": i, "clauses": ["result"], "bad": [[i, ["result"]]]}
    return proto.run_driver([cmd_ops(maxsize, prefix, ops, obs)])[0]["observed_spec"]


def shrink(case: dict) -> dict:
    """drop ops while the implementation still violates the spec (a client-visible clause, if it did to begin with)"""
    if "ops" not in case:
        return case
    visible = bool(VISIBLE & set(case["spec"]["clauses"]))
    s = 0.5 if "halved" in str(case.get("label", "")) else 1

    def fails(xs):
        if not xs:
            return False
        v = spec_verdict(case["maxsize"], case["prefix"], xs, s)
        if v["ok"]:
            return False
        return bool(VISIBLE & set(pick_bad(v)[1])) if visible else True
    ops = lib.shrink_list(case["ops"], fails, budget=150)
    v = spec_verdict(case["maxsize"], case["prefix"], ops, s)
    i, cl = pick_bad(v)
    ops = ops[:i + 1]
    obs = run_impl(case["maxsize"], ops, s)
    model = proto.run_driver([cmd_ops(case["maxsize"], case["prefix"], ops)])[0]["model"]
    return {**case, "ops": ops, "impl": obs, "model": model,
            "spec": {"ok": False, "first_bad": v["first_bad"], "reported": i, "clauses": cl}}


def check(run: lib.Run, audit: dict) -> int:
    run.rule = ("sequential exhaustive: every op sequence (get/set/delete/clear/tick; 3 keys up to renaming; ttl None,0,-1,2; sets whose "
                "clock advances inside the call) of length ≤4 over the full alphabet for capacities -1..3 and ≤5 over the core alphabet "
                "(ttl None/2, tick 1) for capacities 1..3 (thorough: ≤5 / ≤6), plus length ≤3 without key symmetry; every tree node is "
                "one sequence, compared on (result, key order of _data) of its last call. random: seeded sequences of length ≤60 over "
                "2–6 keys and of length 300 over 140–260 keys with capacities 129–300 (dict > 128 entries: purge prefix). concurrent: "
                "2–8 threads × 150/400 calls on an instrumented cache, replayed sequentially in lock order; tiny histories (2–4 threads) "
                "checked against every order respecting real time. non-trivial = tree node whose last call is a get hit or a set that "
                "evicts/purges; random sequence with both a hit and an eviction/expiry; concurrent history in which threads actually overlapped. "
                "translated source vs the real cache: every call sequence of length 3 over the full alphabet (capacities 1, 2; a seeded third "
                "of them for -1, 0, 3; thorough: all), seeded sequences of length ≤60 and 300, and dicts filled beyond the purge prefix "
                "(131–200 entries with deadlines on both sides of entry 128), compared on result, key order and (value, deadline) of every "
                "entry after every call")
    run.exhaustive = True
    run.assumptions = [
        "integer clock injected for time.monotonic (so now + float(ttl) is exact); ttl is None or an int; keys are str; values are ints",
        "clock readings are non-decreasing along every generated history (as time.monotonic guarantees); only c15_get_latest needs it",
        "cannot exhibit: that threading.RLock is a correct mutex and that `with` releases it (trusted; c15_atomic_ops assumes it)",
        "a call's accesses to _data are what the AST of cache.py shows (harness/extract.py); dynamic attribute tricks are out of scope",
        "translated methods (C15_translated): keys are str, ttl is None or an int, clock readings are integers passed in call-site order; "
        "for set the state is a dict (no key twice); Python's get result does not tell a stored None from a miss",
    ]
    if not audit["ok"]:
        raise lib.CheckError(f"Lean build/audit failed at {audit['stage']}: {audit.get('log') or audit.get('forbidden') or audit.get('bad_axioms')}")
    facts = audit["facts"]["cache"]
    prefix = facts["purge_prefix"]
    locked, detail = lib.run_obligation("C15_locked")
    run.obligation("C15_locked", locked, "" if locked else detail)
    run.extra["purge_prefix_extracted"] = {"value": prefix, "note": facts["purge_prefix_note"]}
    # the cache as it is written NOW, translated into state-passing Lean, is proved equal to the model's step (per-run obligation)
    tr = audit["facts"].get("translated_cache")
    untranslatable = not isinstance(tr, dict) or "extraction_failed" in tr
    ok_tr, detail_tr = lib.run_obligation("C15_translated")
    run.obligation("C15_translated: Generated.Src.cache_get / cache_set / cache_delete / cache_clear (the current source text of "
                   "DefaultInMemoryCache, state-passing, clock readings as parameters in call-site order) = Rbacx.Cache.step on encoded "
                   "states, for every capacity, dict, key, value, ttl (None or int) and clock readings", ok_tr,
                   "discharged" if ok_tr else (str((tr or {}).get("extraction_failed")) if untranslatable else detail_tr))
    if untranslatable:
        ok_py, detail_py = True, "skipped: the cache methods are not in the translatable subset (see C15_translated)"
    else:
        ok_py, detail_py = translated_vs_python(run, tr, prefix)
        run.extra["translated_cache_clock_sites"] = tr["sites"]
    run.obligation("translated cache methods evaluate like the real DefaultInMemoryCache (translator + Model/PyOrdDict.lean vs CPython)",
                   ok_py, detail_py)
    tr_dis = [d for d in run.disagreements if d.get("part") == "translated source vs python"]
    run.disagreements = [d for d in run.disagreements if d.get("part") != "translated source vs python"]   # below: model vs implementation

    run_corpus(run, prefix)
    run_trees(run, prefix)
    run_random(run, prefix)
    run_concurrent(run, prefix)

    widened = False
    if (run.disagreements or not locked or not ok_tr or run.extra.get("unlocked_accesses")) and not run.spec_failures:
        # a proof obligation or the correspondence broke: widen the search for an input on which the property fails
        widened = True
        if any("ops" in d for d in run.disagreements) or not ok_tr:
            run_trees(run, prefix, wide=True)
            run_random(run, prefix, scale=5)
        run_concurrent(run, prefix, scale=4)
    run.extra["search_widened"] = widened

    violations = []
    if run.spec_failures:
        seq = [c for c in run.spec_failures if "ops" in c]
        first = min(seq, key=lambda c: (not (VISIBLE & set(c["spec"]["clauses"])), len(c["ops"])), default=run.spec_failures[0])
        c = shrink(first)
        path = run.write_replay("spec", {
            "what": ("the implementation's observed behaviour contradicts the C15 observation spec Rbacx.Cache.traceOk "
                     "(clauses: capacity / result / loss / gain / order)" if "ops" in c else
                     "a concurrent history of the real cache has no linearisation accepted by the model"),
            "case": c, "more": len(run.spec_failures) - 1})
        violations.append((path, True))
    elif run.disagreements:
        path = run.write_replay("correspondence", {
            "what": "model (Rbacx.Cache.step) and implementation disagree on (result, key order of _data); theorems Rbacx.C15.* "
                    "no longer speak about this code; no input was found on which the implementation violates the observation spec",
            "first": run.disagreements[0], "count": len(run.disagreements)})
        violations.append((path, False))
    elif not locked or run.extra.get("unlocked_accesses"):
        path = run.write_replay("obligation", {
            "what": "per-run obligation Rbacx/Run/C15_locked.lean (AllUnderLock Generated.cacheMethods) is not discharged: "
                    "c15_atomic_ops no longer applies to this code; no non-linearisable history was found",
            "obligation_discharged": locked, "lean_output": detail[-1500:],
            "extracted_methods": facts["methods"], "accesses_outside_lock_static":
                [a for accs in facts["detail"].values() for a in accs if not a["under_lock"]],
            "accesses_outside_lock_observed": run.extra.get("unlocked_accesses", [])})
        violations.append((path, False))
    elif not ok_tr:
        path = run.write_replay("obligation", {
            "what": "per-run obligation Rbacx/Run/C15_translated.lean no longer checks: the translated source of DefaultInMemoryCache's "
                    "methods is not proved equal to the model's Rbacx.Cache.step, the function theorems Rbacx.C15.* are about; the "
                    "widened search found no op sequence on which the implementation differs from the model or violates the "
                    "observation spec",
            "translation": (tr if untranslatable else {k: tr[k] for k in ("sites", "params", "purge_prefix", "entry_fields")}),
            "lean": detail_tr[-1500:], "translated_vs_python": detail_py})
        violations.append((path, False))
    elif tr_dis or not ok_py:
        first = tr_dis[0] if tr_dis else {"part": "translated source vs python", "what": detail_py}
        path = run.write_replay("correspondence", {
            "what": "translated source vs python: " + str(first.get("what")) + "; the obligation C15_translated rests on a translation "
                    "that CPython contradicts (or that could not be evaluated)",
            "first": first, "count": len(tr_dis)})
        violations.append((path, False))
    run.disagreements = run.disagreements + tr_dis
    return run.finish(audit, violations)


def replay(run: lib.Run, audit: dict, path: str) -> int:
    rp = json.load(open(path))
    c = rp.get("case") or rp.get("first") or {}
    if "ops" not in c:
        print(json.dumps(rp, indent=1)[:4000])
        return 0
    prefix = audit["facts"]["cache"]["purge_prefix"] if audit.get("facts") else c.get("prefix")
    s = 0.5 if "halved" in str(c.get("label", "")) else 1
    obs = run_impl(c["maxsize"], c["ops"], s)
    ans = proto.run_driver([cmd_ops(c["maxsize"], prefix, c["ops"], obs if well_formed(obs) else None)])[0]
    print(f"maxsize={c['maxsize']} purge_prefix={prefix}" + (" (implementation run with every clock value and ttl multiplied by 0.5)" if s != 1 else ""))
    for i, (op, o, m) in enumerate(zip(c["ops"], obs, ans["model"])):
        print(f"  #{i} {op}: impl={o} model={m}" + ("   <-- differs" if o != m else ""))
    print("spec on the implementation's observations:", ans["observed_spec"])
    bad = obs != ans["model"] or not (ans["observed_spec"] or {"ok": False})["ok"]
    return 1 if bad else 0
