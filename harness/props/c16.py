"""C16 — the file policy source reports what is on disk; `atomic_write` is all-or-nothing.

Tie (DESIGN §5 C16):
* the step list of the real `atomic_write` is traced on every run (harness/extract.py → Generated.lean);
  obligation `Rbacx/Run/C16_shape.lean` says it has the shape the theorems quantify over;
* fault injection at *every* traced step of the real function – exception by wrapping (also after a
  partial `f.write`, also by provoking the real errors: unencodable data, unknown encoding, missing
  directory), crash by `os._exit` in a forked child and by SIGKILL in a child interpreter – then
  (outcome, target content, temp files left, bystander file) compared with the model's run of the traced
  program under the same fault, and `Spec.atomicOk` evaluated by the driver on the implementation's result;
* a reader at every instant of a write (a `load()`/`etag()` between every two steps), and a reader thread
  looping `load()` against a writer thread alternating two documents;
* every history of writes / touches / deletes / `etag()` / `load()` up to a length bound + seeded random
  long ones, exact mtimes by `os.utime(ns=…)`, both `include_mtime_in_etag` modes, `.json/.yaml/.yml/.YML`:
  tags compared with the model's symbolic tags (sha256 computed by the harness), `load()` with an
  independent parse of the bytes on disk, `Spec.etagsOk` evaluated on the implementation's tags.
"""
from __future__ import annotations

import hashlib
import itertools
import json
import os
import random
import subprocess
import sys
import tempfile
import threading

import awtrace
import fstranslated
import lib
import proto
import real  # noqa: F401  (puts the repo under test on sys.path)

BASE_NS = 1_700_000_000 * 10 ** 9
TARGET = {".json": "policy.json", ".yaml": "policy.yaml", ".yml": "policy.yml", ".YML": "POLICY.YML",
          # a JSON file below a directory whose NAME carries a YAML marker: the format is chosen by the file's extension alone
          ".json/yamldir": "rbacx.yaml.d/policy.json"}

OLD_DOC = '{"algorithm": "deny-overrides", "rules": [{"id": "old", "effect": "deny", "actions": ["*"], "resource": {"type": "*"}}]}'
NEW_DOC = '{"algorithm": "permit-overrides", "rules": [{"id": "new", "effect": "permit", "actions": ["read"], "resource": {"type": "doc"}}, {"id": "n2", "effect": "deny", "actions": ["write"], "resource": {"type": "doc"}}]}'
UTF8_DOC = '{"rules": [], "note": "café ✓"}'
OLD_YAML = "algorithm: deny-overrides\nrules:\n  - id: old\n    effect: deny\n    actions: ['*']\n    resource: {type: '*'}\n"
NEW_YAML = "algorithm: first-applicable\nrules:\n  - id: new\n    effect: permit\n    actions: [read]\n    resource: {type: doc}\n"


def b(text: str, encoding: str = "utf-8") -> list[int]:
    return list(text.encode(encoding))


def parse_independent(fmt: str, data: bytes):
    """what `load()` must return for these bytes: decode + json.loads / yaml.safe_load (None → {}, mapping only)"""
    try:
        text = data.decode("utf-8")
        if fmt == "json":
            return ["ok", json.loads(text)]
        import yaml
        v = yaml.safe_load(text)
        if v is None:
            return ["ok", {}]
        if not isinstance(v, dict):
            return ["raised"]
        return ["ok", v]
    except Exception:  # noqa: BLE001
        return ["raised"]


# ============================================================================= atomic_write under faults


def fault_cases(run: lib.Run, program: list[dict], wide: bool):
    """(label, scenario, fault, mechanism, natural) for every step of the traced program"""
    n = len(program)
    thorough = run.tier == "thorough" or wide
    scenarios = [("json-replace", ".json", OLD_DOC, NEW_DOC), ("json-create", ".json", None, NEW_DOC),
                 ("yaml-replace", ".yaml", OLD_YAML, NEW_YAML)]
    if thorough:
        scenarios += [("yml-create", ".YML", None, NEW_YAML), ("json-shrink", ".json", NEW_DOC, "{}"),
                      ("json-same", ".json", OLD_DOC, OLD_DOC)]
    for name, ext, old, new in scenarios:
        sc = {"name": name, "ext": ext, "old": old, "new": new, "encoding": "utf-8"}
        yield f"{name}/none", sc, None, "inproc", None
        for i in range(n):
            ks = [0]
            if program[i].get("op") == "write":
                ks = [0, 1, len(new) // 2, len(new)]
            for k in ks:
                for exc in (("OSError", "KeyboardInterrupt", "MemoryError") if (thorough or name == "json-replace") else ("OSError",)):
                    yield f"{name}/raise@{i}+{k}/{exc}", sc, awtrace.Fault("raise", i, k, exc), "inproc", None
        for i in range(n + 1):
            ks = [0]
            if i < n and program[i].get("op") == "write":
                ks = [0, len(new) // 2]
            for k in ks:
                yield f"{name}/exit@{i}+{k}", sc, awtrace.Fault("exit", i, k), "fork", None
                if thorough or (name == "json-replace" and k == 0):
                    yield f"{name}/kill@{i}+{k}", sc, awtrace.Fault("kill", i, k), "subprocess", None
    # the real errors, provoked rather than injected
    yield "natural/unencodable", {"name": "unencodable", "ext": ".json", "old": OLD_DOC, "new": UTF8_DOC, "encoding": "ascii"}, \
        None, "inproc", "write"
    yield "natural/unknown-encoding", {"name": "unknown-encoding", "ext": ".json", "old": OLD_DOC, "new": NEW_DOC,
                                       "encoding": "no-such-codec"}, None, "inproc", "fdopen"
    yield "natural/missing-dir", {"name": "missing-dir", "ext": ".json", "old": None, "new": NEW_DOC, "encoding": "utf-8",
                                  "subdir": "absent"}, None, "inproc", "mkstemp"
    yield "natural/utf8", {"name": "utf8", "ext": ".yaml", "old": OLD_YAML, "new": UTF8_DOC, "encoding": "utf-8"}, \
        None, "inproc", None


def _fork_write(mod, path: str, sc: dict, fault: awtrace.Fault) -> dict:
    sys.stdout.flush()
    sys.stderr.flush()
    r, w = os.pipe()
    pid = os.fork()
    if pid == 0:  # child: one write, report, leave without running any handler of the parent
        code = 3
        try:
            os.close(r)
            res = awtrace.run_write(mod, path, sc["new"], fault, sc["encoding"])
            os.write(w, json.dumps({"outcome": res["outcome"], "exc": res["exc"]}).encode())
            code = 0
        finally:
            os._exit(code)
    os.close(w)
    chunks = []
    while True:
        c = os.read(r, 65536)
        if not c:
            break
        chunks.append(c)
    os.close(r)
    _, status = os.waitpid(pid, 0)
    if os.WIFSIGNALED(status) or os.WEXITSTATUS(status) == 9:
        return {"outcome": "crashed", "exc": None}
    if os.WEXITSTATUS(status) != 0:
        raise lib.CheckError(f"forked writer failed with status {status}")
    return json.loads(b"".join(chunks).decode())


def _subprocess_write(path: str, sc: dict, fault: awtrace.Fault) -> dict:
    arg = json.dumps({"path": path, "data": sc["new"], "fault": fault.to_json(), "encoding": sc["encoding"], "repo": real.REPO})
    env = dict(os.environ, PYTHONDONTWRITEBYTECODE="1")
    p = subprocess.run([sys.executable, os.path.join(os.path.dirname(awtrace.__file__), "awtrace.py"), "child", arg],
                       capture_output=True, text=True, timeout=120, env=env)
    if p.returncode in (-9, 9):
        return {"outcome": "crashed", "exc": None}
    if p.returncode != 0:
        raise lib.CheckError(f"child writer failed rc={p.returncode}: {p.stderr[-500:]}")
    return json.loads(p.stdout)


def run_fault_case(mod, sc: dict, fault, mech: str) -> dict:
    """perform the write in a fresh directory; observe what is left"""
    with tempfile.TemporaryDirectory(prefix="rbacx-verif-c16-") as d:
        tname = TARGET[sc["ext"]]
        base = os.path.join(d, sc["subdir"]) if sc.get("subdir") else d
        path = os.path.join(base, tname)
        with open(os.path.join(d, "bystander"), "wb") as f:
            f.write(b"b")
        if sc["old"] is not None:
            with open(path, "wb") as f:
                f.write(sc["old"].encode("utf-8"))
        if mech == "inproc":
            res = awtrace.run_write(mod, path, sc["new"], fault, sc["encoding"])
        elif mech == "fork":
            res = _fork_write(mod, path, sc, fault)
        else:
            res = _subprocess_write(path, sc, fault)
        listing = sorted(os.listdir(base)) if os.path.isdir(base) else []
        target = list(open(path, "rb").read()) if os.path.exists(path) else None
        byst = open(os.path.join(d, "bystander"), "rb").read() == b"b" and (base != d or "bystander" in listing)
        temps = [x for x in listing if x not in (tname, "bystander")]
        return {"outcome": res["outcome"], "exc": res.get("exc"), "target": target, "temps_left": len(temps),
                "listing": listing, "bystander_ok": byst, "fired": res.get("fired")}


def model_fault(program: list[dict], fault, natural):
    if natural is not None:
        idx = next((i for i, s in enumerate(program) if s.get("op") == natural), None)
        return {"kind": "none"} if idx is None else {"kind": "raise", "n": idx, "k": 0}
    if fault is None:
        return {"kind": "none"}
    return {"kind": "raise" if fault.kind == "raise" else "crash", "n": fault.n, "k": fault.k}


def aw_cmd(program: list[dict], sc: dict, mfault: dict, impl: dict | None) -> dict:
    try:
        data = b(sc["new"], sc["encoding"])
    except (UnicodeEncodeError, LookupError):
        data = b(sc["new"])
    cmd = {"cmd": "atomic-write", "program": program, "old": None if sc["old"] is None else b(sc["old"]),
           "data": [data], "fault": mfault}
    if impl is not None:
        cmd["impl"] = {"outcome": impl["outcome"], "target": impl["target"], "temps_left": impl["temps_left"]}
    return cmd


def check_faults(run: lib.Run, mod, program: list[dict], wide: bool = False) -> None:
    batch, cmds = [], []
    for label, sc, fault, mech, natural in fault_cases(run, program, wide):
        impl = run_fault_case(mod, sc, fault, mech)
        mf = model_fault(program, fault, natural if sc["name"] != "utf8" else None)
        batch.append((label, sc, fault, mech, impl, mf))
        cmds.append(aw_cmd(program, sc, mf, impl))
    for (label, sc, fault, mech, impl, mf), ans in zip(batch, proto.run_driver(cmds)):
        cls = f"write:{mech}:{impl['outcome']}:" + ("new" if impl["target"] == ans["new"] else "old" if impl["target"] == (None if sc["old"] is None else b(sc["old"])) else "OTHER") \
            + (":temp-left" if impl["temps_left"] else "")
        run.count(cls)
        show = {**impl, "target": None if impl["target"] is None else bytes(impl["target"]).decode("utf-8", "replace")}
        txt = lambda t: None if t is None else bytes(t).decode("utf-8", "replace")  # noqa: E731
        at = program[mf["n"]] if mf["kind"] != "none" and mf["n"] < len(program) else None
        case = {"label": label, "scenario": sc, "fault": None if fault is None else fault.to_json(), "mechanism": mech,
                "model_fault": mf, "faulted_step": at, "impl": show}
        run.case(["aw", label], mf["kind"] != "none", case if mf["kind"] != "none" else None)
        run.extra["fault_points"] = run.extra.get("fault_points", 0) + (1 if mf["kind"] != "none" else 0)
        proj_i = (impl["outcome"], impl["target"], impl["temps_left"] > 0, impl["bystander_ok"])
        proj_m = (ans["outcome"], ans["target"], ans["temp_left"], ans["bystander_ok"])
        if ans["spec_impl"] is False or not impl["bystander_ok"]:
            run.spec_failures.append({**case, "what": "atomic_write left the target neither complete old nor complete new, "
                                      "or a temp file after an exception, or touched another file (Spec.atomicOk)",
                                      "model": {"outcome": ans["outcome"], "target": txt(ans["target"]), "temp_left": ans["temp_left"]}})
        elif proj_i != proj_m:
            run.disagreements.append({**case, "model": {"outcome": ans["outcome"], "target": txt(ans["target"]),
                                                        "temp_left": ans["temp_left"], "bystander_ok": ans["bystander_ok"]}})


# ============================================================================= a reader at every instant


def check_instants(run: lib.Run, mod) -> None:
    """`load()` and `etag()` between every two steps of a write (deterministic interleaving)"""
    for ext, old, new in ((".json", OLD_DOC, NEW_DOC), (".YML", OLD_YAML, NEW_YAML)):
        fmt = "json" if ext == ".json" else "yaml"
        for mt in (False, True):
            with tempfile.TemporaryDirectory(prefix="rbacx-verif-c16-") as d:
                path = os.path.join(d, TARGET[ext])
                with open(path, "wb") as f:
                    f.write(old.encode())
                src = mod.FilePolicySource(path, include_mtime_in_etag=mt)
                docs = [parse_independent(fmt, old.encode()), parse_independent(fmt, new.encode())]
                seen = []

                def reader(idx, src=src, seen=seen):
                    try:
                        got = ["ok", src.load()]
                    except Exception as e:  # noqa: BLE001
                        got = ["raised", type(e).__name__]
                    seen.append((idx, got, src.etag()))

                res = awtrace.run_write(mod, path, new, None, "utf-8", on_step=reader)
                reader(len(res["steps"]))
                run.count("instant-reads", len(seen))
                run.case(["instants", ext, mt], True)
                run.extra["instant_reads"] = run.extra.get("instant_reads", 0) + len(seen)
                # every read is one of the two complete documents; the tag is a function of the document read, a different
                # one for each (no assumption on the tag's format); the last read is the new document
                bad = [(i, got, tag) for i, got, tag in seen if got not in docs or tag is None]
                tags = [{tag for _, got, tag in seen if got == doc} for doc in docs]
                if bad or any(len(t) > 1 for t in tags) or (tags[0] & tags[1]) or seen[-1][1] != docs[1] or seen[0][1] != docs[0]:
                    run.spec_failures.append({"label": f"instants{ext}", "what": "a reader between two steps of atomic_write saw something "
                                              "that is neither the complete old nor the complete new document (or a tag that does not go with it)",
                                              "ext": ext, "include_mtime": mt, "old": old, "new": new, "bad": bad[:3],
                                              "reads": [(i, docs.index(g) if g in docs else str(g)[:60], t) for i, g, t in seen], "kind": "instants"})


# ============================================================================= reader thread vs writer thread


def check_concurrent(run: lib.Run, mod) -> None:
    writes = 300 if run.tier == "quick" else 3000
    for ext in (".json", ".yaml"):
        fmt = "json" if ext == ".json" else "yaml"
        rules = [{"id": f"r{i}", "effect": "permit", "actions": ["read"], "resource": {"type": "doc"}} for i in range(400)]
        a = json.dumps({"algorithm": "deny-overrides", "rules": rules})
        bdoc = json.dumps({"algorithm": "permit-overrides", "rules": rules[:150]})
        docs = [parse_independent(fmt, a.encode())[1], parse_independent(fmt, bdoc.encode())[1]]
        with tempfile.TemporaryDirectory(prefix="rbacx-verif-c16-") as d:
            path = os.path.join(d, TARGET[ext])
            mod.atomic_write(path, a)
            src = mod.FilePolicySource(path)
            done = threading.Event()
            bad: list = []
            loads = [0]
            werr: list = []

            def writer():
                try:
                    for i in range(writes):
                        mod.atomic_write(path, bdoc if i % 2 == 0 else a)
                except BaseException as e:  # noqa: BLE001
                    werr.append(repr(e))
                finally:
                    done.set()

            def reader():
                while True:
                    last = done.is_set()
                    try:
                        got = src.load()
                        if got != docs[0] and got != docs[1]:
                            bad.append(["partial", str(got)[:80]])
                    except Exception as e:  # noqa: BLE001
                        bad.append(["raised", type(e).__name__])
                    loads[0] += 1
                    if last:
                        return

            tw, tr_ = threading.Thread(target=writer), threading.Thread(target=reader)
            tr_.start()
            tw.start()
            tw.join(600)
            tr_.join(600)
            if werr or tw.is_alive() or tr_.is_alive():
                raise lib.CheckError(f"concurrent writer/reader did not finish: {werr}")
            left = [x for x in os.listdir(d) if x != TARGET[ext]]
            run.count("concurrent-loads", loads[0])
            run.case(["concurrent", ext], True)
            run.extra["concurrent_loads"] = run.extra.get("concurrent_loads", 0) + loads[0]
            if bad or left:
                run.spec_failures.append({"label": f"concurrent{ext}", "kind": "concurrent", "ext": ext, "writes": writes,
                                          "what": "a reader thread loading during atomic writes saw a document that is neither of the two "
                                          "complete ones (or temp files were left)", "bad": bad[:3], "bad_count": len(bad), "left": left})


# ============================================================================= a writer in the middle of an observation


def check_midcall(run: lib.Run, mod) -> None:
    """the file is replaced WHILE etag() runs — before/after each of its file-system accesses (stat, open, every read, close).
    Whatever that call returns, the observations AFTER it see unchanged content that differs from the old one in size and mtime:
    they must report the tag a brand-new source computes for the disk as it is (and so differ from the old content's tag)."""
    import builtins
    import types
    for ext in (".json", ".yaml"):
        for mt in (False, True):
            with tempfile.TemporaryDirectory(prefix="rbacx-verif-c16-") as d:
                path = os.path.join(d, TARGET[ext])
                old, new = (OLD_DOC, NEW_DOC) if ext == ".json" else (OLD_YAML, NEW_YAML)

                def put(text, ns):
                    with builtins.open(path, "wb") as f:
                        f.write(text.encode())
                    os.utime(path, ns=(BASE_NS + ns, BASE_NS + ns))

                # count the accesses of one etag() on a fresh source
                def traced(src, fire_at, when):
                    n = [0]

                    def point(kind):
                        def pre():
                            n[0] += 1
                            if when == "before" and n[0] == fire_at:
                                put(new, 7)

                        def post():
                            if when == "after" and n[0] == fire_at:
                                put(new, 7)
                        return pre, post

                    class F:
                        def __init__(self, f):
                            self._f = f

                        def read(self, *a):
                            pre, post = point("read")
                            pre()
                            r = self._f.read(*a)
                            post()
                            return r

                        def __enter__(self):
                            return self

                        def __exit__(self, *a):
                            pre, post = point("close")
                            pre()
                            self._f.close()
                            post()
                            return False

                        def __getattr__(self, k):
                            return getattr(self._f, k)

                        def __iter__(self):
                            return iter(self._f)

                    def h_open(*a, **k):
                        pre, post = point("open")
                        pre()
                        f = builtins.open(*a, **k)
                        post()
                        return F(f)

                    def h_stat(*a, **k):
                        pre, post = point("stat")
                        pre()
                        r = os.stat(*a, **k)
                        post()
                        return r
                    saved_os, had_open = mod.os, "open" in vars(mod)
                    saved_open = vars(mod).get("open")
                    ns = types.SimpleNamespace(**{k: getattr(os, k) for k in dir(os) if not k.startswith("__")})
                    ns.stat = h_stat
                    ns.path = os.path
                    mod.os, mod.open = ns, h_open
                    try:
                        try:
                            first = src.etag()
                        except Exception as e:  # noqa: BLE001
                            first = f"<raised {type(e).__name__}>"
                    finally:
                        mod.os = saved_os
                        if had_open:
                            mod.open = saved_open
                        else:
                            del mod.open
                    return first, n[0]

                put(old, 1)
                _, total = traced(mod.FilePolicySource(path, include_mtime_in_etag=mt), -1, "before")
                old_tag = mod.FilePolicySource(path, include_mtime_in_etag=mt).etag()
                for warm in (False, True):
                    for k in range(1, total + 1):
                        for when in ("before", "after"):
                            put(old, 1)
                            src = mod.FilePolicySource(path, include_mtime_in_etag=mt)
                            if warm:
                                src.etag()
                                os.utime(path, ns=(BASE_NS + 2, BASE_NS + 2))     # make the warm source hash again
                            first, _ = traced(src, k, when)
                            later = [src.etag(), src.etag()]
                            fresh = mod.FilePolicySource(path, include_mtime_in_etag=mt).etag()
                            run.evaluations += 1
                            run.count("midcall")
                            run.nontrivial.add(f"midcall{ext}{mt}{warm}{k}{when}")
                            if later[0] != fresh or later[1] != fresh or fresh == old_tag:
                                run.spec_failures.append({"label": f"midcall{ext}", "kind": "midcall", "ext": ext, "include_mtime": mt,
                                                          "warm_cache": warm, "write_at_access": k, "when": when, "accesses_of_etag": total,
                                                          "what": "the file was replaced (other size, other mtime) while etag() was running; the observations "
                                                                  "made afterwards do not report the tag of what is on disk",
                                                          "during": first, "afterwards": later, "fresh_source": fresh, "old_tag": old_tag})


def check_overlap(run: lib.Run, mod) -> None:
    """TWO callers on ONE source: caller A is stopped before/after each file-system access of its etag(); while it is stopped the file is
    replaced (other content, size and mtime) and caller B makes a complete etag() call on the same source object — its call STARTS
    after the replacement has finished and nothing changes the file afterwards, so it is an observation of the new content: it must
    report the tag a brand-new source computes (and so differ from the old content's tag), whatever A is in the middle of.  If B cannot
    finish while A is stopped (it waits for A: a lock), A is resumed first — B's call still started after the replacement.  The
    observations after both calls are judged like check_midcall's.  Only thread A passes through the hooks."""
    import builtins
    import types
    ext = ".json"
    for mt in (False, True):
        with tempfile.TemporaryDirectory(prefix="rbacx-verif-c16-") as d:
            path = os.path.join(d, TARGET[ext])

            def put(text, ns):
                with builtins.open(path, "wb") as f:
                    f.write(text.encode())
                os.utime(path, ns=(BASE_NS + ns, BASE_NS + ns))

            def overlapped(src, stop_at, when):
                """→ (A's result, B's result or None when A never reached the stop, number of accesses of A, B had to wait for A)"""
                n = [0]
                paused, resume = threading.Event(), threading.Event()
                a_thread: list = []

                def mine():
                    return a_thread and threading.current_thread() is a_thread[0]

                def stop():
                    paused.set()
                    resume.wait(20)

                def pre():
                    if mine():
                        n[0] += 1
                        if when == "before" and n[0] == stop_at:
                            stop()

                def post():
                    if mine() and when == "after" and n[0] == stop_at:
                        stop()

                class F:
                    def __init__(self, f):
                        self._f = f

                    def read(self, *a):
                        pre()
                        r = self._f.read(*a)
                        post()
                        return r

                    def __enter__(self):
                        return self

                    def __exit__(self, *a):
                        pre()
                        self._f.close()
                        post()
                        return False

                    def __getattr__(self, k):
                        return getattr(self._f, k)

                    def __iter__(self):
                        return iter(self._f)

                def h_open(*a, **k):
                    pre()
                    f = builtins.open(*a, **k)
                    post()
                    return F(f)

                def h_stat(*a, **k):
                    pre()
                    r = os.stat(*a, **k)
                    post()
                    return r
                saved_os, had_open = mod.os, "open" in vars(mod)
                saved_open = vars(mod).get("open")
                ns = types.SimpleNamespace(**{k: getattr(os, k) for k in dir(os) if not k.startswith("__")})
                ns.stat = h_stat
                ns.path = os.path
                mod.os, mod.open = ns, h_open
                res: dict = {}

                def call(who):
                    try:
                        res[who] = src.etag()
                    except Exception as e:  # noqa: BLE001
                        res[who] = f"<raised {type(e).__name__}>"
                    if who == "A":
                        paused.set()
                try:
                    ta = threading.Thread(target=call, args=("A",), daemon=True)
                    a_thread.append(ta)
                    ta.start()
                    paused.wait(20)
                    waited = False
                    if "A" in res:            # A finished without reaching the stop
                        ta.join(20)
                        return res.get("A"), None, n[0], False
                    put(NEW_DOC, 7)
                    tb = threading.Thread(target=call, args=("B",), daemon=True)
                    tb.start()
                    tb.join(0.25)
                    if tb.is_alive():
                        waited = True
                    resume.set()
                    ta.join(20)
                    tb.join(20)
                    if ta.is_alive() or tb.is_alive():
                        raise lib.CheckError("check_overlap: the two etag() callers did not finish")
                    return res.get("A"), res.get("B"), n[0], waited
                finally:
                    resume.set()
                    mod.os = saved_os
                    if had_open:
                        mod.open = saved_open
                    else:
                        del mod.open

            put(OLD_DOC, 1)
            _, _, total, _ = overlapped(mod.FilePolicySource(path, include_mtime_in_etag=mt), -1, "before")
            put(OLD_DOC, 1)
            old_tag = mod.FilePolicySource(path, include_mtime_in_etag=mt).etag()
            for warm in (False, True):
                for k in range(1, total + 1):
                    for when in ("before", "after"):
                        put(OLD_DOC, 1)
                        src = mod.FilePolicySource(path, include_mtime_in_etag=mt)
                        if warm:
                            src.etag()
                            os.utime(path, ns=(BASE_NS + 2, BASE_NS + 2))     # make the warm source hash again
                        a_res, b_res, _, waited = overlapped(src, k, when)
                        if b_res is None:
                            run.count("overlap:stop-not-reached")
                            continue
                        later = [src.etag(), src.etag()]
                        fresh = mod.FilePolicySource(path, include_mtime_in_etag=mt).etag()
                        run.evaluations += 1
                        run.count("overlap")
                        if waited:
                            run.count("overlap:second-caller-waited-for-the-first")
                        run.nontrivial.add(f"overlap{mt}{warm}{k}{when}")
                        if b_res != fresh or later[0] != fresh or later[1] != fresh or fresh == old_tag:
                            run.spec_failures.append({"label": "overlap", "kind": "midcall", "ext": ext, "include_mtime": mt,
                                                      "warm_cache": warm, "first_caller_stopped_at_access": k, "when": when,
                                                      "accesses_of_etag": total, "second_caller_waited_for_the_first": waited,
                                                      "what": "two callers of etag() on one FilePolicySource: while the first was stopped inside its call the "
                                                              "file was replaced (other content, size and mtime); the second caller's etag(), started after the "
                                                              "replacement, or the observations made afterwards do not report the tag of what is on disk",
                                                      "first_caller": a_res, "second_caller": b_res, "afterwards": later,
                                                      "fresh_source": fresh, "old_tag": old_tag})


# ============================================================================= the policy path is a symbolic link


def check_symlink(run: lib.Run, mod) -> None:
    """deployments publish by retargeting a symbolic link (Kubernetes `..data`, `ln -sfn`): the source reports what the PATH names now —
    a long-lived source must agree with a brand-new one after every retarget, and atomic_write onto the link path must be seen too"""
    for ext in (".json", ".yaml"):
        for mt in (False, True):
            with tempfile.TemporaryDirectory(prefix="rbacx-verif-c16-") as d:
                old, new = (OLD_DOC, NEW_DOC) if ext == ".json" else (OLD_YAML, NEW_YAML)
                a, b2 = os.path.join(d, "v1" + ext), os.path.join(d, "v2" + ext)
                for pth, text, ns in ((a, old, 1), (b2, new, 2)):
                    with open(pth, "wb") as f:
                        f.write(text.encode())
                    os.utime(pth, ns=(BASE_NS + ns, BASE_NS + ns))
                link = os.path.join(d, "current" + ext)
                os.symlink(a, link)
                src = mod.FilePolicySource(link, include_mtime_in_etag=mt)
                obs = []
                for step, target in enumerate((a, b2, a, b2)):
                    tmp = link + ".swap"
                    os.symlink(target, tmp)
                    os.replace(tmp, link)
                    fresh = mod.FilePolicySource(link, include_mtime_in_etag=mt)
                    try:
                        obs.append((src.etag() == fresh.etag(), src.load() == fresh.load()))
                    except Exception as e:  # noqa: BLE001
                        obs.append(("raised", type(e).__name__))
                run.evaluations += 1
                run.count("symlink-retarget")
                run.nontrivial.add(f"symlink{ext}{mt}")
                if any(o != (True, True) for o in obs):
                    run.spec_failures.append({"label": f"symlink{ext}", "kind": "symlink", "ext": ext, "include_mtime": mt,
                                              "what": "the policy path is a symbolic link that was retargeted: the long-lived source no longer reports "
                                                      "what the path names (tag / document differ from a fresh source's)", "agree_per_step": obs})


# ============================================================================= histories of the file source

# content pool: index → text.  0/1/2 have the same size; 3 is YAML only; 4 is a YAML list (not a mapping);
# 5 is empty; 6 and 7 have other sizes
CONTENTS = ['{"rules": []}', '{"rules": {}}', '{"rulez": []}', "rules: []\n", "- 1\n- 2\n", "",
            '{"algorithm": "first-applicable", "rules": []}', "algorithm: deny-overrides\nrules: []\n",
            # 8: JSON that a YAML parser reads differently (1e6 is a float in JSON, a string in YAML 1.1; a tab after the colon)
            '{"rules": [], "n": 1e6,\t"m": [1E3]}']
assert len(CONTENTS[0]) == len(CONTENTS[1]) == len(CONTENTS[2])
READS = (["etag"], ["load"])


def alphabet(tier: str, ext: str) -> list[list]:
    other = 8 if ext == ".json/yamldir" else (3 if ext != ".json" else 6)   # a YAML-only document for YAML files, a JSON-only one
    # below the YAML-named directory: the dispatch must be by the file's extension
    ops = [["write", 0, 1], ["write", 1, 1], ["write", 1, 2], ["write", other, 2], ["touch", 2], ["delete"], ["etag"], ["load"]]
    if tier == "thorough":
        ops += [["write", 0, 2], ["touch", 1]]
    return ops


def enum_histories(ops: list[list], maxlen: int):
    """every sequence of length ≤ maxlen that ends in an observation (a trailing modification shows nothing)"""
    for n in range(1, maxlen + 1):
        for seq in itertools.product(ops, repeat=n):
            if seq[-1] in READS:
                yield list(seq)


def random_history(r: random.Random) -> list[list]:
    n = r.randint(5, 30)
    ops = []
    for _ in range(n):
        x = r.random()
        if x < 0.30:
            # same-size contents and few mtimes: same-size rewrites, the excluded case, and real changes all occur
            ops.append(["write", r.choice([0, 1, 2, 0, 1, 3, 4, 5, 6, 7]), r.randint(1, 3)])
        elif x < 0.42:
            ops.append(["touch", r.randint(1, 3)])
        elif x < 0.50:
            ops.append(["delete"])
        elif x < 0.82:
            ops.append(["etag"])
        else:
            ops.append(["load"])
    return ops


class Disk:
    """one scratch directory reused for many histories (the file and the source object are fresh each time)"""

    def __init__(self, mod):
        self.mod = mod
        self.tmp = tempfile.TemporaryDirectory(prefix="rbacx-verif-c16-")
        self.d = self.tmp.name
        p = os.path.join(self.d, "probe")
        open(p, "w").close()
        os.utime(p, ns=(BASE_NS + 3, BASE_NS + 3))
        if os.stat(p).st_mtime_ns != BASE_NS + 3:
            raise lib.CheckError("scratch file system does not keep nanosecond mtimes")
        os.unlink(p)

    def close(self):
        self.tmp.cleanup()

    def run(self, ext: str, mt: bool, via_atomic: bool, ops: list[list]) -> list:
        path = os.path.join(self.d, TARGET[ext])
        import shutil
        for x in os.listdir(self.d):
            full = os.path.join(self.d, x)
            shutil.rmtree(full) if os.path.isdir(full) else os.unlink(full)
        os.makedirs(os.path.dirname(path), exist_ok=True)
        src = self.mod.FilePolicySource(path, include_mtime_in_etag=mt)
        out = []
        for op in ops:
            k = op[0]
            if k == "write":
                text = CONTENTS[op[1]]
                if via_atomic:
                    self.mod.atomic_write(path, text)
                else:
                    with open(path, "wb") as f:
                        f.write(text.encode())
                os.utime(path, ns=(BASE_NS + op[2], BASE_NS + op[2]))
                out.append(None)
            elif k == "touch":
                if os.path.exists(path):
                    os.utime(path, ns=(BASE_NS + op[1], BASE_NS + op[1]))
                out.append(None)
            elif k == "delete":
                if os.path.exists(path):
                    os.unlink(path)
                out.append(None)
            elif k == "etag":
                try:
                    out.append({"etag": src.etag()})
                except Exception as e:  # noqa: BLE001
                    out.append({"etag": f"<raised {type(e).__name__}>"})
            else:
                disk = open(path, "rb").read() if os.path.exists(path) else None
                try:
                    got = ["ok", src.load()]
                except FileNotFoundError:
                    got = ["missing"]
                except Exception:  # noqa: BLE001
                    got = ["raised"]
                out.append({"load": got, "disk": None if disk is None else list(disk)})
        left = [x for x in os.listdir(os.path.dirname(path)) if x != os.path.basename(path)]
        if left:
            raise lib.CheckError(f"scratch directory polluted: {left}")
        return out


def hist_cmd(ext: str, mt: bool, ops: list[list], impl: list | None) -> dict:
    cmd = {"cmd": "file-history", "path": "/srv/" + TARGET[ext], "include_mtime": mt,
           "contents": [b(c) for c in CONTENTS], "disk0": None, "ops": ops}
    if impl is not None:
        names: dict[str, int] = {}
        tags = []
        for o in impl:
            if o is not None and "etag" in o:
                tags.append(None if o["etag"] is None else names.setdefault(o["etag"], len(names)))
        cmd["impl_tags"] = tags
    return cmd


def documented_tag(m: dict | None) -> str | None:
    """the documented rendering: sha256 hex, `sha:mtime_ns` in mtime mode (reported when it differs, not judged)"""
    if m is None:
        return None
    sha = hashlib.sha256(CONTENTS[m["sha_of"]].encode()).hexdigest()
    return sha if m["mtime"] is None else f"{sha}:{BASE_NS + m['mtime']}"


class TagMap:
    """model tag ↔ implementation tag must be one injective renaming over the whole run (None ↔ None)"""

    def __init__(self):
        self.fwd: dict = {}
        self.rev: dict = {}
        self.format_differs = 0

    def agree(self, m: dict | None, real_tag) -> bool:
        if m is None or real_tag is None:
            return m is None and real_tag is None
        key = (m["sha_of"], m["mtime"])
        if self.fwd.setdefault(key, real_tag) != real_tag or self.rev.setdefault(real_tag, key) != key:
            return False
        if real_tag != documented_tag(m):
            self.format_differs += 1
        return True


def judge_history(ext: str, mt: bool, ops: list[list], impl: list, ans: dict, tm: TagMap | None = None) -> tuple[str | None, str | None, dict]:
    """(spec failure, disagreement, stats) for one history"""
    tm = tm or TagMap()
    spec_fail = None
    disagree = None
    stats = {"etags": 0, "loads": 0, "within": ans["within_claim"], "of": ans["etag_observations"], "outside": 0, "outside_differs": 0}
    if ans["spec_impl"] is False:
        spec_fail = f"tag rules violated by observations {ans['spec_impl_first_bad']} (Spec.etagsOk: a tag iff a file; equal tags iff equal " \
                    f"content{' and mtime' if mt else ''}, within the proviso)"
    for i, (op, o, m) in enumerate(zip(ops, impl, ans["obs"])):
        if op[0] == "etag":
            stats["etags"] += 1
            if stats["etags"] > stats["within"]:
                # after an out-of-claim rewrite the property is silent: compared and counted, not judged
                stats["outside"] += 1
                probe = TagMap()
                probe.fwd, probe.rev = dict(tm.fwd), dict(tm.rev)
                stats["outside_differs"] += 0 if probe.agree(m["etag"], o["etag"]) else 1
            elif not tm.agree(m["etag"], o["etag"]) and disagree is None:
                disagree = f"op {i}: etag() = {o['etag']!r}, model: {m['etag']} (elsewhere in this run: {tm.fwd.get((m['etag']['sha_of'], m['etag']['mtime'])) if m['etag'] else None!r})"
        elif op[0] == "load":
            stats["loads"] += 1
            ml = m["load"]
            if ml == "missing":
                want, disk_model = ["missing"], None
            else:
                disk_model = b(CONTENTS[ml["content"]])
                want = parse_independent(ml["format"], bytes(disk_model))
            if o["disk"] != disk_model:
                raise lib.CheckError(f"harness lost track of the disk at op {i} of {ops}")
            # load() must be the parse of what is on disk (c16_load_is_disk) – judged on the bytes the harness read itself
            if o["load"] != want and spec_fail is None:
                spec_fail = f"op {i}: load() = {str(o['load'])[:120]}, but the {ml if ml == 'missing' else ml['format']} parse of the bytes on disk is {str(want)[:120]}"
    return spec_fail, disagree, stats


def history_cases(run: lib.Run, scale: int = 1):
    quick = run.tier == "quick" and scale == 1
    maxlen = 4 if quick else 5
    configs = [(".json", False, False), (".json", True, True), (".YML", False, True), (".yaml", True, False), (".json/yamldir", False, False)]
    if not quick:
        configs += [(".yml", False, False), (".yml", True, True), (".YML", True, False), (".json", False, True)]
    for ext, mt, via in configs:
        for ops in enum_histories(alphabet("quick" if quick else run.tier, ext), maxlen):
            yield ext, mt, via, ops, "enum"
    r = random.Random(run.seed * 7919 + 16)
    for i in range((400 if quick else 4000) * scale):
        yield r.choice(list(TARGET)), r.random() < 0.5, r.random() < 0.5, random_history(r), f"random#{i}"
    # directed: the excluded case, touch only, delete / recreate with the same signature
    for ext in TARGET:
        for mt in (False, True):
            for ops in ([["write", 0, 1], ["etag"], ["write", 1, 1], ["etag"], ["write", 1, 2], ["etag"], ["write", 0, 1], ["etag"]],
                        [["write", 0, 1], ["etag"], ["touch", 2], ["etag"], ["touch", 1], ["etag"], ["load"]],
                        [["write", 0, 1], ["etag"], ["delete"], ["etag"], ["load"], ["write", 1, 1], ["etag"], ["load"], ["touch", 2], ["etag"]],
                        [["etag"], ["load"], ["write", 3, 1], ["load"], ["etag"], ["write", 4, 2], ["load"], ["write", 5, 3], ["load"], ["etag"]]):
                yield ext, mt, True, ops, "directed"


def check_histories(run: lib.Run, mod, scale: int = 1) -> None:
    disk = Disk(mod)
    try:
        batch, cmds = [], []
        for ext, mt, via, ops, label in history_cases(run, scale):
            impl = disk.run(ext, mt, via, ops)
            batch.append((ext, mt, via, ops, label, impl))
            cmds.append(hist_cmd(ext, mt, ops, impl))
    finally:
        disk.close()
    tm = TagMap()
    for (ext, mt, via, ops, label, impl), ans in zip(batch, proto.run_driver(cmds)):
        spec_fail, disagree, st = judge_history(ext, mt, ops, impl, ans, tm)
        excluded = st["within"] < st["of"]
        run.count(f"history:{label.split('#')[0]}:" + ("excluded-case" if excluded else "within-claim"))
        run.count("etag-observations", st["etags"])
        run.count("load-observations", st["loads"])
        run.extra["tags_outside_claim"] = run.extra.get("tags_outside_claim", 0) + st["outside"]
        run.extra["tags_outside_claim_differing_from_model"] = run.extra.get("tags_outside_claim_differing_from_model", 0) + st["outside_differs"]
        mods_before_read = any(o[0] in ("write", "touch", "delete") for o in ops[:-1])
        case = {"label": label, "ext": ext, "include_mtime": mt, "via_atomic_write": via, "ops": ops, "kind": "history",
                "impl": [o if o is None or "etag" in o else {"load": str(o["load"])[:100]} for o in impl]}
        run.case(["hist", ext, mt, ops], mods_before_read and st["etags"] + st["loads"] > 0,
                 case if label.startswith("random") else None)
        run.extra["histories"] = run.extra.get("histories", 0) + 1
        if ans["spec_model"] is not True:
            raise lib.CheckError(f"the model's own tags violate the spec on {ops}")
        if spec_fail:
            run.spec_failures.append({**case, "what": spec_fail})
        elif disagree:
            run.disagreements.append({**case, "what": disagree, "model": ans["obs"]})
    if tm.format_differs:
        run.notes.append(f"etag strings are not rendered as documented (sha256 hex[:mtime_ns]) in {tm.format_differs} observations; "
                         "they are an injective renaming of the model's tags, which is all the property asks")


def shrink_history(mod, case: dict) -> dict:
    disk = Disk(mod)
    try:
        def fails(ops):
            if not ops:
                return False
            impl = disk.run(case["ext"], case["include_mtime"], case["via_atomic_write"], ops)
            ans = proto.run_driver([hist_cmd(case["ext"], case["include_mtime"], ops, impl)])[0]
            return judge_history(case["ext"], case["include_mtime"], ops, impl, ans)[0] is not None
        ops = lib.shrink_list(case["ops"], fails, budget=120)
        impl = disk.run(case["ext"], case["include_mtime"], case["via_atomic_write"], ops)
        ans = proto.run_driver([hist_cmd(case["ext"], case["include_mtime"], ops, impl)])[0]
        what = judge_history(case["ext"], case["include_mtime"], ops, impl, ans)[0] or case["what"]
    finally:
        disk.close()
    return {**case, "ops": ops, "what": what, "impl": [o if o is None or "etag" in o else {"load": str(o["load"])[:100]} for o in impl],
            "contents": {i: c for i, c in enumerate(CONTENTS)}, "mtime_ns": f"{BASE_NS} + m"}


# ============================================================================= verdict


def check(run: lib.Run, audit: dict) -> int:
    run.rule = ("atomic_write: a fault at every step of the traced program (raise ×3 exception kinds, also after 0/1/half/all bytes of "
                "f.write; os._exit in a forked child and SIGKILL in a child interpreter after every prefix) × scenarios (replace/create, "
                "json/yaml) + provoked real errors; a reader between every two steps; reader thread vs writer thread; the file replaced before/after "
                "every file-system access of a running etag() (cold and warm cache, both tag modes); a second caller's complete etag() on the same source while the first is stopped at each of its accesses and the file is replaced in between; the path as a retargeted symbolic link. "
                "file source: every history over {4 writes (same-size pairs, 2 mtimes), touch, delete, etag, load} of length ≤4 (quick) / "
                "{6 writes, 2 touches, …} ≤5 (thorough) ending in an observation × (extension, include_mtime, write mechanism) configs + "
                "seeded random histories of length ≤30 + directed ones. non-trivial = a fault that fired / a history with a modification "
                "before an observation; distinct by fault point resp. (config, history)")
    run.exhaustive = True
    run.assumptions = [
        "kernel rename(2) atomicity and mkstemp name freshness are trusted (one model step; hypotheses tmp ≠ target, temp name fresh)",
        "cannot exhibit: power-loss durability (no fsync in atomic_write – outside the statement)",
        "sha256 is injective on the contents used (hypothesis `Function.Injective sha` of the theorems)",
        "histories are sequential at operation granularity in the model (FileSource.etag is one step); a writer in the middle of an etag() call "
        "is exercised on the real code only: the file is replaced before/after every file-system access of etag() and the observations made "
        "afterwards must equal a fresh source's tag (check_midcall) — what the racing call itself returns is not judged",
        "the proviso of the property (a content change keeping size and mtime is outside the claim) is applied between consecutive tag "
        "observations; tags after the first out-of-claim observation of a history are compared with the model but not judged by the spec",
        "model paths are ASCII (`_detect_format` lower-cases with str.lower)",
    ]
    if not audit["ok"]:
        raise lib.CheckError(f"Lean build/audit failed at {audit['stage']}: {audit.get('log') or audit.get('forbidden') or audit.get('bad_axioms')}")
    program = audit["facts"]["atomic_write_program"]
    ok, detail = lib.run_obligation("C16_shape")
    run.obligation("C16_shape: WellShaped ∧ WritesAllOnce Generated.atomicWriteProgram", ok, "" if ok else detail)
    mod = awtrace.load_module(real.REPO)
    run.samples.append({"traced_program": program})
    # file_store.py as it is written NOW, translated into Lean (world-passing), is proved equal to the model (per-run obligations)
    tr = audit["facts"].get("translated_filestore")
    tr = tr if isinstance(tr, dict) and "extraction_failed" not in tr else {"atomic": {"failed": str(tr)}, "source": {"failed": str(tr)}}
    ok_src, detail_src = lib.run_obligation("C16_translated")
    run.obligation("C16_translated: Generated.Src.fs_stat_sig / fs_ensure_content_sha / fs_etag / fs_load (the current source text of "
                   "FilePolicySource, os.stat / _hash_file / open / read / parse_policy_text / validate_policy as outcome parameters) = the "
                   "model's ensureSha / etag (f-string included) / load for every cache state, stat outcome, hash outcome and tag mode; "
                   "exceptions propagate with the cache attributes untouched", ok_src,
                   "discharged" if ok_src else (tr["source"]["failed"] if "failed" in tr["source"] else detail_src))
    ok_aw, detail_aw = lib.run_obligation("C16_atomic")
    run.obligation("C16_atomic: Generated.Src.fs_atomic_write (the current source text; mkstemp / fdopen / write / the with exit / replace / "
                   "unlink read as the model's primitives on the paths the code passes) leaves the model file system and ends exactly as "
                   "runSteps on canonical .outside [0], for every fault (kill or raise at every call, after any number of bytes); "
                   "c16_all_or_nothing / c16_failure_leaves_no_temp / c16_success_writes_new re-derived for the source text", ok_aw,
                   "discharged" if ok_aw else (tr["atomic"]["failed"] if "failed" in tr["atomic"] else detail_aw))
    ok_py, detail_py = fstranslated.translated_vs_python(run, mod, tr)
    run.obligation("translated file_store acts like the real atomic_write / FilePolicySource under scripted outcomes of every external call "
                   "(translator + Model/PyWorld.lean + Model/PyLib.lean vs CPython)", ok_py, detail_py)
    ok_shape = ok
    ok = ok and ok_src and ok_aw

    check_faults(run, mod, program)
    for part in (check_instants, check_concurrent, check_midcall, check_overlap, check_symlink, lambda r, m: check_histories(r, m, scale=run.boost)):
        try:
            part(run, mod)
        except lib.CheckError:
            raise
        except Exception as e:  # noqa: BLE001
            # a writer that does not work at all (every fault-free write already failed the spec above) also breaks the set-up of the
            # later parts: that is the violation already found, not trouble with the infrastructure
            if not run.spec_failures:
                raise
            run.notes.append(f"{getattr(part, '__name__', 'check_histories')} could not run on this tree ({type(e).__name__}: {str(e)[:120]}); "
                             f"a violation had already been found")
    if (run.disagreements or not ok) and not run.spec_failures:
        # a proof obligation or the correspondence broke: widen the search for a failing input on the real code
        check_faults(run, mod, program, wide=True)
        check_histories(run, mod, scale=3)
        if not (ok_src and ok_aw and ok_py):
            fstranslated.translated_vs_python(run, mod, tr, wide=True)

    violations = []
    if run.spec_failures:
        # the most concrete witness first: a fault point, then a history, then the interleaving / thread observations
        rank = {None: 0, "history": 1, "midcall": 1, "symlink": 1, "instants": 2, "concurrent": 3}
        c = min(run.spec_failures, key=lambda x: rank.get(x.get("kind"), 4))
        if c.get("kind") == "history":
            c = shrink_history(mod, c)
        path = run.write_replay("spec", {"what": c["what"], "case": c, "more": len(run.spec_failures) - 1,
                                         "shape_obligation_discharged": ok_shape, "C16_translated_discharged": ok_src,
                                         "C16_atomic_discharged": ok_aw})
        violations.append((path, True))
    elif not ok:
        which = [n for n, o in (("C16_shape", ok_shape), ("C16_translated", ok_src), ("C16_atomic", ok_aw)) if not o]
        d = next((x for x in run.disagreements if x.get("kind") != "translated"), None)
        path = run.write_replay("obligation", {"what": f"per-run obligation(s) Rbacx/Run/{' / '.join(which)}.lean no longer check: "
                                               + ("the traced atomic_write program is not of the shape the theorems Rbacx.C16.c16_all_or_nothing / "
                                                  "c16_failure_leaves_no_temp / c16_success_writes_new quantify over; " if not ok_shape else "")
                                               + ("the translated source of FilePolicySource is not proved equal to the model's ensureSha / etag / load; "
                                                  if not ok_src else "")
                                               + ("the translated source of atomic_write is not proved to run as runSteps on the canonical program; "
                                                  if not ok_aw else "")
                                               + "the theorems Rbacx.C16.* no longer speak about this code; the widened search "
                                               + ("found an input on which model and real code differ" if d else "found no input on which the real "
                                                  "code violates C16 or differs from the model (no-failing-input-found)"),
                                               "traced_program": program,
                                               "lean": {"C16_shape": None if ok_shape else detail[-1500:], "C16_translated": None if ok_src else detail_src[-1500:],
                                                        "C16_atomic": None if ok_aw else detail_aw[-1500:]},
                                               "translation": {k: v.get("failed") for k, v in tr.items()},
                                               "first_disagreement": d or (run.disagreements[0] if run.disagreements else None)})
        violations.append((path, False))
    elif run.disagreements:
        path = run.write_replay("correspondence", {"what": "model (Rbacx.FileSrc.runSteps / trace) and implementation disagree; theorems "
                                                   "Rbacx.C16.* no longer speak about this code", "first": run.disagreements[0],
                                                   "count": len(run.disagreements)})
        violations.append((path, False))
    return run.finish(audit, violations)


def replay(run: lib.Run, audit: dict, path: str) -> int:
    rp = json.load(open(path))
    c = rp.get("case") or rp.get("first") or rp.get("first_disagreement")
    mod = awtrace.load_module(real.REPO)
    if not c:
        print("traced program now:", audit["facts"]["atomic_write_program"])
        print("recorded:", rp.get("traced_program"))
        return 0
    if c.get("kind") == "translated":
        return fstranslated.replay_case(mod, c)
    if c.get("kind") == "history":
        disk = Disk(mod)
        try:
            impl = disk.run(c["ext"], c["include_mtime"], c["via_atomic_write"], c["ops"])
        finally:
            disk.close()
        ans = proto.run_driver([hist_cmd(c["ext"], c["include_mtime"], c["ops"], impl)])[0]
        sf, dis, _ = judge_history(c["ext"], c["include_mtime"], c["ops"], impl, ans)
        for op, o, m in zip(c["ops"], impl, ans["obs"]):
            print(op, "impl:", None if o is None else (o.get("etag") if "etag" in o else o["load"]), "| model:", m)
        print("spec failure:", sf, "| disagreement:", dis)
        return 1 if sf or dis else 0
    if c.get("kind") == "instants":
        r2 = lib.Run(run.prop, run.tier, run.seed)
        check_instants(r2, mod)
        print("spec failures:", r2.spec_failures[:1])
        return 1 if r2.spec_failures else 0
    if c.get("kind") == "concurrent":
        r2 = lib.Run(run.prop, run.tier, run.seed)
        check_concurrent(r2, mod)
        print("spec failures:", r2.spec_failures[:1])
        return 1 if r2.spec_failures else 0
    if c.get("kind") == "symlink":
        r2 = lib.Run(run.prop, run.tier, run.seed)
        check_symlink(r2, mod)
        print("spec failures:", r2.spec_failures[:1])
        return 1 if r2.spec_failures else 0
    if c.get("kind") == "midcall":
        r2 = lib.Run(run.prop, run.tier, run.seed)
        check_midcall(r2, mod)
        print("spec failures:", r2.spec_failures[:1])
        return 1 if r2.spec_failures else 0
    fault = awtrace.Fault.from_json(c.get("fault"))
    impl = run_fault_case(mod, c["scenario"], fault, c["mechanism"])
    program = audit["facts"]["atomic_write_program"]
    ans = proto.run_driver([aw_cmd(program, c["scenario"], c["model_fault"], impl)])[0]
    show = lambda t: None if t is None else bytes(t).decode("utf-8", "replace")[:80]  # noqa: E731
    print("fault:", c.get("fault"), "mechanism:", c["mechanism"])
    print("impl: outcome", impl["outcome"], impl["exc"], "| target:", show(impl["target"]), "| listing:", impl["listing"])
    print("model: outcome", ans["outcome"], "| target:", show(ans["target"]), "| temp left:", ans["temp_left"])
    print("Spec.atomicOk on the implementation's result:", ans["spec_impl"])
    return 1 if ans["spec_impl"] is False else 0
