"""C17 — one document, one meaning: formats, tools and default algorithm agree.

Tie: (A) `_detect_format` on every hint combination vs the model; (A') the parser dispatch (`parse_policy_text/bytes`, `_parse_yaml`) and the
command functions (`_validate_doc`, `cmd_lint/validate/check`, `main`) translated from the current source and proved equal to the model for every
outcome of their collaborators (Run/C17_cli_translated.lean), the real functions driven with stub collaborators against the model and the
translation on every outcome combination of a small scope, the delivery paths' parser calls / the validator call / the default-algorithm literals
read syntactically and compared with pinned expectations resp. the probed defaults; (B) every generated document,
rendered as JSON and YAML, delivered through parse_policy_text/bytes, FilePolicySource, faked HTTP and
S3 and the CLI, must parse to the identical object and give identical decisions; (C) validator / CLI
statuses vs the bundled schema's verdict and the model's status function; (D) the default algorithm:
per-run obligation `DefaultsUniform Generated.consts`, no-algorithm documents on every path against
the model under uniform defaults, known finding F1 attributed only by its signature."""
from __future__ import annotations

import contextlib
import io
import itertools
import json
import os
import random
import sys
import tempfile
import types

import yaml

import gen
import guardcases as gc
import lib
import proto
import real
from props import c06
from rbacx import cli as rcli
from rbacx.core import compiler as rcompiler
from rbacx.core import policy as rpolicy
from rbacx.core import policyset as rset
from rbacx.dsl import lint as rlint
from rbacx.store import policy_loader as rloader
from rbacx.store.file_store import FilePolicySource
from rbacx.store.http_store import HTTPPolicySource
from rbacx.store.s3_store import S3PolicySource


# ---------------------------------------------------------------- A: format detection

def detect_cases():
    fmts = [None, "json", "yaml", "JSON", "Yaml", "xml", ""]
    cts = [None, "application/json", "application/x-yaml", "text/yaml; charset=utf-8", "APPLICATION/JSON", "text/plain",
           "application/yaml+json", "", "application/vnd.api+json"]
    fns = [None, "p.json", "p.yaml", "p.yml", "P.YML", "p.txt", "p.yaml.json", "", "dir/p.json.yaml", "yaml", ".yml"]
    return list(itertools.product(fmts, cts, fns))


def check_translated_detect(run: lib.Run, audit: dict, violations: list) -> None:
    """tie by regeneration: `_detect_format` as written now, translated into Lean, is proved equal to the model's `detectFormat`
    (Run/C17_translated.lean), and the translation is evaluated against the Python function (Run/SrcEval.lean)"""
    import subprocess
    tr = audit["facts"].get("translated_source")
    ok, detail = lib.run_obligation("C17_translated")
    run.obligation("C17_translated: Generated.Src.detect_format = Rbacx.detectFormat, for every input", ok,
                   "discharged" if ok else (str(tr.get("extraction_failed")) if isinstance(tr, dict) and "extraction_failed" in tr else detail))
    if not ok:
        path = run.write_replay("obligation", {"what": "per-run obligation Rbacx/Run/C17_translated.lean no longer checks: the translated source of "
                                               "_detect_format is not proved equal to the model function theorems Rbacx.C17.c17_detect_* are about "
                                               "(the exhaustive detection cases of this run are the search for a failing input)",
                                               "lean": detail[-1500:]})
        run.extra["translated_obligation_replay"] = path
        return
    vals = [None, "", "json", "yaml", "JSON", "Yaml", "yml", "x", "application/json", "application/x-yaml; charset=utf-8", "text/yaml", "TEXT/YAML",
            "application/octet-stream", "a.yaml", "A.YML", "p.json", "dir.yaml/p", "p.yaml.json", ".yml", "json.yaml", "x-yaml", "jsonyaml"]
    calls = [(fn, ct, fmt) for fn in vals for ct in vals for fmt in vals[:9]]
    lines = [json.dumps({"fn": "_detect_format", "args": [proto.enc(a) for a in c]}) for c in calls]
    p = subprocess.run(["lake", "env", "lean", "--run", "Rbacx/Run/SrcEval.lean"], cwd=lib.LEAN, input="\n".join(lines) + "\n",
                       capture_output=True, text=True, timeout=900)
    outs = [ln for ln in p.stdout.split("\n") if ln]
    good = p.returncode == 0 and len(outs) == len(lines)
    bad = 0
    if good:
        for (fn, ct, fmt), ln in zip(calls, outs):
            want = rloader._detect_format(filename=fn, content_type=ct, fmt=fmt)
            got = json.loads(ln)
            run.count("translated-vs-python")
            if "value" not in got or proto.dec(got["value"]) != want:
                bad += 1
                if bad == 1:
                    run.disagreements.append({"part": "translator", "what": "translated _detect_format (Generated.Src) and the Python function differ",
                                              "args": [fn, ct, fmt], "python": want, "translated": got})
        run.evaluations += len(calls)
    run.obligation("translated _detect_format evaluates like the Python function (translator + Model/PyLib.lean vs CPython, ASCII inputs)",
                   good and bad == 0, "agree" if good and bad == 0 else (f"{bad} of {len(calls)} differ" if good else (p.stderr or p.stdout)[-500:]))


# ---------------------------------------------------------------- A': the command line and the parser dispatch, tied by regeneration

EXPECTED_DELIVERY = {
    "FilePolicySource.load": {"parser_calls": [{"fn": "parse_policy_text", "from": ".policy_loader:parse_policy_text", "positional": 1,
                                                "hints": {"filename": "self.path"}}], "other_parsers": []},
    # (re-pinned after the F20 repair, /repo a55bb87) a response object that has a `.json` method is asked first ONLY when
    # `_detect_format(filename=self.url, content_type=…)` selects JSON — the same decision parse_policy_text takes under those hints —
    # (`.json()` twice in the text: the fast path, and the empty-body fallback behind a JSON content type); a failure or a non-dict falls
    # through to parse_policy_text with the URL and the Content-Type as hints; `same_text_same_hints` checks the behaviour on every run
    "HTTPPolicySource.load": {"parser_calls": [{"fn": "parse_policy_text", "from": ".policy_loader:parse_policy_text", "positional": 1,
                                                "hints": {"filename": "self.url", "content_type": "content_type"}}],
                              "other_parsers": ["_detect_format()", "r.json()", "r.json()"]},
    "S3PolicySource.load": {"parser_calls": [{"fn": "parse_policy_bytes", "from": ".policy_loader:parse_policy_bytes", "positional": 1,
                                              "hints": {"filename": "self.loc.key"}}], "other_parsers": []},
}
EXPECTED_VALIDATOR = {"params": ["policy"], "schema_files": ["policy.schema.json"], "schema_package": ["'rbacx.dsl'"],
                      "validator_calls": ["jsonschema.validate(policy, schema)"], "import_guard": [["Exception", "RuntimeError"]],
                      "last_statement": "jsonschema.validate(policy, schema)", "returns": []}
EXPECTED_IMPORTS = {"parse_policy_text": ".store.policy_loader:parse_policy_text", "validate_policy": ".dsl.validate:validate_policy",
                    "analyze_policy": ".dsl.lint:analyze_policy", "analyze_policyset": ".dsl.lint:analyze_policyset"}
MODEL_FNS = ("_parse_yaml", "parse_policy_text", "parse_policy_bytes", "_load_policy_from_arg", "cmd_lint", "cmd_validate", "cmd_check")


def check_translated_cli(run: lib.Run, audit: dict, violations: list) -> None:
    """tie by regeneration: `_parse_yaml` / `parse_policy_text` / `parse_policy_bytes` (store/policy_loader.py) and `_validate_doc` / `cmd_lint` /
    `cmd_validate` / `cmd_check` with their helpers (cli.py) as written now, translated into Lean (plugin src_translation_cli), are proved
    equal to the model's `parsePolicyText` / `cliRun` … for every combination of outcomes of the collaborators (Run/C17_cli_translated.lean);
    the REAL functions, driven with stub collaborators, are compared with the translation (Run/SrcEvalCli.lean) AND with the model (driver
    `cli-model`) on every outcome combination of a small scope plus seeded random ones"""
    import subprocess
    import clicases
    tr = audit["facts"].get("translated_cli")
    failed_extraction = tr.get("extraction_failed") if isinstance(tr, dict) else "no facts"
    ok, detail = lib.run_obligation("C17_cli_translated", deps=["C17_translated"])
    if isinstance(tr, dict) and isinstance(tr.get("main"), dict) and "failed" in tr["main"]:
        ok, detail = False, "cli.main left the translatable subset: " + tr["main"]["failed"]
    run.obligation("C17_cli_translated: Generated.Src.parse_policy_text/bytes = parsePolicyText/Bytes, Src.cmd_lint/cmd_validate/cmd_check = cliRun, "
                   "Src.cli_main = cliMain, for every outcome of every collaborator", ok, "discharged" if ok else (str(failed_extraction) if failed_extraction else detail))
    if not ok:
        path = run.write_replay("obligation_cli", {"what": "per-run obligation Rbacx/Run/C17_cli_translated.lean no longer checks: the translated source of the "
                                                   "parser dispatch (store/policy_loader.py) / the command functions (cli.py) is not proved equal to the model "
                                                   "functions parsePolicyText / cliRun / cliMain that theorems Rbacx.C17.c17_parse_dispatch, c17_cli_run_status, "
                                                   "c17_cli_* are about (the outcome combinations of this run, real code against the model, are the search for "
                                                   "a failing input)", "extraction": failed_extraction, "lean": detail[-1500:]})
        run.extra.setdefault("translated_obligation_replay", path)
    if isinstance(tr, dict) and not failed_extraction:
        for name, got, want in (("delivery paths: FilePolicySource / HTTPPolicySource / S3PolicySource reach a parser only as pinned (parse_policy_text/bytes "
                                 "with these hints; HTTP also the response's own .json())", tr.get("delivery"), EXPECTED_DELIVERY),
                                ("validate_policy: jsonschema.validate(policy, <rbacx.dsl/policy.schema.json>), import failure = RuntimeError",
                                 tr.get("validator"), EXPECTED_VALIDATOR),
                                ("cli.py takes parse_policy_text / validate_policy / analyze_policy / analyze_policyset from the expected modules",
                                 tr.get("imports"), EXPECTED_IMPORTS)):
            same = got == want
            run.obligation("C17 syntactic reading — " + name, same, "as pinned" if same else "now: " + json.dumps(got)[:600])
            if not same and not run.extra.get("translated_obligation_replay"):
                run.extra["translated_obligation_replay"] = run.write_replay("reading", {"what": "a syntactic fact the C17 theorems are applied under changed: " + name,
                                                                                         "now": got, "pinned": want})
        ok2, detail2 = lib.run_obligation("C17_default_literals")
        lits = {k: (v or {}).get("literal", v) for k, v in (tr.get("default_literals") or {}).items()}
        run.obligation("C17_default_literals: the default-algorithm literals read from the source text = the defaults probed behaviourally", ok2,
                       "discharged: " + json.dumps(lits) if ok2 else f"literals {json.dumps(lits)} vs probed {json.dumps(audit['facts'].get('consts'))}: {detail2[-300:]}")
        if not ok2 and not run.extra.get("translated_obligation_replay"):
            run.extra["translated_obligation_replay"] = run.write_replay("default_literals", {
                "what": "the default-algorithm literals in the source text and the probed defaults differ", "literals": tr.get("default_literals"),
                "probed": audit["facts"].get("consts"), "lean": detail2[-800:]})
    # differential: real functions with stub collaborators  vs  the model (always)  vs  the translation (when it exists)
    cases = clicases.loader_cases() + clicases.helper_cases() + clicases.cli_cases(run.seed, 500 * run.boost if run.tier == "quick" else 6000)
    if not failed_extraction and isinstance(tr, dict) and "lean" in (tr.get("main") or {}):
        cases += clicases.main_cases(run.seed)
    reals = [clicases.run_real(*c) for c in cases]
    for c, r in zip(cases, reals):
        run.count("cli-outcomes:" + c[0] + ":" + (("status " + str(r["ok"])) if "ok" in r and c[0].startswith(("cmd_", "main")) else ("returns" if "ok" in r else "raises")))
    midx = [i for i, c in enumerate(cases) if c[0] in MODEL_FNS + ("main",)]
    mouts = proto.run_driver([{"cmd": "cli-model", **json.loads(clicases.line(*cases[i]))} for i in midx])
    nbad = 0
    for i, m in zip(midx, mouts):
        run.evaluations += 1
        c = cases[i]
        if isinstance(m, dict) and "error" in m and "outside the model's domain" in str(m.get("error")):
            run.count("cli-model:outside-domain")
            continue
        run.case(["cli", c[0], c[1], sorted(c[2])], "ok" in reals[i], None)
        if clicases.project(reals[i]) != clicases.project_lean(m if isinstance(m, dict) else {"error": m}):
            nbad += 1
            if nbad == 1:
                run.spec_failures.append({"part": "command line / parser dispatch", "function": c[0], "arguments": c[1], "collaborator_outcomes": c[2],
                                          "impl": reals[i], "model": m,
                                          "spec": "the real function (stub collaborators with these outcomes) does not do what the model's "
                                                  "parsePolicyText / cliLoad / cliRun / cliMain says"})
    if failed_extraction or not (isinstance(tr, dict) and all("lean" in (tr.get(n) or {}) for n in ("cmd_check", "parse_policy_bytes"))):
        return
    lines = [clicases.line(*c) for c in cases]
    p = subprocess.run(["lake", "env", "lean", "--run", "Rbacx/Run/SrcEvalCli.lean"], cwd=lib.LEAN, input="\n".join(lines) + "\n",
                       capture_output=True, text=True, timeout=900)
    outs = [ln for ln in p.stdout.split("\n") if ln]
    good = p.returncode == 0 and len(outs) == len(lines)
    bad = 0
    if good:
        for c, r, ln in zip(cases, reals, outs):
            run.count("translated-cli-vs-python")
            if clicases.project(r) != clicases.project_lean(json.loads(ln)):
                bad += 1
                if bad == 1:
                    run.disagreements.append({"part": "translator", "what": f"translated {c[0]} (Generated.Src) and the Python function differ",
                                              "args": c[1], "collaborator_outcomes": c[2], "python": r, "translated": json.loads(ln)})
        run.evaluations += len(cases)
    run.obligation("translated parser dispatch / command functions evaluate like the Python functions under the same collaborator outcomes "
                   "(translator + Model/PyCli.lean vs CPython)", good and bad == 0,
                   "agree" if good and bad == 0 else (f"{bad} of {len(cases)} differ" if good else (p.stderr or p.stdout)[-500:]))


# ---------------------------------------------------------------- A'': the linter's algorithm-dependent analysis, tied by regeneration

LINT_ALGO_CODES = ("POTENTIALLY_UNREACHABLE", "OVERLAPPED_BY_DENY")


def lint_rule_pool() -> list:
    """rule shapes the two cross-rule passes distinguish: effect (deny / permit / absent / null / other case), actions (lists that share /
    do not share a member, duplicates, non-strings, a bare string, absent), resource (type, `*`, none, ids as str / int, attrs under both keys)"""
    effects = [{"effect": "permit"}, {"effect": "deny"}, {}, {"effect": None}, {"effect": "Deny"}]
    actions = [{"actions": ["read"]}, {"actions": ["read", "write"]}, {"actions": ["write", "write", 7]}, {"actions": []}, {"actions": "read"}, {},
               {"actions": None}]
    resources = [{"resource": {"type": "doc"}}, {"resource": {"type": "*"}}, {"resource": {}}, {}, {"resource": None},
                 {"resource": {"type": "doc", "id": "1"}}, {"resource": {"type": "doc", "id": 1}}, {"resource": {"type": "img"}},
                 {"resource": {"type": ["doc"]}}, {"resource": {"type": "doc", "attrs": {"a": 1}}},
                 {"resource": {"type": "doc", "attributes": {"a": 1, "b": [1.5]}}}, {"resource": {"type": "doc", "attrs": {"a": True}}},
                 {"resource": {"type": 1.5}}, {"resource": {"type": "doc", "attrs": "x"}}]
    return [{**e, **a, **rs} for e in effects for a in actions for rs in resources]


def lint_cases(run: lib.Run) -> list:
    """(fn, document): the witness rule lists of `check_defaults` and rule lists drawn from `lint_rule_pool`, as a stand-alone policy and as a
    child of a set, under every way of naming / not naming the algorithm (also on the enclosing set); gen.py's policies and policy sets"""
    r = random.Random(run.seed * 7919 + 23)
    _p = {"id": "p", "effect": "permit", "actions": ["read"], "resource": {"type": "doc"}}
    _d = {"id": "d", "effect": "deny", "actions": ["read"], "resource": {"type": "doc"}}
    _q = {"id": "q", "effect": "permit", "actions": ["read", "write"], "resource": {"type": "doc", "id": "1"}}
    algos = [{}, {"algorithm": None}, {"algorithm": ""}, {"algorithm": "deny-overrides"}, {"algorithm": "permit-overrides"},
             {"algorithm": "first-applicable"}, {"algorithm": "First-Applicable"}, {"algorithm": "DENY-OVERRIDES"}, {"algorithm": 0},
             {"algorithm": 1.5}, {"algorithm": ["deny-overrides"]}, {"algorithm": "deny_overrides"}]
    pool = lint_rule_pool()
    # a narrow pool in which rules do overlap: few types, ids and actions
    narrow = [{**e, "actions": a, "resource": rs} for e in ({"effect": "deny"}, {"effect": "permit"}, {})
              for a in (["read"], ["write"], ["read", "write"], "read")
              for rs in ({"type": "doc"}, {"type": "*"}, {"type": "doc", "id": "1"}, {"type": "doc", "id": 1}, {"type": "doc", "attrs": {"a": 1}},
                         {"type": "doc", "attrs": {"a": 1.0, "b": 2}}, {})]
    rule_lists = [[_p, _d], [_d, _p], [_d, _q, _p], [_q, _d], [_d, _p, _p, _d, _q], [_p, _p, _q, _p], []]
    n = (60 if run.tier == "quick" else 600) * run.boost
    for _ in range(n):
        src = pool if r.random() < 0.4 else narrow
        rules = [dict(r.choice(src)) for _ in range(r.choice((2, 2, 3, 3, 4, 6)))]
        for i, rule in enumerate(rules):
            if r.random() < 0.8:
                rule["id"] = r.choice((f"r{i}", "dup", 7, None))
        rule_lists.append(rules)
    cases = []
    for k, rules in enumerate(rule_lists):
        for a in (algos if k < 7 else r.sample(algos, 4)):
            cases.append(("analyze_policy", {**a, "rules": rules}))
        for sa in r.sample(algos, 3):
            sibling = {"algorithm": "first-applicable", "rules": [_q, _p]}
            children = [{**r.choice(algos), "rules": rules}]
            if r.random() < 0.6:
                children.insert(r.choice((0, 1)), sibling)
            cases.append(("analyze_policyset", {**sa, "policies": children}))
    cases += [("analyze_policy", {"rules": None}), ("analyze_policy", {"rules": {"a": 1}}), ("analyze_policy", {"rules": "xy"}), ("analyze_policy", {}),
              ("analyze_policyset", {}), ("analyze_policyset", {"policies": None}), ("analyze_policyset", {"policies": []})]
    r2 = random.Random(run.seed * 4099 + 99)
    for _ in range((40 if run.tier == "quick" else 400) * run.boost):
        if r2.random() < 0.4:
            cases.append(("analyze_policyset", strip_algorithm(r2, gen.gen_policyset(r2, False, False))))
        else:
            pol = gen.gen_policy(r2, False, False)
            cases.append(("analyze_policy", strip_algorithm(r2, pol) if r2.random() < 0.6 else pol))
    return cases


def _lint_oracle_roots(doc) -> list:
    """the values the analysis may apply `str()` to: the algorithm, resource types and ids"""
    roots = []
    for pol in ([doc] + list(doc.get("policies") or []) if isinstance(doc, dict) and isinstance(doc.get("policies") or [], list) else [doc]):
        if not isinstance(pol, dict):
            continue
        roots.append(pol.get("algorithm"))
        rules = pol.get("rules")
        for rule in (rules if isinstance(rules, list) else []):
            res = rule.get("resource") if isinstance(rule, dict) else None
            if isinstance(res, dict):
                roots += [res.get("type"), res.get("id")]
    return roots


def check_translated_http(run: lib.Run, audit: dict) -> None:
    """tie by regeneration, the HTTP delivery path (fixed finding F20): `HTTPPolicySource.load` as written now, translated into Lean (plugin
    src_translation_http, shared with C10), is proved to take the response's own `.json()` fast path only when `_detect_format(filename=url,
    content_type=ct) == "json"` and otherwise to hand the body to `parse_policy_text(…, filename=url, content_type=ct)`
    (`http_load_parser_hints`, `http_load_parser_filename` in Run/C10_http_translated.lean).  The comparison of the translation with CPython is
    C10's (harness/http_tr.py); the delivery paths × documents of this check are the search for a failing input."""
    import http_tr
    tr = audit["facts"].get("translated_http")
    failed_extraction = tr.get("extraction_failed") if isinstance(tr, dict) else "no facts"
    ok, detail = lib.run_obligation("C10_http_translated")
    run.obligation(http_tr.OBLIGATION_C17, ok, "discharged" if ok else (str(failed_extraction) if failed_extraction else detail))
    if not ok:
        path = run.write_replay("obligation_http", {"what": "per-run obligation Rbacx/Run/C10_http_translated.lean no longer checks: the translated source of "
                                                    "HTTPPolicySource.load is not proved to honour the parser hints (http_load_parser_hints; fixed "
                                                    "finding F20) — the HTTP delivery paths of this run (documents as JSON and YAML through the faked "
                                                    "HTTP source, against the file / text paths) are the search for a failing input",
                                                    "extraction": failed_extraction, "lean": detail[-1500:]})
        run.extra.setdefault("translated_obligation_replay", path)


def check_translated_lint(run: lib.Run, audit: dict, violations: list) -> None:
    """tie by regeneration: `analyze_policy` (its first pass and the helpers `_actions` / `_resource_covers` / `_first_applicable_unreachable` as
    parameters) and `analyze_policyset` of dsl/lint.py as written now, translated into Lean (plugin src_translation_lint), are proved equal
    to the model's `Lint.analyzePolicy` / `Lint.analyzePolicyset` with the default constant "deny-overrides" (Run/C17_lint_translated.lean) — the
    model theorems `c17_lint_default`, `c17_lint_set_children_independent`, `c17_lint_overlap_iff` are about; the REAL functions are
    compared with the translation and with the model (helpers = the hand-written models) on the algorithm-dependent issues"""
    import copy
    import subprocess
    tr = audit["facts"].get("translated_lint")
    failed_extraction = tr.get("extraction_failed") if isinstance(tr, dict) else "no facts"
    ok, detail = lib.run_obligation("C17_lint_translated")
    run.obligation("C17_lint_translated: Generated.Src.lint_analyze_policy / lint_analyze_policyset = Lint.analyzePolicy / analyzePolicyset under the default "
                   "constant \"deny-overrides\", for every document, every first pass and every helper function", ok,
                   "discharged" if ok else (str(failed_extraction) if failed_extraction else detail))
    if not ok:
        path = run.write_replay("obligation_lint", {"what": "per-run obligation Rbacx/Run/C17_lint_translated.lean no longer checks: the translated source of "
                                                    "analyze_policy / analyze_policyset (dsl/lint.py) is not proved equal to the model functions "
                                                    "Lint.analyzePolicy / Lint.analyzePolicyset that theorems Rbacx.C17.c17_lint_default, "
                                                    "c17_lint_set_children_independent, c17_lint_overlap_iff are about (the linter comparisons of this run — "
                                                    "real code against the model, and algorithm-less against explicit deny-overrides — are the search "
                                                    "for a failing input)", "extraction": failed_extraction, "lean": detail[-1500:]})
        run.extra.setdefault("translated_obligation_replay", path)
    helpers = (tr.get("helpers") or {}) if isinstance(tr, dict) else {}
    okh, detailh = lib.run_obligation("C17_lint_helpers_translated", deps=["C17_lint_translated"])
    failed_h = "; ".join(f"{n}: {h['failed']}" for n, h in helpers.items() if "failed" in h)
    run.obligation("C17_lint_helpers_translated: Generated.Src.lint_resource_covers = Lint.resourceCovers, Src.lint_first_applicable_unreachable = "
                   "Lint.firstApplicableUnreachableG (over every _actions / _resource_covers), and analyze_policy / analyze_policyset with these helpers "
                   "plugged in = the model with the model helpers", okh, "discharged" if okh else (failed_h or str(failed_extraction or "") or detailh))
    if not okh:
        path = run.write_replay("obligation_lint_helpers", {"what": "per-run obligation Rbacx/Run/C17_lint_helpers_translated.lean no longer checks: the translated source of "
                                                            "_resource_covers / _first_applicable_unreachable (dsl/lint.py) is not proved equal to the model helpers "
                                                            "Lint.resourceCovers / Lint.firstApplicableUnreachableG (the linter comparisons of this run, real code "
                                                            "against the model with these helpers, are the search for a failing input)",
                                                            "extraction": failed_h or failed_extraction, "lean": detailh[-1500:]})
        run.extra.setdefault("translated_obligation_replay", path)
    cases = lint_cases(run)
    reals = []
    for fn, doc in cases:
        try:
            got = getattr(rlint, fn)(copy.deepcopy(doc))
            reals.append(("ok", [i for i in got if i.get("code") in LINT_ALGO_CODES]))
        except Exception as e:  # noqa: BLE001
            reals.append(("raised", type(e).__name__))
    cmds = [{"fn": fn, "args": [proto.enc(doc), None], "oracle": proto.build_oracle(*_lint_oracle_roots(doc))} for fn, doc in cases]
    wants = [proto.enc(w) if st == "ok" else None for st, w in reals]
    mbad = 0
    for (fn, doc), (st, want), w, m in zip(cases, reals, wants, proto.run_driver([{"cmd": "lint-model", **c} for c in cmds])):
        run.evaluations += 1
        if st != "ok":
            run.count("lint-model: python raised (not judged)")
            continue
        run.count("lint-model:" + fn + ":" + ("+".join(sorted({i["code"] for i in want})) or "none"))
        run.case(["lint", fn, doc], bool(want), None)
        if m != w:
            mbad += 1
            if mbad == 1:
                run.spec_failures.append({"part": "linter, algorithm-dependent issues", "function": fn, "document": doc, "impl": want,
                                          "model": proto.dec(m) if isinstance(m, list) else m,
                                          "spec": "the real linter does not report the POTENTIALLY_UNREACHABLE / OVERLAPPED_BY_DENY issues the model "
                                                  "Lint.analyzePolicy / analyzePolicyset (default deny-overrides, children analysed independently) says"})
    if failed_extraction or not (isinstance(tr, dict) and all(n in tr for n in ("analyze_policy", "analyze_policyset"))):
        return
    lines = [json.dumps(c) for c in cmds]
    p = subprocess.run(["lake", "env", "lean", "--run", "Rbacx/Run/SrcEvalLint.lean"], cwd=lib.LEAN, input="\n".join(lines) + "\n",
                       capture_output=True, text=True, timeout=900)
    outs = [ln for ln in p.stdout.split("\n") if ln]
    good = p.returncode == 0 and len(outs) == len(lines)
    bad = 0
    if good:
        for (fn, doc), (st, want), w, ln in zip(cases, reals, wants, outs):
            run.evaluations += 1
            if st != "ok":
                continue
            got = json.loads(ln)
            run.count("translated-lint-vs-python")
            if got.get("value") != w:
                bad += 1
                if bad == 1 and not mbad:
                    run.disagreements.append({"part": "translator", "what": f"translated {fn} (Generated.Src.lint_{fn}) and the Python function differ on the "
                                              "algorithm-dependent issues", "document": doc, "python": want,
                                              "translated": proto.dec(got["value"]) if "value" in got else got})
    run.obligation("translated analyze_policy / analyze_policyset evaluate like the Python functions on the algorithm-dependent issues "
                   "(translator + Model/PyLint.lean + the helper models of Model/Lint.lean vs CPython)", good and bad == 0,
                   f"agree on {len(cases)} documents" if good and bad == 0 else (f"{bad} of {len(cases)} differ" if good else (p.stderr or p.stdout)[-500:]))


def check_translated_schema(run: lib.Run, audit: dict) -> None:
    """C17's clause "a document is accepted exactly when it conforms to the bundled schema" refers to dsl/policy.schema.json: the file as it
    is written now is translated into Lean (plugin src_translation_schema) and the obligation Run/C06_schema.lean proves that what it
    accepts satisfies the engine's well-formedness hypothesis; the READING of the schema (translator + keyword meanings) is compared with the
    real jsonschema validator and validate_policy on every C06 run (`translated_schema_vs_jsonschema`), not here"""
    ok, detail, _ = c06.schema_obligation(run, audit)
    if not ok:
        path = run.write_replay("obligation_schema", {
            "what": "per-run obligation Rbacx/Run/C06_schema.lean no longer checks: the bundled schema as it is written now is not proved to "
                    "guarantee docWF (the engine's well-formedness hypothesis, Rbacx.C06.c06_total); the validation comparisons of this run "
                    "(bundled schema vs validate_policy on every delivery path) are the search for a failing input; C06 searches for a "
                    "schema-accepted document on which the engine raises", "lean": detail[-1500:]})
        run.extra.setdefault("translated_obligation_replay", path)


def check_detect(run: lib.Run):
    cases = detect_cases()
    cmds = [{"cmd": "detect-format", "fmt": f, "content_type": c, "filename": n} for f, c, n in cases]
    for (f, c, n), model in zip(cases, proto.run_driver(cmds)):
        got = rloader._detect_format(filename=n, content_type=c, fmt=f)
        run.count("detect:" + got)
        run.case(["detect", f, c, n], got == "yaml")
        if got != model:
            run.spec_failures.append({"part": "format detection", "fmt": f, "content_type": c, "filename": n, "impl": got,
                                      "documented": model, "spec": "priority explicit hint > content type > extension > JSON violated"})


# ---------------------------------------------------------------- B: every delivery path

def canon_unordered(v) -> str:
    """bit-exact on numbers, insensitive to dict key order (Python `==` on dicts ignores order)"""
    def norm(x):
        if isinstance(x, dict):
            return {"__dict__": sorted(((k, norm(y)) for k, y in x.items()), key=lambda kv: kv[0])}
        if isinstance(x, (list, tuple)):
            return [norm(y) for y in x]
        if isinstance(x, float) and x != x:
            return "<nan>"
        return proto.enc(x)
    return json.dumps(norm(v), sort_keys=True)


class FakeResp:
    def __init__(self, body: str, ctype: str | None, with_json: bool):
        self.status_code = 200
        self.headers = {"Content-Type": ctype} if ctype else {}
        self.text = body
        if with_json:
            self.json = lambda: json.loads(body)

    def raise_for_status(self):
        return None


class FakeS3:
    def __init__(self, body: bytes):
        self.body = body

    def get_object(self, Bucket, Key):  # noqa: N803
        return {"Body": io.BytesIO(self.body), "ETag": '"abc"'}

    def head_object(self, Bucket, Key):  # noqa: N803
        return {"ETag": '"abc"'}


def deliveries(doc: dict, tmp: str):
    """yield (path name, parsed object or exception) for every way the document can arrive"""
    jtxt = json.dumps(doc)
    ytxt = yaml.safe_dump(doc)

    def attempt(name, f):
        try:
            return name, f()
        except Exception as e:  # noqa: BLE001
            return name, e
    yield attempt("text/json/default", lambda: rloader.parse_policy_text(jtxt))
    yield attempt("text/json/fmt", lambda: rloader.parse_policy_text(jtxt, fmt="json", filename="x.yaml", content_type="text/yaml"))
    yield attempt("text/yaml/fmt", lambda: rloader.parse_policy_text(ytxt, fmt="YAML", filename="x.json", content_type="application/json"))
    yield attempt("text/yaml/ctype", lambda: rloader.parse_policy_text(ytxt, content_type="application/x-yaml", filename="x.json"))
    yield attempt("text/json/ctype", lambda: rloader.parse_policy_text(jtxt, content_type="application/json; charset=utf-8", filename="x.yml"))
    yield attempt("text/yaml/ext", lambda: rloader.parse_policy_text(ytxt, filename="dir/Policy.YML"))
    yield attempt("bytes/json", lambda: rloader.parse_policy_bytes(jtxt.encode(), filename="p.json"))
    yield attempt("bytes/yaml", lambda: rloader.parse_policy_bytes(ytxt.encode(), filename="p.yaml"))
    for ext, txt in ((".json", jtxt), (".yaml", ytxt), (".yml", ytxt), (".YAML", ytxt)):
        p = os.path.join(tmp, "pol" + ext)
        with open(p, "w", encoding="utf-8") as f:
            f.write(txt)
        yield attempt("file" + ext, lambda p=p: FilePolicySource(p).load())
    fake = types.ModuleType("requests")
    saved = sys.modules.get("requests")
    try:
        for name, body, ctype, wj in (("http/json+method", jtxt, "application/json", True), ("http/json/text", jtxt, "application/json", False),
                                      ("http/yaml/ctype", ytxt, "application/x-yaml", False), ("http/yaml/url", ytxt, None, False)):
            fake.get = lambda url, headers=None, timeout=None, body=body, ctype=ctype, wj=wj: FakeResp(body, ctype, wj)
            sys.modules["requests"] = fake
            url = "http://h/p.yaml" if name == "http/yaml/url" else "http://h/p"
            yield attempt(name, lambda url=url: HTTPPolicySource(url).load())
    finally:
        if saved is not None:
            sys.modules["requests"] = saved
        else:
            sys.modules.pop("requests", None)
    yield attempt("s3/json", lambda: S3PolicySource("s3://b/p.json", client=FakeS3(jtxt.encode()), validate_schema=False).load())
    yield attempt("s3/yaml", lambda: S3PolicySource("s3://b/dir/p.yml", client=FakeS3(ytxt.encode()), validate_schema=False).load())


def _hint_doc(lit) -> dict:
    return {"algorithm": "deny-overrides", "rules": [{"id": "r", "effect": "permit", "actions": ["read"], "resource": {"type": "doc"},
                                                       "condition": {"==": [{"attr": "context.n"}, lit]}}]}


# JSON texts that a YAML parser reads DIFFERENTLY from a JSON parser (PyYAML: a float needs a dot; JSON escapes; duplicate-looking
# scalars) next to texts both read alike: which parser gets the text is decided by the hints alone, on every path
HINT_TEXTS = [json.dumps(_hint_doc(1e16)), json.dumps(_hint_doc(1e-07)), json.dumps(_hint_doc(100.0)).replace("100.0", "1e2"),
              json.dumps(_hint_doc(-1e+22)), json.dumps(_hint_doc(1.5)), json.dumps(_hint_doc("x")), json.dumps(_hint_doc(7)),
              json.dumps(_hint_doc("\u00e9\t")), json.dumps(_hint_doc(None)), json.dumps(_hint_doc([1e16, "1e16"]))]
HINT_COMBOS = [("application/x-yaml", "http://h/p"), ("text/yaml; charset=utf-8", "http://h/p.json"), (None, "http://h/p.yaml"),
               (None, "http://h/dir/p.YML"), ("application/json", "http://h/p.yaml"), (None, "http://h/p"), ("text/plain", "http://h/p.yml")]


def same_text_same_hints(run: lib.Run) -> None:
    """ONE text, ONE set of hints, every path: which parser reads a body is decided by (explicit format, content type, name) — C17: "format
    chosen by explicit hint, then content type, then file extension, else JSON" — so a body delivered over HTTP with a content type / URL
    must come out as `parse_policy_text` makes it under the same content type / name, whether or not the response object also offers its
    own `.json()` (every real `requests.Response` does), and a file / an S3 object of that name likewise.  The texts are JSON texts that
    a YAML parser reads differently (`1e+16` is a float to json and a string to PyYAML) next to harmless ones."""
    fake = types.ModuleType("requests")
    saved = sys.modules.get("requests")

    def outcome(f):
        try:
            return canon_unordered(f())
        except Exception as e:  # noqa: BLE001
            return "raised:" + type(e).__name__
    try:
        with tempfile.TemporaryDirectory() as tmp:
            for ti, text in enumerate(HINT_TEXTS):
                for ctype, url in HINT_COMBOS:
                    want = outcome(lambda: rloader.parse_policy_text(text, filename=url, content_type=ctype))
                    # … and parse_policy_text itself hands the WHOLE text to the parser of the selected format (which format that is
                    # is tied by the detection theorems + check_detect): the parsers applied by the harness itself, independently
                    import yaml as _yaml
                    fmt_sel = rloader._detect_format(filename=url, content_type=ctype)
                    independent = outcome(lambda: (_yaml.safe_load(text) if fmt_sel == "yaml" else json.loads(text)))
                    run.count(f"same-text-same-hints:parser-{fmt_sel}")
                    if want != independent:
                        run.spec_failures.append({"part": "same-text-same-hints", "text": text, "content_type": ctype, "name": url,
                                                  "path": "parse_policy_text", "selected_format": fmt_sel,
                                                  "delivered": want[:600] if isinstance(want, str) else want,
                                                  "the_selected_parser_applied_to_the_text": independent[:600] if isinstance(independent, str) else independent,
                                                  "spec": "parse_policy_text did not read the text with the parser of the format its hints select "
                                                          "(yaml.safe_load for YAML, json.loads for JSON): the same document means another policy"})
                        return
                    got = {}
                    for wj in (True, False):
                        fake.get = lambda u, headers=None, timeout=None, wj=wj: FakeResp(text, ctype, wj)
                        sys.modules["requests"] = fake
                        got["http, response " + ("with" if wj else "without") + " .json()"] = outcome(lambda: HTTPPolicySource(url).load())
                    if ctype is None:
                        name = url.rsplit("/", 1)[-1]
                        fp = os.path.join(tmp, f"{ti}-{name}")
                        with open(fp, "w", encoding="utf-8") as f:
                            f.write(text)
                        want_file = outcome(lambda: rloader.parse_policy_text(text, filename=fp))
                        got_file = outcome(lambda: FilePolicySource(fp).load())
                        got_s3 = outcome(lambda: S3PolicySource("s3://b/" + name, client=FakeS3(text.encode()), validate_schema=False).load())
                        want_s3 = outcome(lambda: rloader.parse_policy_bytes(text.encode(), filename=name))
                        if got_file != want_file:
                            got["file " + name] = got_file
                            want = want_file
                        if got_s3 != want_s3:
                            got["s3 key " + name] = got_s3
                            want = want_s3
                    for path, g in got.items():
                        run.case(["same-text-same-hints", ti, ctype, url, path], True)
                        run.count("same-text-same-hints")
                        if g != want:
                            run.spec_failures.append({"part": "same-text-same-hints", "text": text, "content_type": ctype, "name": url, "path": path,
                                                      "delivered": g[:600] if isinstance(g, str) else g,
                                                      "parse_policy_text_under_the_same_hints": want[:600] if isinstance(want, str) else want,
                                                      "spec": "the same text under the same format hints (content type, name) is read by another "
                                                              "parser on this path than on parse_policy_text: the policies differ"})
                            return
    finally:
        if saved is not None:
            sys.modules["requests"] = saved
        else:
            sys.modules.pop("requests", None)


class _Resp304:
    status_code = 304
    text = ""

    def __init__(self, tag):
        self.headers = {"ETag": tag}

    def raise_for_status(self):
        return None


def validating_sources(run: lib.Run, docs: list, tmp: str) -> None:
    """sources built with validate_schema=True, over short load SEQUENCES (HTTP: 200 with an ETag, then the conditional request answered
    304, then 200 again): 'accepting' a document = handing it out.  A document the bundled schema rejects is never handed out, on any
    load of the sequence; one that conforms is handed out on every load."""
    for k, doc in enumerate(docs):
        if not isinstance(doc, dict) or not doc:
            continue
        ok = c06.schema_ok(doc)
        want = canon_unordered(json.loads(json.dumps(doc)))
        jtxt, ytxt = json.dumps(doc), yaml.safe_dump(doc)
        seqs = []
        fake = types.ModuleType("requests")
        saved = sys.modules.get("requests")
        try:
            for name, body, ctype, wj in (("http/json+method", jtxt, "application/json", True), ("http/json/text", jtxt, "application/json", False),
                                          ("http/yaml/ctype", ytxt, "application/x-yaml", False)):
                tag = f'"v{k}"'

                def get(url, headers=None, timeout=None, body=body, ctype=ctype, wj=wj, tag=tag):
                    if (headers or {}).get("If-None-Match") == tag:
                        return _Resp304(tag)
                    r = FakeResp(body, ctype, wj)
                    r.headers["ETag"] = tag
                    return r
                fake.get = get
                sys.modules["requests"] = fake
                src = HTTPPolicySource("http://h/p", validate_schema=True)
                outs = []
                for _ in range(3):
                    try:
                        outs.append(src.load())
                    except Exception as e:  # noqa: BLE001
                        outs.append(e)
                seqs.append((name + " ×3 (200, 304, …)", outs))
        finally:
            if saved is not None:
                sys.modules["requests"] = saved
            else:
                sys.modules.pop("requests", None)
        p = os.path.join(tmp, "validating.json")
        with open(p, "w", encoding="utf-8") as f:
            f.write(jtxt)
        for name, mk in (("file", lambda: FilePolicySource(p, validate_schema=True)),
                         ("s3", lambda: S3PolicySource("s3://b/p.json", client=FakeS3(jtxt.encode()), validate_schema=True))):
            src = mk()
            outs = []
            for _ in range(2):
                try:
                    outs.append(src.load())
                except Exception as e:  # noqa: BLE001
                    outs.append(e)
            seqs.append((name + " ×2", outs))
        for name, outs in seqs:
            run.evaluations += 1
            run.count("validating-source:" + ("conforming" if ok else "rejected"))
            bad = None
            for i, o in enumerate(outs):
                handed_out = not isinstance(o, Exception)
                try:
                    same = handed_out and canon_unordered(o) == want
                except TypeError:
                    same = False
                if not ok and same:
                    bad = f"load #{i + 1} handed out a document the bundled schema rejects"
                elif ok and not same:
                    bad = f"load #{i + 1} did not hand out a conforming document ({type(o).__name__ if isinstance(o, Exception) else 'another object'})"
                if bad:
                    break
            if bad:
                run.spec_failures.append({"part": "validating source", "path": name, "document": doc, "bundled_schema_accepts": ok,
                                          "loads": [type(o).__name__ if isinstance(o, Exception) else o for o in outs], "spec": bad})
                return


def cli_status(argv: list[str], stdin_text: str | None = None) -> int | str:
    out, err = io.StringIO(), io.StringIO()
    saved_stdin = sys.stdin
    try:
        if stdin_text is not None:
            sys.stdin = io.StringIO(stdin_text)
        with contextlib.redirect_stdout(out), contextlib.redirect_stderr(err):
            return rcli.main(argv)
    except SystemExit as e:
        return f"SystemExit:{e.code}"
    except Exception as e:  # noqa: BLE001
        return "raised:" + type(e).__name__
    finally:
        sys.stdin = saved_stdin


def check_paths_and_tools(run: lib.Run, audit: dict, scale: int = 1):
    quick = run.tier == "quick"
    r = random.Random(run.seed * 2017 + 17)
    n = (120 if quick else 1200) * scale
    docs = []
    for _ in range(n):
        base = gen.gen_policyset(r, False, r.random() < 0.2) if r.random() < 0.35 else gen.gen_policy(r, False, r.random() < 0.2)
        docs.append(c06.mutate(r, base) if r.random() < 0.45 else base)
        if r.random() < 0.3:
            # right after a document, its bool↔number twin (equal under ==, another JSON typing): a verdict is about the document
            # at hand, not about one that compared equal to it earlier in the process
            tw = c06.bool_number_twin(r, docs[-1])
            if tw is not None:
                docs.append(tw)
    for a, b in c06.twin_pairs():
        docs += [a, b] if r.random() < 0.5 else [b, a, b]
    cli_cases = []
    with tempfile.TemporaryDirectory() as tmp:
        validating_sources(run, docs[:: (2 if quick else 4)], tmp)
        for doc in docs:
            if not isinstance(doc, dict):
                continue
            want = canon_unordered(json.loads(json.dumps(doc)))
            bad = []
            delivered = []
            for name, got in deliveries(doc, tmp):
                run.count("delivery")
                try:
                    same = not isinstance(got, Exception) and canon_unordered(got) == want
                except TypeError:
                    same = False
                if not same:
                    bad.append((name, repr(got)[:200]))
                delivered.append(got)
            if not bad and len(cli_cases) % 3 == 0:
                # the holders of the delivered objects edit them in place (an engine's owner adds a rule, a tool strips fields): every path
                # then delivers the document again — what arrives is the document, not what somebody made of an earlier delivery
                for got in delivered:
                    if isinstance(got, dict):
                        for key in list(got):
                            v = got[key]
                            if isinstance(v, list):
                                v.append({"id": "edited-by-a-holder", "effect": "permit", "actions": ["*"], "resource": {"type": "*"}})
                            got[key] = v if isinstance(v, list) else "edited-by-a-holder"
                for name, got in deliveries(doc, tmp):
                    run.count("delivery-after-holders-edited")
                    try:
                        same = not isinstance(got, Exception) and canon_unordered(got) == want
                    except TypeError:
                        same = False
                    if not same:
                        bad.append((name + " (again, after the objects delivered before were edited in place)", repr(got)[:200]))
            run.case(["doc", doc], not bad and bool(doc.get("rules") or doc.get("policies")))
            if bad:
                run.spec_failures.append({"part": "delivery paths", "document": doc, "deviating_paths": bad,
                                          "spec": "the same document parsed to a different object (or failed) on some path"})
                continue
            # C: validator and CLI
            verdict = c06.schema_ok(doc)
            lib_verdict = c06.validator_ok(doc)
            run.count("validator:" + ("accepts" if lib_verdict else "rejects"))
            if lib_verdict != verdict:
                run.spec_failures.append({"part": "validator", "document": doc, "bundled_schema_accepts": verdict, "validate_policy_accepts": lib_verdict,
                                          "documents_validated_before_in_this_process": run.hist.get("validator:accepts", 0) + run.hist.get("validator:rejects", 0) - 1,
                                          "spec": "validate_policy does not accept the document exactly when it conforms to the bundled schema"})
                continue
            is_set = "policies" in doc and isinstance(doc.get("policies"), list)
            child_verdicts = [c06.schema_ok(c) for c in doc["policies"]] if is_set else None
            for ext, txt in ((".json", json.dumps(doc)), (".yaml", yaml.safe_dump(doc))):
                p = os.path.join(tmp, "cli" + ext)
                with open(p, "w", encoding="utf-8") as f:
                    f.write(txt)
                for command in ("validate", "check"):
                    for ps in ((False, True) if is_set else (False,)):
                        for strict in (False, True):
                            argv = [command, "--policy", p] + (["--policyset"] if ps else []) + (["--strict"] if strict and command == "check" else [])
                            st = cli_status(argv)
                            verdicts = child_verdicts if ps else [verdict]
                            try:
                                issues = len(list(rlint.analyze_policyset(doc) if ps else rlint.analyze_policy(doc))) if all(verdicts) and command == "check" else 0
                            except Exception:  # noqa: BLE001
                                issues = 0
                            cli_cases.append((doc, argv, st, command, strict and command == "check", verdicts, issues))
    cmds = [{"cmd": "cli-status", "command": c, "strict": s, "validator": True, "verdicts": v, "lint_issues": i}
            for _, _, _, c, s, v, i in cli_cases]
    for (doc, argv, st, c, s, v, i), model in zip(cli_cases, proto.run_driver(cmds)):
        run.count(f"cli:{c}:{st}")
        run.evaluations += 1
        if st != model:
            run.spec_failures.append({"part": "CLI status", "document": doc, "argv": argv[:1] + ["--policy", "<file>"] + argv[3:], "impl_status": st,
                                      "documented_status": model, "schema_verdicts": v, "lint_issues": i,
                                      "spec": "validate/check status does not reflect the bundled schema's verdict"})


# ---------------------------------------------------------------- D: default algorithm

UNIFORM = {"interp": "deny-overrides", "set": "deny-overrides", "compiler": "deny-overrides", "lint": "deny-overrides"}


def strip_algorithm(r: random.Random, pol: dict, top: bool = True) -> dict:
    p = dict(pol)
    k = r.random()
    if top and "policies" in p and p.get("policies") and r.random() < 0.5:
        pass        # a set that names its algorithm around children that do not: each child still defaults on its own
    elif k < 0.6:
        p.pop("algorithm", None)
    elif k < 0.8:
        p["algorithm"] = None
    else:
        p["algorithm"] = ""
    if "policies" in p:
        p["policies"] = [strip_algorithm(r, c, False) if isinstance(c, dict) and r.random() < 0.7 else c for c in p["policies"]]
    return p


def is_f1(pol: dict, impl: dict, model_uniform: dict, model_actual: dict, consts: dict) -> bool:
    """signature of known finding F1 (see known_findings.json): algorithm-less single policy on the engine, and the defect-faithful
    model (compiler default = permit-overrides, everything else identical) reproduces the engine's whole answer exactly: a permit
    beats a deny of the selected tier, or the first instead of the last applicable permit (hence its obligations) is reported"""
    if "policies" in pol or pol.get("algorithm") or consts.get("compiler") != "permit-overrides":
        return False
    if not ("ok" in impl and "ok" in model_uniform and "ok" in model_actual):
        return False
    i, u, a = impl["ok"], model_uniform["ok"], model_actual["ok"]
    keys = ("allowed", "effect", "reason", "rule_id", "obligations", "challenge")
    same_as_defect_model = all(i[k] == a[k] for k in keys)
    differs_from_uniform = any(i[k] != u[k] for k in keys)
    return same_as_defect_model and differs_from_uniform


def check_defaults(run: lib.Run, audit: dict, violations: list, scale: int = 1):
    consts = audit["facts"]["consts"]
    ok, detail = lib.run_obligation("C17_defaults")
    findings = {f["id"]: f for f in lib.load_findings() if f["property"] == "C17" and f["status"] == "known"}
    f1_seen = False
    # every path on the two-rule witness (this is also the search for a failing input when the obligation is false)
    w = json.load(open(os.path.join(lib.VERIF, "corpus", "C17_F1_compiler_default.json")))
    env = {"subject": {"id": "u", "roles": [], "attrs": {}}, "action": "read", "resource": {"type": "doc", "id": "1", "attrs": {}}, "context": {}}
    paths = {
        "reference evaluator": rpolicy.evaluate(w["policy"], env)["decision"],
        "set child": rset.decide({"policies": [w["policy"]]}, env)["decision"],
        "set of single-rule children": rset.decide({"policies": [{"rules": [r]} for r in w["policy"]["rules"]]}, env)["decision"],
        "child of a permit-overrides set": rset.decide({"algorithm": "permit-overrides", "policies": [w["policy"]]}, env)["decision"],
        "child of a first-applicable set": rset.decide({"algorithm": "first-applicable", "policies": [w["policy"]]}, env)["decision"],
        "engine (child of a permit-overrides set)": real.run_guard({"algorithm": "permit-overrides", "policies": [w["policy"]]}, w["request"], {})["ok"]["effect"],
        "compiled": rcompiler.compile(w["policy"])(env)["decision"],
        "engine": real.run_guard(w["policy"], w["request"], {})["ok"]["effect"],
        "engine (set)": real.run_guard({"policies": [w["policy"]]}, w["request"], {})["ok"]["effect"],
    }
    _p = {"id": "p", "effect": "permit", "actions": ["read"], "resource": {"type": "doc"}}
    _d = {"id": "d", "effect": "deny", "actions": ["read"], "resource": {"type": "doc"}}
    _q = {"id": "q", "effect": "permit", "actions": ["read", "write"], "resource": {"type": "doc", "id": "1"}}
    lint_issues, lint_explicit = [], []
    for rules in ([_p, _d], [_d, _p], [_d, _q, _p], [_q, _d]):
        explicit = sorted(str(i.get("code")) for i in rlint.analyze_policy({"algorithm": "deny-overrides", "rules": rules}))
        # no algorithm named = absent, null or empty (a blank `algorithm:` line in YAML arrives as null)
        for variant in ({}, {"algorithm": None}, {"algorithm": ""}):
            lint_issues.append(sorted(str(i.get("code")) for i in rlint.analyze_policy({**variant, "rules": rules})))
            lint_explicit.append(explicit)
    # the same through analyze_policyset: a child that names no algorithm is analysed with deny-overrides whatever the algorithm of the
    # enclosing set (absent, null, each of the three) — the evaluators give such a child deny-overrides, the linter's overlap analysis
    # must speak about the same semantics; next to an explicit child, position and siblings varied
    def _codes(issues):
        return sorted((str(i.get("code")), i.get("policy_index")) for i in issues)
    for rules in ([_p, _d], [_d, _p], [_d, _q, _p], [_q, _d]):
        for set_algo in ({}, {"algorithm": None}, {"algorithm": "deny-overrides"}, {"algorithm": "permit-overrides"}, {"algorithm": "first-applicable"},
                         {"algorithm": "Permit-Overrides"}):
            for variant in ({}, {"algorithm": None}, {"algorithm": ""}):
                for before in ([], [{"algorithm": "first-applicable", "rules": [_q]}]):
                    doc = {**set_algo, "policies": before + [{**variant, "rules": rules}]}
                    ref = {**set_algo, "policies": before + [{"algorithm": "deny-overrides", "rules": rules}]}
                    lint_issues.append(_codes(rlint.analyze_policyset(doc)))
                    lint_explicit.append(_codes(rlint.analyze_policyset(ref)))
                    run.evaluations += 1
    for name, dec in paths.items():
        run.count(f"default:{name}:{dec}")
        run.evaluations += 1
        if dec != "deny":
            if name in ("compiled", "engine") and "F1" in findings and consts.get("compiler") == "permit-overrides":
                f1_seen = True
            else:
                path = run.write_replay("default", {"what": f"no algorithm named: an applicable deny does not win on the path '{name}'", "case": {**w, "paths": paths}})
                violations.append((path, True))
    if lint_issues != lint_explicit:
        path = run.write_replay("default_lint", {"what": "linter analyses an algorithm-less policy (stand-alone or as a child of a set) differently from an explicit deny-overrides one",
                                                 "case": {"default": lint_issues, "explicit": lint_explicit}})
        violations.append((path, True))
    # random algorithm-less documents on the engine vs the model under uniform defaults
    r = random.Random(run.seed * 4099 + 171)
    cases = []
    for pol, req, cfg in gc.random_cases(run.seed * 4099 + 17, (1500 if run.tier == "quick" else 15000) * scale, sets=0.4, nested=0.3, plain_cfg=True):
        cases.append((strip_algorithm(r, pol), req, cfg))
    res_u = gc.run_batch(cases, UNIFORM, with_impl_spec=False)
    res_a = gc.run_batch(cases, consts, with_impl_spec=False) if consts != UNIFORM else res_u
    for (pol, req, cfg, out, mu, _), (_, _, _, _, ma, _) in zip(res_u, res_a):
        run.count("noalgo:" + gc.outcome_class(out))
        run.case([pol, req, cfg], "ok" in out and out["ok"]["reason"] in ("matched", "explicit_deny"), {"policy": pol, "request": req, "impl": out})
        proj = (lambda o: ("raised",) if "raised" in o else (o["ok"]["effect"], o["ok"]["reason"] == "obligation_failed"))
        if proj(out) != proj(mu):
            case = {"policy": pol, "request": req, "cfg": cfg, "impl": out, "model_uniform_defaults": mu, "model_extracted_defaults": ma}
            if "F1" in findings and is_f1(pol, out, mu, ma, consts):
                f1_seen = True
                run.count("noalgo:F1-signature")
            elif proj(out) != proj(ma):
                run.disagreements.append(case)
            else:
                run.spec_failures.append({**case, "part": "default algorithm", "spec": "an algorithm-less document is not evaluated with deny-overrides"})
    only_f1 = f1_seen and not any(k != "compiler" and v != "deny-overrides" for k, v in consts.items())
    run.obligation("C17_defaults: DefaultsUniform Generated.consts", ok,
                   "discharged" if ok else "false on this tree: " + json.dumps(consts), known="F1" if only_f1 else None)
    if f1_seen:
        run.known.append("F1 compiler.compile() defaults to permit-overrides: an algorithm-less single policy lets a permit beat a deny on the engine "
                         "(witness corpus/C17_F1_compiler_default.json)")
    elif not ok and not violations:
        path = run.write_replay("obligation", {"what": "per-run obligation Rbacx/Run/C17_defaults.lean (DefaultsUniform Generated.consts) no longer checks",
                                               "extracted": consts, "lean": detail})
        violations.append((path, False))


def check(run: lib.Run, audit: dict) -> int:
    run.rule = ("A: all 7×9×11 (fmt, content-type, filename) combinations; A': command × --policyset × --strict × 11 document shapes × validator outcome per "
                "validated value (ok / ValidationError / RuntimeError / RecursionError / KeyboardInterrupt / TypeError) × lint outcome, read/parse failures × "
                "paths, hint combinations × parser outcomes, main × argv × parse_args outcome × command outcome, + seeded random combinations: real "
                "functions with stub collaborators vs model vs translation; A'': rule lists from a pool of effect × actions × resource shapes, as a policy and as a "
                "child of a set, under 12 ways of (not) naming the algorithm, + grammar documents: real linter vs model vs translation on the "
                "POTENTIALLY_UNREACHABLE / OVERLAPPED_BY_DENY issues; B/C: grammar documents and 14 kinds of single-point mutations, each as JSON and "
                "YAML through 20 delivery paths (parse_policy_text/bytes with conflicting hints, FilePolicySource .json/.yaml/.yml/.YAML, faked HTTP ×4, "
                "faked S3 ×2) and the CLI (validate/check × file format × --policyset × --strict); D: the 2-rule witness on 6 paths + linter, random "
                "algorithm-less (absent/null/empty, at any level) documents on the engine. non-trivial = document with rules that parsed identically / "
                "a deciding rule")
    run.assumptions = ["PyYAML and json parse equivalent renderings to equal objects; jsonschema implements the schema (oracles)",
                       "documents without NaN/Inf literals for the equality comparison"]
    if not audit["ok"]:
        raise lib.CheckError(f"Lean build/audit failed at {audit['stage']}: {audit.get('log') or audit.get('forbidden') or audit.get('bad_axioms')}")
    violations: list = []
    check_translated_detect(run, audit, violations)
    check_translated_cli(run, audit, violations)
    check_translated_lint(run, audit, violations)
    check_translated_schema(run, audit)
    check_translated_http(run, audit)
    check_detect(run)
    check_paths_and_tools(run, audit)
    if not run.spec_failures:
        same_text_same_hints(run)
    check_defaults(run, audit, violations, scale=run.boost)
    if run.disagreements and not run.spec_failures and not violations:
        check_defaults(run, audit, violations, scale=4)
    if run.spec_failures:
        path = run.write_replay("spec", {"what": "C17 violated", "case": run.spec_failures[0], "count": len(run.spec_failures)})
        violations.append((path, True))
    elif run.disagreements and not violations:
        path = run.write_replay("correspondence", {"what": "model and engine disagree on algorithm-less documents; theorems Rbacx.C17.* no longer speak "
                                                   "about this code", "first": run.disagreements[0], "count": len(run.disagreements)})
        violations.append((path, False))
    elif run.extra.get("translated_obligation_replay") and not violations:
        violations.append((run.extra["translated_obligation_replay"], False))
    return run.finish(audit, violations)


def replay(run: lib.Run, audit: dict, path: str) -> int:
    rp = json.load(open(path))
    c = rp.get("case") or rp.get("first")
    if c is None:
        print("recorded:", json.dumps(rp, default=str)[:3000])
        return 0
    if "function" in c and "collaborator_outcomes" in c:
        import clicases
        ext = {n: [[a, tuple(o)] for a, o in rows] for n, rows in c["collaborator_outcomes"].items()}
        print("real function now:", clicases.run_real(c["function"], c["arguments"], ext))
        print("model now:", proto.run_driver([{"cmd": "cli-model", **json.loads(clicases.line(c["function"], c["arguments"], ext))}])[0])
    if "request" in c and "policy" in c:
        print("engine now:", real.run_guard(c["policy"], c["request"], c.get("cfg") or {}))
    print("recorded:", json.dumps(c, default=str)[:1500])
    return 0
