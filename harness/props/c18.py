"""C18 — role expansion = reflexive-transitive closure, used as is.

Resolver part: the real `rbacx.core.roles.StaticRoleResolver.expand` against the model's worklist
(`Rbacx.Roles.expandOpt`) and, independently, against the closure verdict `Rbacx.Spec.Roles.isClosureOf`
evaluated by the Lean driver on the implementation's own output (strictly increasing in code-point
order, contains the roots, closed under parents, nothing beyond the naive closure).

Engine part: the real `Guard` with the real resolver (sync, behind an async wrapper), a raising resolver
(sync / async) or none, policies whose conditions read `subject.roles`, and a recording logger sink:
(allowed, effect, audit `env.subject.roles`) against the model's `guard` command fed with the model's
expansion; spec: the roles in the audit record are the closure of the subject's own roles (own roles on
failure), and the decision is the one the closure dictates.

Tie by regeneration: `StaticRoleResolver.__init__` / `.expand` are translated from the current source text into
`Rbacx.Generated.Src.roles_init_graph` / `Src.roles_expand` (a FUEL-bounded `while`; harness/pytolean_loops.py, plugin
`extractors/src_translation_roles.py`); the per-run obligation `Run/C18_translated.lean` proves that an explicit budget always
suffices (termination, proved of the translated source) and that the result is then the model's `Roles.expand`; the translation
is evaluated against the real resolver (`translated_vs_python`)."""
from __future__ import annotations

import contextlib
import copy
import itertools
import json
import random
import signal

import lib
import proto
import real
from rbacx.core.roles import StaticRoleResolver

NAMES = ["a", "b", "c", "d"]
ABSENT = "z"          # a role / parent that is never a key of an enumerated graph
VARIANTS = ["full", "sparse", "dup", "ext"]

# names whose order separates code-point order from case-insensitive, locale, UTF-16 and length orders
ODD_NAMES = ["admin", "Admin", "ADMIN", "user", "User", "\u00e9diteur", "editeur", "Zeta", "zeta", "\u03a9", "\u03c9", "a", "B", "_x",
             "10", "9", "r\u00f6le", "role", "role ", "z\u0301", "\u017a", "\uffff", "\U00010000", "\U0001f600", "", " ", "ab", "a-b", "aB"]


NONTERM = "expand does not terminate (time budget exceeded)"


class Timeout(Exception):
    pass


@contextlib.contextmanager
def deadline(seconds: float):
    """Termination is part of the property: a call that exceeds the budget is reported, not waited for."""
    def _raise(signum, frame):
        raise Timeout()
    old = signal.signal(signal.SIGALRM, _raise)
    signal.setitimer(signal.ITIMER_REAL, seconds)
    try:
        yield
    finally:
        signal.setitimer(signal.ITIMER_REAL, 0)
        signal.signal(signal.SIGALRM, old)


# ----------------------------------------------------------------------------- generators


def variant(adj: dict, v: str) -> dict | None:
    """`adj`: every name → its parents.  Returns the graph dict handed to the resolver (None = same as another variant)."""
    has_edges = any(adj.values())
    if v == "full":
        return {k: list(ps) for k, ps in adj.items()}
    if v == "sparse":                      # nodes without parents are not keys ⇒ parents absent from the keys
        if all(adj.values()):
            return None
        return {k: list(ps) for k, ps in adj.items() if ps}
    if not has_edges:
        return None
    if v == "dup":                         # duplicate parents, second copy in the opposite order
        return {k: list(ps) + list(ps)[::-1] for k, ps in adj.items()}
    if v == "ext":                         # a parent that occurs nowhere else, reversed key insertion order
        return {k: [ABSENT] + list(ps) for k, ps in reversed(list(adj.items())) if ps}
    raise ValueError(v)


def enum_graphs(n: int, variants=VARIANTS):
    names = NAMES[:n]
    for mask in range(1 << (n * n)):
        adj = {names[i]: [names[j] for j in range(n) if mask >> (i * n + j) & 1] for i in range(n)}
        for v in variants:
            g = variant(adj, v)
            if g is not None:
                yield g, f"n{n}/mask{mask}/{v}"


def role_lists(n: int, maxlen: int = 3) -> list:
    alpha = NAMES[:n] + [ABSENT]
    out: list = [None]
    for k in range(maxlen + 1):
        out.extend([list(t) for t in itertools.product(alpha, repeat=k)])
    return out


def random_graph(r: random.Random) -> tuple[dict, list]:
    pool = r.sample(ODD_NAMES, r.randrange(1, 13)) if r.random() < 0.7 else [f"r{i}" for i in range(r.randrange(1, 13))]
    shape = r.random()
    g: dict = {}
    if shape < 0.1:      # one long chain, optionally closed into a cycle
        for i in range(len(pool) - 1):
            g[pool[i]] = [pool[i + 1]]
        if r.random() < 0.5:
            g[pool[-1]] = [pool[0]]
    elif shape < 0.15:   # complete graph incl. self-loops
        g = {k: list(pool) for k in pool}
    else:
        dens = r.choice([0.08, 0.15, 0.3, 0.6])
        for k in pool:
            if r.random() < 0.8:
                ps = [p for p in pool if r.random() < dens]
                if r.random() < 0.2:
                    ps += [r.choice(pool)] * r.randrange(1, 3)          # duplicates
                if r.random() < 0.15:
                    ps.append(r.choice(ODD_NAMES + ["ghost"]))          # parent that may be no key
                r.shuffle(ps)
                g[k] = ps
    extra = [x for x in ODD_NAMES if x not in pool][:3] + ["ghost"]
    return g, pool + extra


def random_roles(r: random.Random, names: list):
    k = r.random()
    if k < 0.04:
        return None
    if k < 0.08:
        return []
    rs = [r.choice(names) for _ in range(r.randrange(1, 6))]
    if r.random() < 0.2:
        rs.append(rs[0])
    return rs


# ----------------------------------------------------------------------------- resolver part


def impl_expand(graph: dict, roles, resolver=None):
    try:
        return {"ok": (resolver or StaticRoleResolver(graph)).expand(roles)}
    except Timeout:
        raise
    except Exception as e:  # noqa: BLE001
        return {"raised": type(e).__name__}


def wire_graph(graph: dict) -> list:
    return [[k, list(ps)] for k, ps in graph.items()]


def is_str_list(x) -> bool:
    return isinstance(x, list) and all(isinstance(s, str) for s in x)


def graph_flags(graph: dict) -> tuple[bool, bool]:
    """(has a self-loop, has a cycle of length ≥ 2) — for the outcome histogram only"""
    self_loop = any(k in ps for k, ps in graph.items())
    color: dict = {}

    def dfs(root) -> bool:
        # iterative (the deep-chain corpus is far deeper than Python's recursion limit)
        color[root] = 1
        stack = [(root, iter([v for v in graph.get(root, []) if v != root]))]
        while stack:
            u, it = stack[-1]
            for v in it:
                c = color.get(v, 0)
                if c == 1:
                    return True
                if c == 0:
                    color[v] = 1
                    stack.append((v, iter([w for w in graph.get(v, []) if w != v])))
                    break
            else:
                color[u] = 2
                stack.pop()
        return False
    cyc = any(color.get(k, 0) == 0 and dfs(k) for k in list(graph))
    return self_loop, cyc


def process_jobs(jobs, max_keys: int = 10**9) -> dict:
    """jobs: iterable of (graph, label, [roles…]).  Runs the real resolver in-process and one `roles-batch` driver
    command per graph.  Pure (no Run object) so that it can also run in a worker process; `merge` folds the result in."""
    res: dict = {"n": 0, "nontrivial": 0, "keys": [], "hist": {}, "samples": [], "spec_failures": [], "disagreements": [],
                 "model_rejected": []}
    hist = res["hist"]
    cmds, metas = [], []
    for graph, label, rlists in jobs:
        self_loop, cyc = graph_flags(graph)
        gcls = ("cyclic" if cyc else "acyclic") + ("+selfloop" if self_loop else "")
        k_inh, k_not = "inherits/" + gcls, "nothing-inherited/" + gcls
        items: list = []
        cur = None
        resolver = StaticRoleResolver(graph)
        try:
            with deadline(5.0):
                for idx, roles in enumerate(rlists):
                    cur = roles
                    res["n"] += 1
                    out = impl_expand(graph, roles, resolver)
                    o = out.get("ok")
                    if not is_str_list(o):
                        hist["impl-raised-or-malformed"] = hist.get("impl-raised-or-malformed", 0) + 1
                        res["spec_failures"].append({"part": "resolver", "label": label, "graph": wire_graph(graph), "roles": roles,
                                                     "impl": out, "why": "expand raised or did not return a list of str"})
                        continue
                    items.append([roles, o])
                    if roles is None:
                        cls = "roles=None"
                    elif not roles:
                        cls = "roles=[]"
                    elif len(o) > len(set(roles)):
                        cls = k_inh
                        res["nontrivial"] += 1
                        if len(res["keys"]) < max_keys:
                            res["keys"].append(f"{label}|{idx}|{roles}")
                        if cyc and len(res["samples"]) < 3:
                            res["samples"].append({"graph": graph, "roles": roles, "impl": o})
                    else:
                        cls = k_not
                    hist[cls] = hist.get(cls, 0) + 1
        except Timeout:
            hist["impl-timeout"] = hist.get("impl-timeout", 0) + 1
            res["spec_failures"].append({"part": "resolver", "label": label, "graph": wire_graph(graph), "roles": cur,
                                         "impl": "no answer within 5 s", "why": NONTERM})
            res["aborted"] = True     # every further cyclic graph would cost the full budget: one witness is enough
            break
        if items:
            cmds.append({"cmd": "roles-batch", "graph": wire_graph(graph), "items": items})
            metas.append((graph, label, items))
    answers = proto.run_driver(cmds, chunk=2000)
    for (graph, label, items), ans in zip(metas, answers):
        if ans["n"] != len(items):
            raise lib.CheckError("roles-batch answered for a different number of items")
        for b in ans["bad"]:
            roles, out = items[b["i"]]
            rec = {"part": "resolver", "label": label, "graph": wire_graph(graph), "roles": roles, "impl": out,
                   "model": b["model"], "naive_closure": b["naive"], "impl_ok": b["impl_ok"], "model_ok": b["model_ok"]}
            if not b["model_ok"]:
                res["model_rejected"].append(rec)
            if not b["impl_ok"] or b["naive"] != out:
                res["spec_failures"].append({**rec, "why": "implementation output is not the sorted duplicate-free closure (Spec.Roles.isClosureOf)"})
            if b["model"] != out:
                res["disagreements"].append(rec)
    return res


def merge(run: lib.Run, res: dict) -> None:
    if res["model_rejected"]:
        raise lib.CheckError(f"model output rejected by its own spec (contradicts theorem c18_model_meets_spec): {res['model_rejected'][0]}")
    run.evaluations += res["n"]
    run.nontrivial.update(res["keys"])
    run.extra["nontrivial_total"] = run.extra.get("nontrivial_total", 0) + res["nontrivial"]
    for k, v in res["hist"].items():
        run.count(k, v)
    for smp in res["samples"]:
        if len(run.samples) < 3:
            run.samples.append(smp)
    if res.get("aborted"):
        run.extra["aborted_on_timeout"] = True
    run.spec_failures.extend(res["spec_failures"][:50])
    run.disagreements.extend(res["disagreements"][:50])


def sweep_jobs(n: int, lo: int, hi: int, variants: list, maxlen: int, every: int = 1, phase: int = 0):
    """graphs number lo..hi-1 (edge-subset masks) over n roles"""
    names = NAMES[:n]
    rl = role_lists(n, maxlen)
    i = 0
    for mask in range(lo, hi):
        adj = {names[a]: [names[b] for b in range(n) if mask >> (a * n + b) & 1] for a in range(n)}
        for v in variants:
            g = variant(adj, v)
            if g is None:
                continue
            i += 1
            if every > 1 and i % every != phase:
                continue
            yield g, f"n{n}/mask{mask}/{v}", rl


def sweep_worker(args) -> dict:
    n, lo, hi, variants, maxlen, every, phase, max_keys = args
    return process_jobs(sweep_jobs(n, lo, hi, variants, maxlen, every, phase), max_keys)


def big_sweep(run: lib.Run) -> None:
    """thorough only: every graph over 4 roles (65 536 edge subsets) in worker processes"""
    import multiprocessing as mp
    step = 1024
    tasks = [(4, lo, lo + step, ["full", "sparse"], 3, 1, 0, 1500) for lo in range(0, 1 << 16, step)]
    # duplicate-parent / foreign-parent renderings: every 7th graph, role lists of length ≤ 2
    tasks += [(4, lo, lo + 4 * step, ["dup", "ext"], 2, 7, run.seed % 7, 500) for lo in range(0, 1 << 16, 4 * step)]
    with mp.get_context("fork").Pool(min(6, max(1, (mp.cpu_count() or 2) - 2))) as pool:
        for res in pool.imap_unordered(sweep_worker, tasks):
            merge(run, res)
            if len(run.spec_failures) > 200 or run.extra.get("aborted_on_timeout"):
                pool.terminate()
                break


def deep_jobs():
    """inheritance chains and one long cycle far deeper than any call stack budget: the closure is still the whole chain"""
    for n in (300, 1100):
        chain = {f"r{i:04d}": [f"r{i + 1:04d}"] for i in range(n)}
        yield chain, f"deep-chain/{n}", [["r0000"], [f"r{n // 2:04d}"]]
    n = 1100
    cyc = {f"c{i:04d}": [f"c{(i + 1) % n:04d}"] for i in range(n)}
    yield cyc, "deep-cycle/1100", [["c0007"]]


def order_jobs():
    """sort-order corpus: every pair / triple of odd names, as given roles and as parents"""
    for k in (2, 3):
        for t in itertools.combinations(ODD_NAMES, k):
            yield {t[0]: list(t[1:])}, "order/" + "|".join(t), [[t[0]], list(t), list(t)[::-1], [t[-1], t[-1]]]


def random_jobs(run: lib.Run, scale: int):
    r = random.Random(run.seed * 7919 + 18)
    for i in range((1500 if run.tier == "quick" else 20000) * scale):
        g, names = random_graph(r)
        yield g, f"random#{i}", [random_roles(r, names) for _ in range(6)]


def chunks(it, size: int):
    buf: list = []
    for x in it:
        buf.append(x)
        if len(buf) >= size:
            yield buf
            buf = []
    if buf:
        yield buf


def run_resolver_part(run: lib.Run, scale: int = 1) -> None:
    small = itertools.chain.from_iterable(sweep_jobs(n, 0, 1 << (n * n), VARIANTS, 3) for n in (1, 2, 3))
    for jobs in chunks(itertools.chain(small, order_jobs(), deep_jobs(), random_jobs(run, scale)), 4000):
        merge(run, process_jobs(jobs, 120_000))
        if len(run.spec_failures) > 200 or run.extra.get("aborted_on_timeout"):
            return
    if run.tier != "quick" and not run.spec_failures:
        big_sweep(run)


# ----------------------------------------------------------------------------- engine part


class AsyncStatic:
    """async wrapper around the real resolver"""

    def __init__(self, graph):
        self.inner = StaticRoleResolver(graph)

    async def expand(self, roles):
        return self.inner.expand(roles)


class AwaitableStatic:
    """answers with an awaitable that is not a coroutine object (a Future-like): still 'an async resolver'"""

    def __init__(self, graph):
        self.inner = StaticRoleResolver(graph)

    def expand(self, roles):
        return real._Awaitable(self.inner.expand(roles))


class AwaitableRaising:
    def expand(self, roles):
        return real._Awaitable(exc=RuntimeError("resolver down"))


class Raising:
    def expand(self, roles):
        raise RuntimeError("resolver down")


class AsyncRaising:
    async def expand(self, roles):
        raise RuntimeError("resolver down")


class Flapping:
    """fails on its first call, works afterwards (a resolver backend that recovers)"""

    def __init__(self, graph):
        self.inner, self.calls = StaticRoleResolver(graph), 0

    def expand(self, roles):
        self.calls += 1
        if self.calls == 1:
            raise RuntimeError("resolver down")
        return self.inner.expand(roles)


# "+cache": the same request is evaluated twice on one Guard with a decision cache; what is judged is the SECOND evaluation
class Revoking:
    """a resolver that legitimately answers with NO roles (e.g. it filters revoked grants): its answer is used as is"""

    def expand(self, roles):
        return []


# "+swap": the Guard starts with a resolver that answers with no roles, is evaluated once, then `role_resolver` is replaced by the
# static resolver and the same request is evaluated again; what is judged is the SECOND evaluation
KINDS = ["static", "static-async", "raise", "raise-async", "none", "static+cache", "static+flap+cache", "answers-empty",
         "static-awaitable", "raise-awaitable", "static+swap"]
FLAVOURS = ["sync", "async", "async-collab-async", "sync-in-loop"]
R = {"attr": "subject.roles"}


def make_resolver(kind: str, graph: dict):
    return {"static": lambda: StaticRoleResolver(graph), "static-async": lambda: AsyncStatic(graph),
            "raise": Raising, "raise-async": AsyncRaising, "none": lambda: None,
            "static+cache": lambda: StaticRoleResolver(graph), "static+flap+cache": lambda: Flapping(graph),
            "answers-empty": Revoking, "static-awaitable": lambda: AwaitableStatic(graph), "raise-awaitable": AwaitableRaising,
            "static+swap": Revoking}[kind]()


PREDS = {
    "in": lambda c, x, y: x in c,
    "contains": lambda c, x, y: x in c,
    "hasAny": lambda c, x, y: x in c or y in c,
    "hasAll": lambda c, x, y: x in c and y in c,
    "in-overlap": lambda c, x, y: x in c or y in c,
    "not-in": lambda c, x, y: x not in c,
    "and-not": lambda c, x, y: x in c and y not in c,
    "permit+deny": lambda c, x, y: x in c and y not in c,
    # policies that never mention subject.roles: the expansion is still what the audit record (and anything reading `subject`) sees
    "no-condition": lambda c, x, y: True,
    "other-attribute": lambda c, x, y: True,
    "whole-subject": lambda c, x, y: True,
}
TEMPLATES = list(PREDS)


def policy_of(name: str, x: str, y: str) -> dict:
    """a policy whose decision is `PREDS[name]` of the set of roles its conditions see"""
    def one(cond):
        return {"algorithm": "deny-overrides",
                "rules": [{"id": "r", "effect": "permit", "actions": ["read"], "resource": {"type": "doc"}, "condition": cond}]}
    if name == "permit+deny":
        return {"algorithm": "deny-overrides",
                "rules": [{"id": "p", "effect": "permit", "actions": ["read"], "resource": {"type": "doc"}, "condition": {"hasAny": [R, [x]]}},
                          {"id": "d", "effect": "deny", "actions": ["read"], "resource": {"type": "doc"}, "condition": {"contains": [R, y]}}]}
    if name == "no-condition":
        p = one(True)
        del p["rules"][0]["condition"]
        return p
    return one({
        "other-attribute": {"==": [{"attr": "resource.type"}, "doc"]},
        "whole-subject": {"!=": [{"attr": "subject"}, None]},
        "in": {"in": [x, R]},
        "contains": {"contains": [R, x]},
        "hasAny": {"hasAny": [R, [x, y]]},
        "hasAll": {"hasAll": [R, [x, y]]},
        "in-overlap": {"in": [R, [x, y]]},
        "not-in": {"not": {"in": [x, R]}},
        "and-not": {"and": [{"contains": [R, x]}, {"not": {"contains": [R, y]}}]},
    }[name])


def make_req(roles) -> dict:
    return {"sid": "u1", "roles": roles, "sattrs": {}, "action": "read", "rtype": "doc", "rid": "1", "rattrs": {}, "ctx": {}}


def engine_real(graph: dict, roles, policy: dict, kind: str, flavour: str) -> dict:
    cfg = {"logger": True}
    res = make_resolver(kind, graph)
    if res is not None:
        cfg["resolver"] = res
    try:
        with deadline(10.0):
            if "+swap" in kind:
                events = []
                try:
                    g = real.make_guard(policy, cfg, events, flavour=flavour)
                    real.call_guard(g, make_req(roles), flavour)
                    g.role_resolver = StaticRoleResolver(graph)
                    del events[:]
                    d = real.call_guard(g, make_req(roles), flavour)
                except Exception as e:  # noqa: BLE001
                    return {"raised": real.exc_class(e)}
                return {"ok": real.render_decision(d, list(events))}
            if "+cache" not in kind:
                return real.run_guard(policy, make_req(roles), cfg, flavour)
            from rbacx.core.cache import DefaultInMemoryCache
            events: list = []
            try:
                g = real.make_guard(policy, cfg, events, flavour=flavour, cache=DefaultInMemoryCache(16))
                real.call_guard(g, make_req(roles), flavour)
                del events[:]
                d = real.call_guard(g, make_req(roles), flavour)
            except Exception as e:  # noqa: BLE001
                return {"raised": real.exc_class(e)}
            return {"ok": real.render_decision(d, list(events))}
    except Timeout:
        return {"raised": "Timeout"}


def project(out: dict):
    """(allowed, effect, [subject.roles of every audit record])"""
    if "ok" not in out:
        return ("raised", out.get("raised"))
    o = out["ok"]
    seen = []
    for ev in o["events"]:
        if ev.get("ev") == "audit":
            env = proto.dec(ev["env"])
            seen.append(((env or {}).get("subject") or {}).get("roles") if isinstance(env, dict) else None)
    return (o["allowed"], o["effect"], seen)


def engine_cases(run: lib.Run, scale: int = 1):
    quick = run.tier == "quick"
    # exhaustive core: every graph over 2 roles × every role list of length ≤ 2 × resolver kind × call flavour, templates rotating
    i = 0
    names = NAMES[:2] + [ABSENT]
    for g, label in enum_graphs(2, ["full", "ext"]):
        for roles in role_lists(2, 2):
            for kind in KINDS:
                for fl in (FLAVOURS[:2] if quick else FLAVOURS):
                    x, y = names[i % 3], names[(i // 3 + 1) % 3]
                    yield g, roles, (TEMPLATES[i % len(TEMPLATES)], x, y), kind, fl, f"engine/{label}/{i}"
                    i += 1
    r = random.Random(run.seed * 7919 + 1818)
    for j in range((1200 if quick else 25000) * scale):
        if r.random() < 0.5:
            n = r.choice([2, 3, 4])
            mask = r.getrandbits(n * n)
            adj = {NAMES[a]: [NAMES[b] for b in range(n) if mask >> (a * n + b) & 1] for a in range(n)}
            g = variant(adj, r.choice(VARIANTS)) or adj
            nm = NAMES[:n] + [ABSENT]
        else:
            g, nm = random_graph(r)
        roles = random_roles(r, nm)
        yield g, roles, (r.choice(TEMPLATES), r.choice(nm), r.choice(nm)), r.choice(KINDS), r.choice(FLAVOURS), f"engine/random#{j}"


def engine_spec(kind: str, own: list, seen_lists: list, allowed, tpl: tuple, closure: list | None, impl_ok) -> str | None:
    """None = fine, else the reason the implementation contradicts the property"""
    if len(seen_lists) != 1:
        return f"{len(seen_lists)} audit records for one evaluation"
    seen = seen_lists[0]
    if kind.startswith("static"):
        if not is_str_list(seen) or not impl_ok:
            return "audit env.subject.roles is not the sorted closure of the subject's roles (Spec.Roles.isClosureOf)"
        expect = closure
    elif kind == "answers-empty":
        if seen != []:
            return "the resolver answered with no roles but the audit record (and the conditions) show other roles"
        expect = []
    else:
        if seen != own:
            return "audit env.subject.roles differs from the subject's own roles (resolver absent or failed)"
        expect = own
    if allowed != bool(PREDS[tpl[0]](set(expect), tpl[1], tpl[2])):
        return "decision is not the one dictated by the closure: the conditions saw other roles"
    return None


def run_engine_batch(run: lib.Run, audit: dict, cases: list) -> None:
    consts = audit["facts"]["consts"]
    outs = []
    for g, roles, tpl, kind, fl, label in cases:
        outs.append(engine_real(g, roles, policy_of(*tpl), kind, fl))
    # phase 1: the model's expansion + the closure verdict on what the audit record shows
    cmds1 = []
    for (g, roles, tpl, kind, fl, label), out in zip(cases, outs):
        c = {"cmd": "roles", "graph": wire_graph(g), "roles": list(roles or [])}
        p = project(out)
        if kind.startswith("static") and p[0] != "raised" and len(p[2]) == 1 and is_str_list(p[2][0]):
            c["impl"] = p[2][0]
        cmds1.append(c)
    ans1 = proto.run_driver(cmds1)
    # phase 2: the engine model with the model's expansion plugged in
    cmds2 = []
    for (g, roles, tpl, kind, fl, label), a in zip(cases, ans1):
        policy = policy_of(*tpl)
        cfg: dict = {"logger": True}
        if kind.startswith("static"):
            cfg["resolver"] = {"ok": a["model"]}
        elif kind.startswith("raise"):
            cfg["resolver"] = "raise"
        elif kind == "answers-empty":
            cfg["resolver"] = {"ok": []}
        req = make_req(roles)
        cmds2.append(real.guard_cmd(policy, req, cfg, consts, proto.build_oracle(policy, req, a["model"])))
    ans2 = proto.run_driver(cmds2)
    for (g, roles, tpl, kind, fl, label), out, a, m in zip(cases, outs, ans1, ans2):
        own = list(roles or [])
        policy = policy_of(*tpl)
        pi, pm = project(out), project(m)
        rec = {"part": "engine", "label": label, "graph": wire_graph(g), "roles": roles, "resolver": kind, "flavour": fl,
               "template": list(tpl), "policy": policy, "impl": pi, "model": pm, "closure": a["naive"]}
        if pi[0] == "raised":
            run.count("engine/raised")
            run.case([label], False)
            run.spec_failures.append({**rec, "why": f"Guard raised {pi[1]}"})
            run.disagreements.append(rec)
            continue
        inherited = kind.startswith("static") and len(a["naive"]) > len(set(own))
        run.count(f"engine/{kind}/{'permit' if pi[0] else 'deny'}" + ("/inherited" if inherited else ""))
        run.case([wire_graph(g), roles, list(tpl), kind, fl], inherited or kind.startswith("raise"),
                 {"graph": g, "roles": roles, "resolver": kind, "flavour": fl, "policy": policy, "impl": pi} if inherited else None)
        if pi != pm:
            run.disagreements.append(rec)
        why = engine_spec(kind, own, pi[2], pi[0], tpl, a["naive"], a.get("impl_ok"))
        if why:
            run.spec_failures.append({**rec, "why": why})


# ----------------------------------------------------------------------------- shrinking


def resolver_fails(graph_w: list, roles) -> bool:
    graph = {k: list(ps) for k, ps in graph_w}
    try:
        with deadline(2.0):
            out = impl_expand(graph, roles)
    except Timeout:
        return True
    if "ok" not in out or not is_str_list(out["ok"]):
        return True
    a = proto.run_driver([{"cmd": "roles", "graph": wire_graph(graph), "roles": roles, "impl": out["ok"]}])[0]
    return not a["impl_ok"]


def engine_fails(case: dict, graph_w: list, roles) -> bool:
    graph = {k: list(ps) for k, ps in graph_w}
    out = engine_real(graph, roles, case["policy"], case["resolver"], case["flavour"])
    p = project(out)
    if p[0] == "raised":
        return True
    own = list(roles or [])
    c = {"cmd": "roles", "graph": wire_graph(graph), "roles": own}
    if case["resolver"].startswith("static") and len(p[2]) == 1 and is_str_list(p[2][0]):
        c["impl"] = p[2][0]
    a = proto.run_driver([c])[0]
    return engine_spec(case["resolver"], own, p[2], p[0], tuple(case["template"]), a["naive"], a.get("impl_ok")) is not None


def shrink_graph_roles(graph_w: list, roles, fails0) -> tuple[list, object]:
    """drop graph entries, then single parents, then roles, while the failure persists (best effort, at most ~45 s)"""
    import time as _time
    t_end = _time.time() + 45

    def fails(g, r):
        return _time.time() < t_end and fails0(g, r)
    g = lib.shrink_list(graph_w, lambda xs: fails(xs, roles), budget=60)
    if len(g) <= 40:
        for i in range(len(g)):
            k, ps = g[i]
            ps2 = lib.shrink_list(ps, lambda q, i=i, k=k: fails(g[:i] + [[k, q]] + g[i + 1:], roles), budget=30)
            g = g[:i] + [[k, ps2]] + g[i + 1:]
    if isinstance(roles, list):
        roles = lib.shrink_list(roles, lambda rs: fails(g, rs), budget=30)
    return g, roles


def shrink(case: dict) -> dict:
    try:
        if case["part"] in ("engine-overlap", "engine-recovery"):
            return case
        if case["part"] == "resolver":
            if not resolver_fails(case["graph"], case["roles"]):
                return case
            g, rs = shrink_graph_roles(case["graph"], case["roles"], resolver_fails)
            out = None
            try:
                with deadline(5.0):
                    out = impl_expand({k: list(ps) for k, ps in g}, rs)
            except Timeout:
                out = "no answer within 5 s"
            a = proto.run_driver([{"cmd": "roles", "graph": g, "roles": rs}])[0]
            return {**case, "graph": g, "roles": rs, "impl": out, "model": a["model"], "naive_closure": a["naive"], "shrunk": True}
        c = case
        if not engine_fails(c, case["graph"], case["roles"]):
            return case
        g, rs = shrink_graph_roles(case["graph"], case["roles"], lambda gw, r: engine_fails(c, gw, r))
        out = engine_real({k: list(ps) for k, ps in g}, rs, case["policy"], case["resolver"], case["flavour"])
        a = proto.run_driver([{"cmd": "roles", "graph": g, "roles": list(rs or [])}])[0]
        return {**case, "graph": g, "roles": rs, "impl": project(out), "closure": a["naive"], "shrunk": True}
    except Exception as e:  # noqa: BLE001  (shrinking is best effort; the unshrunk case is still a witness)
        return {**case, "shrink_error": repr(e)}


# ----------------------------------------------------------------------------- the translated resolver vs the real one


def translated_jobs(run: lib.Run):
    """(graph, label, [roles…]): every graph over ≤3 names in the 4 renderings (all names keys / only nodes with parents / duplicated
    parents / a foreign parent, reversed key order — self-loops, absent keys, parents that are no keys included) × every role list of
    length ≤3 over the names + one absent name, + None; no graph at all; seeded random graphs of 5–8 nodes; one chain of 300 nodes"""
    for n in (1, 2, 3):
        rl = role_lists(n, 3)
        for g, label in enum_graphs(n):
            yield g, "translated/" + label, rl
    yield None, "translated/no-graph", role_lists(2, 2)
    yield {}, "translated/empty-graph", role_lists(2, 2)
    r = random.Random(run.seed * 7919 + 181818)
    for i in range((300 if run.tier == "quick" else 3000) * run.boost):
        k = r.randrange(5, 9)
        pool = r.sample(ODD_NAMES, k) if r.random() < 0.5 else [f"r{j}" for j in range(k)]
        g: dict = {}
        dens = r.choice([0.1, 0.25, 0.5, 0.9])
        for name in pool:
            if r.random() < 0.85:
                ps = [p for p in pool if r.random() < dens]
                if r.random() < 0.3:
                    ps += [r.choice(pool)] * r.randrange(1, 3)              # duplicates
                if r.random() < 0.2:
                    ps.append(r.choice(ODD_NAMES + ["ghost"]))              # a parent that may be no key
                r.shuffle(ps)
                g[name] = ps
        names = pool + ["ghost"]
        yield g, f"translated/random#{i}", [random_roles(r, names) for _ in range(6)]
    chain = {f"r{i:04d}": [f"r{i + 1:04d}"] for i in range(300)}
    yield chain, "translated/deep-chain/300", [["r0000"], ["r0150", "r0000"], ["r0300"], None]


def translated_vs_python(run: lib.Run) -> tuple[bool, str]:
    """the translated resolver (Generated.Src.roles_init_graph / roles_expand, evaluated by `lake env lean --run
    Rbacx/Run/SrcEvalRoles.lean` with fuel = the bound of Translated.roles_expand_terminates) against the real
    `StaticRoleResolver(graph).expand(roles)` on the same arguments.  Validates the translator (harness/pytolean_loops.py) and
    Model/PyLib.lean, the two things the obligation C18_translated trusts."""
    import copy
    import subprocess
    jobs, lines = [], []
    for graph, label, rlists in translated_jobs(run):
        wants = []
        try:
            with deadline(10.0):
                resolver = StaticRoleResolver(copy.deepcopy(graph))
                for roles in rlists:
                    wants.append(impl_expand(graph, copy.deepcopy(roles), resolver))
        except Timeout:
            return True, "skipped: the real expand did not return within 10 s (reported by the resolver part)"
        jobs.append((graph, label, rlists, wants))
        lines.append(json.dumps({"graph": proto.enc(graph), "items": [proto.enc(rs) for rs in rlists]}))
    p = subprocess.run(["lake", "env", "lean", "--run", "Rbacx/Run/SrcEvalRoles.lean"], cwd=lib.LEAN, input="\n".join(lines) + "\n",
                       capture_output=True, text=True, timeout=900)
    outs = [ln for ln in p.stdout.split("\n") if ln]
    if p.returncode != 0 or len(outs) != len(lines):
        return False, "SrcEvalRoles: " + (p.stderr or p.stdout)[-800:]
    bad = n = 0
    for (graph, label, rlists, wants), ln in zip(jobs, outs):
        got = json.loads(ln)
        if "values" not in got or len(got["values"]) != len(rlists):
            return False, f"SrcEvalRoles: {ln[:300]}"
        for roles, want, g1 in zip(rlists, wants, got["values"]):
            n += 1
            if "ok" not in want:
                run.count("translated-roles: python raised (not judged)")
                continue
            run.count("translated-roles: " + ("roles=None/[]" if not roles else "inherits" if len(want["ok"]) > len(set(roles)) else "nothing inherited"))
            if "value" not in g1 or proto.dec(g1["value"]) != want["ok"]:
                bad += 1
                if bad == 1:
                    run.disagreements.append({"part": "translated source vs python", "label": label,
                                              "graph": None if graph is None else wire_graph(graph), "roles": roles,
                                              "impl": want, "model": g1,
                                              "what": "the translated StaticRoleResolver.expand (Generated.Src.roles_expand with fuel = "
                                                      "fuelBound) and the real method differ"})
    run.count("translated-roles", n)
    run.evaluations += n
    return bad == 0, f"{bad} of {n} evaluations differ" if bad else f"agree on {n} evaluations"


# ----------------------------------------------------------------------------- check / replay


def overlapping_same_subject(run: lib.Run) -> None:
    """two evaluations of the SAME subject id with DIFFERENT role lists overlapping on one engine and one loop (a token being upgraded,
    two sessions of one user): the first is parked inside the async resolver while the second runs to completion.  Each sees exactly the
    closure of ITS OWN roles — in its conditions and in its audit record."""
    import asyncio
    from rbacx.core.engine import Guard
    graph = {"manager": ["employee"], "employee": ["user"], "guest": []}
    pol = policy_of("contains", "employee", "user")
    for slow_first in (["manager"], ["guest"]):
        other = ["guest"] if slow_first == ["manager"] else ["manager"]

        async def scenario():
            gate, entered = asyncio.Event(), asyncio.Event()
            inner = StaticRoleResolver(graph)

            class Res:
                async def expand(self, roles):
                    if list(roles) == slow_first and not gate.is_set():
                        entered.set()
                        await gate.wait()
                    return inner.expand(roles)
            events: list = []
            g = Guard(copy.deepcopy(pol), role_resolver=Res(), logger_sink=real.AsyncRecLogger(events))
            qa = real.make_request(make_req(slow_first))
            qb = real.make_request(make_req(other))
            ta = asyncio.ensure_future(g.evaluate_async(*qa))
            await asyncio.wait_for(entered.wait(), 5)
            db = await asyncio.wait_for(g.evaluate_async(*qb), 5)
            gate.set()
            da = await asyncio.wait_for(ta, 5)
            seen = [((proto.dec(ev["env"]) or {}).get("subject") or {}).get("roles") for ev in events if ev.get("ev") == "audit"]
            return da.allowed, db.allowed, seen
        run.evaluations += 1
        run.count("overlap:same-subject-id")
        try:
            a_allowed, b_allowed, seen = asyncio.run(scenario())
        except Exception as e:  # noqa: BLE001
            run.spec_failures.append({"part": "engine-overlap", "graph": wire_graph(graph), "roles": slow_first, "why": f"{type(e).__name__}: {e}"})
            return
        want = {tuple(r): StaticRoleResolver(graph).expand(r) for r in (slow_first, other)}
        ok = (a_allowed == ("employee" in want[tuple(slow_first)]) and b_allowed == ("employee" in want[tuple(other)])
              and sorted(map(tuple, seen)) == sorted(map(tuple, want.values())))
        if not ok:
            run.spec_failures.append({"part": "engine-overlap", "graph": wire_graph(graph), "roles": slow_first, "other_request_roles": other,
                                      "policy": pol, "held_allowed": a_allowed, "other_allowed": b_allowed, "audit_roles": seen,
                                      "expected_closures": {",".join(k): v for k, v in want.items()},
                                      "why": "two overlapping evaluations of one subject id with different roles did not each see the closure of their own roles"})
            return


def recovering_resolver(run: lib.Run) -> None:
    """ONE engine whose role resolver FAILS for a while and then answers again (a directory that was down): failure patterns
    k failures in a row for k ≤ 25, bursts separated by successes, sync / async-def / awaitable spellings, three exception classes.
    While it fails the subject's own roles are used; the FIRST evaluation after it recovered — and every later one — sees the closure
    again, in the condition and in the audit record (nothing remembers that the resolver used to fail)."""
    from rbacx.core.engine import Guard
    graph = {"manager": ["employee"], "employee": ["user"]}
    pol = policy_of("contains", "employee", "user")
    closure = StaticRoleResolver(graph).expand(["manager"])
    patterns = [[True] * k + [False] * 3 for k in (1, 2, 3, 4, 5, 6, 10, 25)]
    patterns += [[True, True, False, True, True, True, False, False], [False, True, True, True, False], [True, True, True, False, True, True, True, False, False]]
    for pi, pattern in enumerate(patterns):
        for spelling in ("sync", "async", "awaitable"):
            for api in ("sync", "async"):
                exc = (RuntimeError, TimeoutError, OSError)[(pi + len(spelling)) % 3]
                state = {"i": 0}
                inner = StaticRoleResolver(graph)

                def answer(roles, pattern=pattern, state=state, exc=exc, inner=inner):
                    i = state["i"]
                    state["i"] += 1
                    if i < len(pattern) and pattern[i]:
                        raise exc("directory down")
                    return inner.expand(roles)

                class SyncRes:
                    def expand(self, roles):
                        return answer(roles)

                class AsyncRes:
                    async def expand(self, roles):
                        return answer(roles)

                class AwaitableRes:
                    def expand(self, roles):
                        try:
                            return real._Awaitable(answer(roles))
                        except Exception as e:  # noqa: BLE001
                            return real._Awaitable(exc=e)
                events: list = []
                g = Guard(copy.deepcopy(pol), role_resolver={"sync": SyncRes, "async": AsyncRes, "awaitable": AwaitableRes}[spelling](),
                          logger_sink=real.RecLogger(events))
                trace = []
                bad = None
                for step, fails in enumerate(pattern):
                    del events[:]
                    try:
                        d = real.call_guard(g, make_req(["manager"]), api)
                        seen = [((proto.dec(ev["env"]) or {}).get("subject") or {}).get("roles") for ev in events if ev.get("ev") == "audit"]
                        got = [d.allowed, seen[0] if seen else None]
                    except Exception as e:  # noqa: BLE001
                        got = ["raised", type(e).__name__]
                    want = [False, ["manager"]] if fails else [True, closure]
                    trace.append({"resolver_fails": fails, "allowed_and_audit_roles": got})
                    if (got[0] != want[0] or (isinstance(got[1], list) and sorted(got[1]) != sorted(want[1])) or not isinstance(got[1], list)) and bad is None:
                        bad = step
                run.evaluations += 1
                run.count("recovering-resolver")
                run.nontrivial.add(f"recover{pi}{spelling}{api}")
                if bad is not None:
                    run.spec_failures.append({"part": "engine-recovery", "graph": wire_graph(graph), "roles": ["manager"], "policy": pol,
                                              "resolver_spelling": spelling, "api": api, "exception": exc.__name__, "failure_pattern": pattern,
                                              "first_wrong_evaluation": bad, "trace": trace, "expected_closure": closure,
                                              "why": "one engine, a resolver that fails for a while and answers again: an evaluation did not use the "
                                                     "resolver's answer (the closure) when the resolver answered, or the subject's own roles when it failed"})
                    return


def run_all(run: lib.Run, audit: dict, scale: int = 1) -> None:
    run_resolver_part(run, scale)
    if run.extra.get("aborted_on_timeout"):
        return      # the engine part would wait for the same non-terminating call
    for batch in chunks(engine_cases(run, scale), 2000):
        run_engine_batch(run, audit, batch)
    overlapping_same_subject(run)
    recovering_resolver(run)


def check(run: lib.Run, audit: dict) -> int:
    quick = run.tier == "quick"
    run.rule = ("resolver, exhaustive: every graph over ≤3 (quick) / ≤4 (thorough) roles = every subset of the n² edges incl. self-loops, in 4 renderings "
                "(all names keys / only nodes with parents are keys / duplicated parents / a foreign parent + reversed key order; over 4 roles the "
                "last two on every 7th graph with lists ≤2) × every role list of length ≤3 over the names + one absent role, + None; "
                "sort-order corpus (all pairs/triples of mixed-case, non-ASCII, astral and empty names); seeded random graphs ≤12 nodes "
                "(chains, cycles, complete, sparse/dense, duplicates, non-key parents) × 6 role lists each. "
                "engine: every graph over 2 roles × role lists ≤2 × {static, async-wrapped static, raising, async raising, no resolver} × call flavours "
                "× 8 condition templates (in/contains/hasAny/hasAll/overlap/not/and/permit+deny) + seeded random. "
                "translated source of StaticRoleResolver.__init__/.expand (fuel = the proved bound) vs the real resolver: every graph over ≤3 "
                "names in the 4 renderings × every role list of length ≤3 + None, no graph, seeded random graphs of 5–8 nodes, a chain of 300. "
                "non-trivial = the closure adds at least one inherited role (engine: or the resolver raised)")
    run.exhaustive = True
    run.assumptions = ["role names, graph keys and parents are str of Unicode scalar values (no lone surrogates); the graph is a dict[str, list[str]]",
                       "subject.roles is a list of str or None",
                       "a call to expand that does not return within 5 s is reported as non-terminating"]
    if not audit["ok"]:
        raise lib.CheckError(f"Lean build/audit failed at {audit['stage']}: {audit.get('log') or audit.get('forbidden') or audit.get('bad_axioms')}")
    # the resolver as it is written NOW, translated into Lean (its while loop run with a budget), is proved to terminate and to equal the model's
    tr = audit["facts"].get("translated_roles")
    untranslatable = isinstance(tr, dict) and "extraction_failed" in tr
    ok_tr, detail_tr = lib.run_obligation("C18_translated")
    run.obligation("C18_translated: Generated.Src.roles_expand (the current source text of StaticRoleResolver.expand, its while loop run with a "
                   "budget) returns for every budget ≥ fuelBound g roles = |roles| + number of parent entries (termination on every graph) and "
                   "then equals the model's Roles.expand, for every dict[str, list[str]] and list[str]; Src.roles_init_graph keeps the graph", ok_tr,
                   "discharged" if ok_tr else (str(tr["extraction_failed"]) if untranslatable else detail_tr))
    if untranslatable or not isinstance(tr, dict):
        ok_py, detail_py = True, "skipped: the resolver is not in the translatable subset (see C18_translated)"
    else:
        ok_py, detail_py = translated_vs_python(run)
    run.obligation("translated resolver evaluates like the real StaticRoleResolver(graph).expand(roles) (translator + Model/PyLib.lean vs CPython)",
                   ok_py, detail_py)
    run_all(run, audit, scale=run.boost)
    if (run.disagreements or not ok_tr) and not run.spec_failures:
        run_all(run, audit, scale=5)  # correspondence or the translation tie broke: widen the search for a failing input
    violations = []
    if run.spec_failures:
        first = min(run.spec_failures, key=lambda c: (len(json.dumps(c["graph"])) + len(json.dumps(c["roles"]))))
        c = shrink(first)
        path = run.write_replay("spec", {
            "what": "the implementation's output contradicts the C18 spec (Rbacx.Spec.Roles.isClosureOf: strictly sorted, contains the roots, "
                    "closed under parents, within the naive closure; engine: audit/conditions see exactly that list, own roles on failure)",
            "case": c, "more": len(run.spec_failures) - 1,
            "by_reason": _by_reason(run.spec_failures)})
        violations.append((path, True))
    elif not ok_tr:
        path = run.write_replay("obligation", {
            "what": "per-run obligation Rbacx/Run/C18_translated.lean no longer checks: the translated source of StaticRoleResolver.expand is not "
                    "proved to terminate within fuelBound and to equal the model's Roles.expand, the function theorems Rbacx.C18.* are about; the "
                    "widened search found no graph and role list on which the implementation's output is not the sorted closure",
            "translation": tr, "lean": detail_tr[-1500:], "first_disagreement": run.disagreements[:1]})
        violations.append((path, False))
    elif run.disagreements or not ok_py:
        first = run.disagreements[0] if run.disagreements else {"part": "translated source vs python", "what": detail_py}
        path = run.write_replay("correspondence", {
            "what": ("translated source vs python: " + str(first.get("what")) + "; the obligation C18_translated rests on a translation that "
                     "CPython contradicts (or that could not be evaluated)") if first.get("part") == "translated source vs python" else
                    "model (Rbacx.Roles.expandOpt / Rbacx.guardEval) and implementation disagree on (expanded roles | allowed, effect, audit "
                    "env.subject.roles); theorems Rbacx.C18.* no longer speak about this code",
            "first": first, "count": len(run.disagreements)})
        violations.append((path, False))
    return run.finish(audit, violations)


def _by_reason(fs: list) -> dict:
    out: dict[str, int] = {}
    for f in fs:
        out[f.get("why", "?")] = out.get(f.get("why", "?"), 0) + 1
    return out


def replay(run: lib.Run, audit: dict, path: str) -> int:
    rp = json.load(open(path))
    c = rp.get("case") or rp.get("first") or (rp.get("first_disagreement") or [None])[0]
    if c is None or "graph" not in c:
        print("nothing to re-run on the implementation:", rp.get("what"))
        return 0
    if c.get("part") == "translated source vs python":
        graph = None if c["graph"] is None else {k: list(ps) for k, ps in c["graph"]}
        print("graph:", graph, "roles:", c["roles"])
        print("expand now:", impl_expand(graph, c["roles"]), "recorded:", c.get("impl"), "translated:", c.get("model"))
        return 0
    graph = {k: list(ps) for k, ps in c["graph"]}
    if c["part"] == "engine-overlap":
        overlapping_same_subject(run)
        now = [f for f in run.spec_failures if f.get("part") == "engine-overlap"]
        print("now:", json.dumps(now[0], default=str)[:1500] if now else "each overlapping evaluation saw the closure of its own roles")
        print("recorded:", json.dumps(c, default=str)[:1500])
        return 1 if now else 0
    if c["part"] == "engine-recovery":
        recovering_resolver(run)
        now = [f for f in run.spec_failures if f.get("part") == "engine-recovery"]
        print("now:", json.dumps(now[0], default=str)[:1500] if now else "every evaluation used the resolver's answer when it answered and the own roles when it failed")
        print("recorded:", json.dumps(c, default=str)[:1500])
        return 1 if now else 0
    if c["part"] == "resolver":
        try:
            with deadline(5.0):
                out = impl_expand(graph, c["roles"])
        except Timeout:
            out = "no answer within 5 s"
        a = proto.run_driver([{"cmd": "roles", "graph": c["graph"], "roles": c["roles"],
                               **({"impl": out["ok"]} if isinstance(out, dict) and is_str_list(out.get("ok")) else {})}])[0]
        print("graph:", graph, "roles:", c["roles"])
        print("impl:", out)
        print("model:", a["model"], "naive closure:", a["naive"], "verdict on impl:", a["impl_ok"])
        return 0 if a["impl_ok"] else 1
    out = engine_real(graph, c["roles"], c["policy"], c["resolver"], c["flavour"])
    a = proto.run_driver([{"cmd": "roles", "graph": c["graph"], "roles": list(c["roles"] or [])}])[0]
    print("graph:", graph, "roles:", c["roles"], "resolver:", c["resolver"], "flavour:", c["flavour"], "policy:", c["policy"])
    print("impl (allowed, effect, audit subject.roles):", project(out))
    print("closure:", a["naive"], "recorded:", c.get("impl"), c.get("why"))
    return 1 if engine_fails(c, c["graph"], c["roles"]) else 0
