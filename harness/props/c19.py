"""C19 — audit redaction, sampling, size bound.

Tie: `rbacx.obligations.enforcer._set_by_path` / `apply_obligations` and
`rbacx.logging.decision_logger.DecisionLogger.log` (message captured from the `rbacx.audit` logger, both
text and JSON rendering, `random.random` injected) against the model `Rbacx.Redact.setByPath` /
`applySpecs` / `log`; the spec predicates of `lean/Rbacx/Spec/Redact.lean` (no-leak, placeholder-at-path,
priority, sampling, size bound) are evaluated by the Lean driver on the implementation's emitted record.
Harness-side (Python) parts of the spec: the caller's object is deep-compared before/after, `in_place`
returns the very payload object, `log` never raises, and planted secrets are searched in the *raw* message.

Tie by regeneration: `_ensure_list_size`, `_set_by_path`, `apply_obligations` are translated from the current source text into
`Rbacx.Generated.Src.*` by the CURSOR translation (`harness/pytolean_cursor.py`, plugin `extractors/src_translation_enforcer.py`: one
state, the cursor `cur` an access path into it, every store a functional update, every operation that can raise `Option`-valued); the
per-run obligation `Run/C19_translated.lean` proves the translation equal to the model's `setByPath` / `applySpecs` — in particular
that no subscript of the source raises on any tree — and the translation is evaluated against the real functions
(`translated_vs_python`).  `DecisionLogger.__init__` (normalisation), `_should_drop_by_sampling` and `log` are translated by
`harness/pytolean_logger.py` (plugin `extractors/src_translation_logger.py`; floats as the model's `FNum`, `apply_obligations` and the size
oracle as raising points of the nested try/except, "emit" as the result); `Run/C19_logger_translated.lean` proves them equal to the model's
`LogCfg` / `shouldDrop` / `log`, `Run/C19_logger_composed.lean` composes the two translations, and `logger_translated_vs_python` runs the
translation against the REAL `DecisionLogger`."""
from __future__ import annotations

import ast
import copy
import itertools
import json
import logging
import math
import random
import re
import sys
import types
from typing import Any

import lib
import proto
import real  # noqa: F401  (puts /repo/src on sys.path, disables logging globally)
from rbacx.logging import decision_logger as dl
from rbacx.obligations import enforcer

SECRET_RE = re.compile(r"~S\d+~")
BELOW_ONE = math.nextafter(1.0, 0.0)
ABOVE_ONE = math.nextafter(1.0, 2.0)


def jsize(v: Any) -> int | None:
    """the jsonSize oracle: computed with the stdlib, not with rbacx"""
    try:
        return len(json.dumps(v, ensure_ascii=False).encode("utf-8", "surrogatepass"))
    except Exception:  # noqa: BLE001
        return None


# ----------------------------------------------------------------------------- trees, secrets, paths


def walk(v: Any, pos: tuple = ()):
    yield pos, v
    if isinstance(v, dict):
        for k, x in v.items():
            yield from walk(x, pos + (k,))
    elif isinstance(v, list):
        for i, x in enumerate(v):
            yield from walk(x, pos + (i,))


def secrets_in(v: Any) -> dict[str, list[tuple]]:
    out: dict[str, list[tuple]] = {}
    for pos, x in walk(v):
        if isinstance(x, str):
            for t in SECRET_RE.findall(x):
                out.setdefault(t, []).append(pos)
    return out


def render(pos: tuple) -> str | None:
    """the path string that denotes a structural position, when there is one"""
    segs: list[str] = []
    for i, p in enumerate(pos):
        if isinstance(p, str):
            if "." in p or "[" in p:
                return None
            segs.append(p)
        else:
            if i == 0 or not isinstance(pos[i - 1], str):
                return None  # list at the root / list directly inside a list: not addressable
            segs[-1] = f"{segs[-1]}[{p}]"
    return ".".join(segs) if segs else None


class Planter:
    def __init__(self, start: int = 0):
        self.n = start

    def fresh(self) -> str:
        self.n += 1
        return f"~S{self.n:02d}~"


KEYS = ["a", "b", "items", "user", "email", "n", "attrs", "token", "x", "é", "x-api-key", "__Host-sid", "a b", "k:1", "u@h", "p/q", "0", "-1",
        # keys that differ in case only are different keys (a path names exactly one of them, whichever was inserted first)
        "A", "Token", "TOKEN", "É", "Items"]
TEXTS = ["", "x", "bob", "пароль", "日本語", "é" * 3, "a b", "10.0.0.1", "\U0001f511 key", "q\"uote", "tab\t"]


def gen_leaf(r: random.Random, pl: Planter) -> Any:
    k = r.random()
    if k < 0.3:
        t = pl.fresh()
        return r.choice([t, "Bearer " + t, t + "é", "п" + t + "日"])
    if k < 0.55:
        return r.choice(TEXTS)
    if k < 0.75:
        return r.choice([0, 1, -7, 3, 10**20, 2**63])
    if k < 0.85:
        return r.choice([1.5, -0.0, 2.0, 1e-9, 3.25])
    return r.choice([None, True, False])


def gen_tree(r: random.Random, depth: int, pl: Planter) -> Any:
    k = r.random()
    if depth <= 0 or k < 0.3:
        return gen_leaf(r, pl)
    if k < 0.68:
        return {r.choice(KEYS): gen_tree(r, depth - 1, pl) for _ in range(r.randrange(0, 4))}
    n = r.randrange(0, 4)
    if r.random() < 0.7:  # lists of dicts
        return [{r.choice(KEYS): gen_tree(r, depth - 2, pl) for _ in range(r.randrange(0, 3))} for _ in range(n)]
    return [gen_tree(r, depth - 1, pl) for _ in range(n)]


def gen_env(r: random.Random, pl: Planter) -> dict:
    """a dict-rooted tree; half of them shaped like the env `Guard` builds (so the default set bites)"""
    if r.random() < 0.5:
        d = {r.choice(KEYS): gen_tree(r, 3, pl) for _ in range(r.randrange(0, 5))}
        return d
    sec = lambda: (pl.fresh() if r.random() < 0.7 else r.choice(TEXTS))  # noqa: E731
    attrs = {}
    for k in r.sample(["password", "token", "mfa_code", "email", "phone", "level", "dept"], r.randrange(0, 6)):
        attrs[k] = sec() if k not in ("level", "dept") else r.choice([1, "eng"])
    ctx: dict[str, Any] = {}
    if r.random() < 0.7:
        ctx["headers"] = {"authorization": "Bearer " + pl.fresh(), "accept": "*/*"} if r.random() < 0.8 else "raw " + pl.fresh()
        if isinstance(ctx["headers"], dict) and r.random() < 0.4:
            # the same header under another capitalisation next to it, before or after
            other = {r.choice(["Authorization", "AUTHORIZATION"]): "Bearer " + pl.fresh()}
            ctx["headers"] = {**other, **ctx["headers"]} if r.random() < 0.5 else {**ctx["headers"], **other}
    if r.random() < 0.5:
        ctx["cookies"] = {"sid": pl.fresh()} if r.random() < 0.7 else [pl.fresh()]
    if r.random() < 0.6:
        ctx["ip"] = r.choice(["10.0.0.1", "::1", pl.fresh()])
    if r.random() < 0.4:
        ctx[r.choice(KEYS)] = gen_tree(r, 2, pl)
    env = {"subject": {"id": "u1", "roles": ["user"], "attrs": attrs}, "action": "read",
           "resource": {"type": "doc", "id": "1", "attrs": {"secret": sec(), "owner": "bob"} if r.random() < 0.7 else {}},
           "context": ctx}
    if r.random() < 0.3:
        env["subject"]["attrs"] = r.choice([None, "flat " + pl.fresh(), [pl.fresh()]])
    return env


def garbage_paths(r: random.Random, keys: list[str]) -> list[str]:
    k = r.choice(keys) if keys else "a"
    return [f"{k}[x]", f"{k}[1", f"{k}[ 1 ]", f"{k}[]", f"{k}[0][1]", "", ".", f"{k}..b", f"{k}.", f".{k}", "[0]",
            f"{k}[+1]", f"{k}[1_0]", f"{k}[-0]", f"{k}]", f"{k}[", f"{k}[ -1 ]", f"{k}[0x1]", f"{k}[1.0]", f"{k}[--1]",
            f"{k}[0].b[x].c", f"{k}.b[-5].c", f"{k}[\t2\n]", f"{k}[1__0]", f"{k}[_1]"]


def gen_paths(r: random.Random, env: Any, n: int) -> tuple[list[str], dict[str, tuple]]:
    """path strings + for those rendered from an existing position by plain keys / non-negative indices, that position"""
    nodes = [(pos, v) for pos, v in walk(env) if pos and render(pos) is not None]
    keys = sorted({p for pos, _ in nodes for p in pos if isinstance(p, str) and render((p,)) is not None})
    out: list[str] = []
    derived: dict[str, tuple] = {}
    for _ in range(n):
        k = r.random()
        if nodes and k < 0.4:
            pos, _ = r.choice(nodes)
            s = render(pos)
            out.append(s)
            derived[s] = pos
        elif nodes and k < 0.52:  # missing intermediates / through a non-object
            pos, _ = r.choice(nodes)
            out.append(render(pos) + r.choice([".zz", ".zz.q", ".zz[1].w", ".zz[0]", ".a.b.c"]))
        elif nodes and k < 0.72:  # list indices in and out of range
            lists = [(pos, v) for pos, v in nodes if isinstance(v, list)]
            if not lists:
                continue
            pos, v = r.choice(lists)
            ln = len(v)
            i = r.choice([0, ln - 1, ln, ln + 2, -1, -ln, -ln - 1, -ln - 3, 1, ln + 300, 499])
            out.append(render(pos) + f"[{i}]" + r.choice(["", "", ".b", ".a", ".zz.q"]))
        elif nodes and k < 0.82:  # overlapping: a path and one of its proper prefixes / extensions
            pos, _ = r.choice(nodes)
            cut = r.randrange(1, len(pos) + 1)
            for q in (pos, pos[:cut]) if r.random() < 0.5 else (pos[:cut], pos):
                s = render(q)
                if s is not None:
                    out.append(s)
                    derived[s] = q
        elif k < 0.92:
            out.append(r.choice(garbage_paths(r, keys)))
        else:
            out.append(".".join(r.choice(KEYS + ["a[0]", "b[1]"]) for _ in range(r.randrange(1, 4))))
    return out, derived


PLACEHOLDERS = ["***", "#", "", None, 0, False, "[MASK]", 1.5, "██"]


def gen_specs(r: random.Random, paths: list[str], malformed: bool = False) -> list:
    specs: list = []
    for _ in range(r.choice([0, 1, 1, 1, 2, 2, 3])):
        fields = [r.choice(paths) for _ in range(r.randrange(0, 5))] if paths else []
        k = r.random()
        if k < 0.4:
            specs.append({"type": "redact_fields", "fields": fields})
        elif k < 0.75:
            s = {"type": "mask_fields", "fields": fields}
            if r.random() < 0.5:
                s["placeholder"] = r.choice(PLACEHOLDERS)
            specs.append(s)
        elif k < 0.84:
            specs.append({"type": r.choice(["noop", "MASK_FIELDS", "", None, 5, "redact"]), "fields": fields, "placeholder": "!"})
        elif k < 0.88:
            specs.append({"fields": fields})
        elif k < 0.95:
            specs.append(r.choice([{"type": "redact_fields"}, {"type": "mask_fields", "fields": None},
                                   {"type": "redact_fields", "fields": []}, {"type": "mask_fields", "fields": 0}]))
        elif malformed:
            specs.append(r.choice([{"type": "mask_fields", "fields": 5}, {"type": "redact_fields", "fields": True},
                                   "redact_fields", None, 7, ["mask_fields"],
                                   {"type": "redact_fields", "fields": r.choice(paths) if paths else "ab"},
                                   {"type": "mask_fields", "fields": {p: 1 for p in fields[:2]}}]))
    return specs


def spec_paths(specs: Any) -> list[tuple[str, Any]] | None:
    """(path, placeholder) of every well-formed known-type spec; None if some spec is malformed (harness-side, for the raw search)"""
    out = []
    for ob in specs or []:
        if not isinstance(ob, dict):
            return None
        f = ob.get("fields", []) or []
        if not isinstance(f, list) or not all(isinstance(p, str) for p in f):
            return None
        if ob.get("type") == "mask_fields":
            out += [(p, ob.get("placeholder", "***")) for p in f]
        elif ob.get("type") == "redact_fields":
            out += [(p, "[REDACTED]") for p in f]
    return out


def py_covered(env: Any, specs: Any, derived: dict[str, tuple]) -> list[str]:
    """independent of the Lean model: secrets all of whose occurrences lie under a configured path that was rendered
    from an existing position with plain keys / non-negative indices (such a write always lands on a dict root)"""
    sp = spec_paths(specs)
    if sp is None or not isinstance(env, dict):
        return []
    roots = [derived[p] for p, _ in sp if p in derived]
    phs = " ".join(str(ph) for _, ph in sp)
    out = []
    for t, poss in secrets_in(env).items():
        if t in phs:
            continue
        if all(any(pos[:len(q)] == q for q in roots) for pos in poss):
            out.append(t)
    return out


# ----------------------------------------------------------------------------- running the real code


class _Capture(logging.Handler):
    def __init__(self):
        super().__init__(level=logging.DEBUG)
        self.records: list[logging.LogRecord] = []

    def emit(self, record: logging.LogRecord) -> None:
        self.records.append(record)


class audit_capture:
    """collect what reaches the `rbacx.audit` logger (harness/real.py disables logging globally)"""

    def __enter__(self):
        self.lg = logging.getLogger("rbacx.audit")
        self.h = _Capture()
        self.saved = (self.lg.level, self.lg.propagate, logging.root.manager.disable)
        self.lg.addHandler(self.h)
        self.lg.setLevel(logging.DEBUG)
        self.lg.propagate = False
        logging.disable(logging.NOTSET)
        return self.h

    def __exit__(self, *exc):
        self.lg.removeHandler(self.h)
        self.lg.setLevel(self.saved[0])
        self.lg.propagate = self.saved[1]
        logging.disable(self.saved[2])
        return False


def impl_setpath(c: dict) -> dict:
    o = copy.deepcopy(c["obj"])
    try:
        enforcer._set_by_path(o, c["path"], c["value"])
    except Exception as e:  # noqa: BLE001
        return {"raised": type(e).__name__, "state": o}
    return {"out": o}


def impl_redact(c: dict) -> dict:
    payload = copy.deepcopy(c["env"])
    specs = copy.deepcopy(c["specs"])
    try:
        out = enforcer.apply_obligations(payload, specs, in_place=c["in_place"])
    except Exception as e:  # noqa: BLE001
        return {"raised": type(e).__name__, "caller_after": payload}
    return {"out": out, "same_object": out is payload, "caller_after": payload}


def logger_kwargs(cfg: dict) -> dict:
    kw: dict[str, Any] = dict(sample_rate=cfg["sample_rate"], as_json=cfg["as_json"], redact_in_place=cfg["in_place"],
                              use_default_redactions=cfg["use_default"], smart_sampling=cfg["smart"],
                              max_env_bytes=cfg["max_env_bytes"])
    if "redactions" in cfg:
        kw["redactions"] = copy.deepcopy(cfg["redactions"])
    if cfg.get("rates") is not None:
        kw["category_sampling_rates"] = dict(cfg["rates"])
    return kw


_LONG_LIVED: dict = {}


def impl_logger(c: dict) -> dict:
    cfg = c["cfg"]
    payload = copy.deepcopy(c["payload"])
    saved_random = dl.random
    calls = []

    def draw():
        calls.append(1)
        return c["draw"]

    try:
        lg = dl.DecisionLogger(**logger_kwargs(cfg))
        dl.random = types.SimpleNamespace(random=draw)
        with audit_capture() as cap:
            lg.log(payload)
        msgs = [r.getMessage() for r in cap.records if r.levelno == lg.level]
        others = [r.getMessage() for r in cap.records if r.levelno != lg.level]
        # the same record through ONE long-lived logger per configuration: a logger carries no state from one record to the next
        try:
            key = json.dumps(logger_kwargs(cfg), sort_keys=True, default=repr)
        except Exception:  # noqa: BLE001
            key = None
        if key is not None:
            old_lg = _LONG_LIVED.get(key)
            if old_lg is None:
                old_lg = _LONG_LIVED[key] = dl.DecisionLogger(**logger_kwargs(copy.deepcopy(cfg)))
            n_before = len(calls)
            with audit_capture() as cap2:
                old_lg.log(copy.deepcopy(c["payload"]))
            del calls[n_before:]
            msgs2 = [r.getMessage() for r in cap2.records if r.levelno == old_lg.level]
            if msgs2 != msgs:
                return {"stateful_logger": True, "fresh": msgs[:1], "long_lived": msgs2[:1], "caller_after": payload}
    except Exception as e:  # noqa: BLE001
        return {"raised": type(e).__name__, "caller_after": payload}
    finally:
        dl.random = saved_random
    res: dict[str, Any] = {"caller_after": payload, "n_messages": len(msgs), "draws": len(calls), "other_level": others}
    if not msgs:
        res["dropped"] = True
        return res
    msg = msgs[0]
    res["raw"] = msg
    try:
        rec = json.loads(msg) if cfg["as_json"] else ast.literal_eval(msg[len("decision "):])
        if not cfg["as_json"] and not msg.startswith("decision "):
            raise ValueError("prefix")
        res["env"] = rec.get("env")
        res["rest_ok"] = {k: v for k, v in rec.items() if k != "env"} == {k: v for k, v in c["payload"].items() if k != "env"}
    except Exception as e:  # noqa: BLE001
        res["unparsed"] = f"{type(e).__name__}: {e}"
    return res


# ----------------------------------------------------------------------------- driver commands


def cfg_cmd(cfg: dict, defaults: list) -> dict:
    j: dict[str, Any] = {"sample_rate": proto.fbits(float(cfg["sample_rate"])), "use_default": bool(cfg["use_default"]),
                         "defaults": proto.enc(defaults), "in_place": bool(cfg["in_place"]), "smart": bool(cfg["smart"]),
                         "max_env_bytes": proto.enc(cfg["max_env_bytes"])}
    r = cfg.get("redactions") if "redactions" in cfg else None
    j["redactions"] = None if r is None else {"v": proto.enc(r)}
    rates = cfg.get("rates")
    j["strategy"] = None if rates is None else [[k, proto.fbits(float(v))] for k, v in rates.items()]
    return j


def size_entry(v: Any) -> list:
    n = jsize(v)
    return [proto.enc(v), None if n is None else str(n)]


def cmd_of(c: dict, out: dict, defaults: list, extra_sizes: list | None = None) -> dict:
    k = c["kind"]
    if k == "pyint":
        return {"cmd": "pyint", "s": c["s"]}
    if k == "fnum":
        return {"cmd": "fnum", "f": proto.fbits(c["f"])}
    if k == "setpath":
        return {"cmd": "setpath", "obj": proto.enc(c["obj"]), "path": c["path"], "value": proto.enc(c["value"]),
                "impl": {"v": proto.enc(out["out"])} if "out" in out else None}
    if k == "redact":
        return {"cmd": "redact", "env": proto.enc(c["env"]), "specs": proto.enc(c["specs"]), "in_place": c["in_place"],
                "secrets": c["secrets"], "impl": {"v": proto.enc(out["out"])} if "out" in out else None}
    if k == "logger":
        sizes = list(extra_sizes or [])
        impl = None
        if out.get("dropped"):
            impl = {"dropped": True}
        elif "env" in out:
            impl = {"env": proto.enc(out["env"])}
            sizes.append(size_entry(out["env"]))
        return {"cmd": "logger", "cfg": cfg_cmd(c["cfg"], defaults), "payload": proto.enc(c["payload"]),
                "draw": proto.fbits(c["draw"]), "sizes": sizes, "secrets": c["secrets"], "impl": impl}
    raise lib.CheckError(f"unknown case kind {k}")


def run_impl(c: dict) -> dict:
    k = c["kind"]
    if k == "pyint":
        try:
            return {"ok": str(int(c["s"]))}
        except ValueError:
            return {"invalid": True}
    if k == "fnum":
        f = c["f"]
        if f != f:
            return {"k": "nan"}
        if math.isinf(f):
            return {"k": str((1 if f > 0 else -1) * 2**2100)}
        n, d = f.as_integer_ratio()
        assert (n * 2**1074) % d == 0
        return {"k": str(n * 2**1074 // d)}
    return {"setpath": impl_setpath, "redact": impl_redact, "logger": impl_logger}[k](c)


# ----------------------------------------------------------------------------- verdict of one case


def judge(c: dict, out: dict, ans: Any) -> tuple[bool, list[str], str, bool]:
    """(disagrees, spec failures, outcome class, nontrivial)"""
    k = c["kind"]
    fails: list[str] = []
    if k == "pyint":
        return out != ans, [], "pyint/" + ("ok" if "ok" in out else "invalid"), "ok" in out
    if k == "fnum":
        return out["k"] != ans, [], "fnum", True
    if isinstance(ans.get("spec_model"), dict) and not all(ans["spec_model"].values()) or ans.get("spec_model") is False:
        raise lib.CheckError(f"spec predicate is false on the model's own output (theorem/spec mismatch): {json.dumps(c, default=str)[:600]} -> {ans.get('spec_model')}")
    if k == "setpath":
        if "raised" in out:
            fails.append(f"_set_by_path raised {out['raised']} (c19_redaction_total)")
            return True, fails, "setpath/raised", True
        dis = proto.canon(out["out"]) != json.dumps(ans["out"], separators=(",", ":"))
        if ans["spec_impl"] is False:
            fails.append("placeholder not readable at a path that lands (c19_placeholder_at_path)")
        changed = proto.canon(out["out"]) != proto.canon(c["obj"])
        cls = "setpath/" + ("lands" if ans["lands"] else ("noop-partial" if changed else "noop"))
        return dis, fails, cls, changed
    if k == "redact":
        wf = ans["wf"]
        if "raised" in out:
            if wf:
                fails.append(f"apply_obligations raised {out['raised']} on well-formed specs (c19_redaction_total)")
            dis = not ans["raised"] or proto.canon(out["caller_after"]) != json.dumps(ans["caller_after"], separators=(",", ":"))
            return dis, fails, "redact/raised" + ("" if wf else "-malformed"), False
        dis = ans["raised"] or proto.canon(out["out"]) != json.dumps(ans["out"], separators=(",", ":")) \
            or proto.canon(out["caller_after"]) != json.dumps(ans["caller_after"], separators=(",", ":"))
        if not c["in_place"] and proto.canon(out["caller_after"]) != proto.canon(c["env"]):
            fails.append("caller's payload modified although in_place=False (c19_caller_untouched)")
        if out["same_object"] != bool(c["in_place"]):
            fails.append("returned object identity does not match in_place")
        sp = ans.get("spec_impl") or {}
        for name, ok in sp.items():
            if not ok:
                fails.append(f"spec {name} false on the implementation's output")
        raw = json.dumps(out["out"], ensure_ascii=False)
        for s in set(ans["covered"]) | set(c.get("py_covered", [])):
            if s in raw:
                fails.append(f"secret {s} present in the redacted payload")
        changed = proto.canon(out["out"]) != proto.canon(c["env"])
        cls = "redact/" + ("changed" if changed else "unchanged") + ("/in-place" if c["in_place"] else "")
        return dis, fails, cls, changed
    # logger
    if out.get("stateful_logger"):
        fails.append("a long-lived DecisionLogger emitted another record than a fresh one with the same configuration (state carried across records)")
        return True, fails, "logger/stateful", True
    if "raised" in out:
        fails.append(f"DecisionLogger.log raised {out['raised']}")
        return True, fails, "logger/raised", True
    if ans["model"] is None:
        raise lib.CheckError("logger: model result missing after the size pass")
    if out["n_messages"] > 1:
        fails.append("more than one record emitted")
    if "unparsed" in out:
        raise lib.CheckError(f"cannot parse the emitted message back: {out['unparsed']}: {out.get('raw', '')[:300]}")
    m = ans["model"]
    cfg = c["cfg"]
    if not cfg["in_place"] and proto.canon(out["caller_after"]) != proto.canon(c["payload"]):
        fails.append("caller's payload modified although redact_in_place=False (c19_caller_untouched)")
    sp = ans.get("spec_impl") or {}
    for name, ok in sp.items():
        if not ok:
            fails.append(f"spec {name} false on the implementation's record")
    if ans.get("wf"):
        # a record at any other level (a debug trace, a warning) goes to the same sink: it must not carry a covered secret either
        for s in set(ans.get("covered") or []) | set(c.get("py_covered", [])):
            if any(s in m for m in out.get("other_level", [])):
                fails.append(f"secret {s} present in a record emitted at another level")
    if out.get("dropped"):
        dis = not m.get("dropped")
        return dis, fails, "logger/dropped/" + ("rate<=0" if ans["eff_rate"] != "nan" and int(ans["eff_rate"]) <= 0 else "draw"), \
            not (ans["eff_rate"] != "nan" and int(ans["eff_rate"]) <= 0)
    dis = bool(m.get("dropped")) or proto.canon(out["env"]) != json.dumps(m["env"], separators=(",", ":"))
    if out.get("rest_ok") is False:
        fails.append("fields of the record other than env differ from the payload")
    truncated = (not m.get("dropped")) and m.get("truncated")
    if ans["wf"]:
        for s in set(ans["covered"]) | set(c.get("py_covered", [])):
            if s in out["raw"]:
                fails.append(f"secret {s} present in the raw emitted message")
    env0 = c["payload"].get("env") or {}
    changed = proto.canon(out["env"]) != proto.canon(env0)
    cls = "logger/emitted/" + ("truncated" if truncated else ("redacted" if changed else "plain")) + \
        ("/json" if cfg["as_json"] else "/text") + ("" if ans["wf"] else "/malformed-fallback")
    return dis, fails, cls, changed


def evaluate(cases: list[dict], defaults: list) -> list[tuple[dict, dict, Any]]:
    outs = [run_impl(c) for c in cases]
    answers = proto.run_driver([cmd_of(c, o, defaults) for c, o in zip(cases, outs)])
    # second pass: the model needs the serialised size of *its* redacted env
    again = [i for i, (c, a) in enumerate(zip(cases, answers)) if c["kind"] == "logger" and a.get("need_size")]
    if again:
        cmds = [cmd_of(cases[i], outs[i], defaults, [size_entry(proto.dec(answers[i]["redacted"]))]) for i in again]
        for i, a in zip(again, proto.run_driver(cmds)):
            answers[i] = a
    return list(zip(cases, outs, answers))


# ----------------------------------------------------------------------------- case generation

POOL = [
    {}, {"a": 1}, {"a": {}}, {"a": {"b": "~S01~"}}, {"a": []}, {"a": [{"b": "~S01~"}]},
    {"a": [1, {"b": "~S01~"}, "~S02~"]}, {"a": "~S01~", "b": {"a": "~S02~"}}, {"a": [[1]], "b": [{"a": 2}]},
    {"a": {"a": {"a": "~S01~"}}, "": {"a": 1}}, {"a": None, "b": [{}], "a[0]": "~S01~"},
    {"b": [{"a": [{"b": "~S01~"}]}, {"a": "~S02~"}]},
]
NON_DICT_ROOTS = [[], "x", None, [{"a": 1}]]
SEGS = ["a", "b", "a[0]", "a[1]", "a[-1]", "a[-2]", "b[0]", "b[2]", "a[x]", "a[1", "a[ 1 ]", "a[]", "[0]", "", "a[0][0]",
        "a[+0]"]
PAIR_PATHS = ["a", "a.b", "a[0]", "a[0].b", "a[-1]", "a[1].b", "b.a", "b[0].a", "a[x].b", "a.a.a", "a[-1].b", "b[1].a"]


def pyint_cases(quick: bool):
    alpha = " \t+-_019x]"
    for n in range(0, 5 if quick else 6):
        for t in itertools.product(alpha, repeat=n):
            yield {"kind": "pyint", "s": "".join(t)}
    for s in ["\x1c1", "1\x1f", "\x0b1\x0c", "1\r", "007", "-007", "1_000_000", "9" * 40, "-" + "9" * 40, "0_0", "\n-1\n"]:
        yield {"kind": "pyint", "s": s}


def fnum_cases():
    for f in [0.0, -0.0, 5e-324, 1e-300, 0.25, 0.5, BELOW_ONE, 1.0, ABOVE_ONE, 2.0, 1.7976931348623157e308, -1.0,
              float("inf"), float("-inf"), float("nan"), 0.1, 1 / 3]:
        yield {"kind": "fnum", "f": f}


def setpath_cases(quick: bool):
    paths = list(SEGS) + [f"{p}.{q}" for p in SEGS for q in SEGS]
    if not quick:
        small = ["a", "b", "a[0]", "a[-1]", "a[1]", "b[0]", "a[x]", ""]
        paths += [".".join(t) for t in itertools.product(small, repeat=3)]
    for obj in POOL + NON_DICT_ROOTS:
        for p in paths:
            yield {"kind": "setpath", "obj": obj, "path": p, "value": "***"}
    for obj in POOL[:6]:
        for p in SEGS:
            for v in [None, {"k": [1]}, [], 0]:
                yield {"kind": "setpath", "obj": obj, "path": p, "value": v}


def redact_pair_cases():
    for env in POOL:
        secrets = sorted(secrets_in(env))
        for p in PAIR_PATHS:
            for q in PAIR_PATHS:
                for ip in (False, True):
                    yield {"kind": "redact", "env": env, "in_place": ip, "secrets": secrets,
                           "specs": [{"type": "redact_fields", "fields": [p]}, {"type": "mask_fields", "fields": [q]}]}
    for env in POOL:
        for specs in [None, [], [{"type": "nope", "fields": ["a"]}], [{"type": "mask_fields"}],
                      [{"type": "mask_fields", "fields": ["a", "b", "a.b"], "placeholder": None}]]:
            yield {"kind": "redact", "env": env, "in_place": False, "secrets": sorted(secrets_in(env)), "specs": specs}


def random_redact_cases(r: random.Random, n: int):
    for i in range(n):
        pl = Planter(r.randrange(0, 50))
        env = gen_env(r, pl)
        paths, derived = gen_paths(r, env, r.randrange(1, 7))
        specs = gen_specs(r, paths, malformed=r.random() < 0.15)
        c = {"kind": "redact", "env": env, "specs": specs, "in_place": r.random() < 0.4,
             "secrets": sorted(secrets_in(env)), "label": f"random-redact#{i}"}
        c["py_covered"] = py_covered(env, specs, derived)
        yield c


RATES = [0.0, -0.0, -1.0, 1e-300, 0.25, 0.5, 0.75, BELOW_ONE, 1.0, ABOVE_ONE, 2.0, float("inf"), float("-inf"),
         float("nan"), 0, 1, True]
DRAWS = [0.0, 5e-324, 0.25, 0.5, 0.75, BELOW_ONE]
PAYLOAD_CATS = [
    {"decision": "deny", "allowed": False}, {"decision": "deny", "allowed": True, "obligations": [{"type": "x"}]},
    {"decision": "permit", "allowed": False}, {"decision": "permit", "allowed": True, "obligations": [{"type": "mfa"}]},
    {"decision": "permit", "allowed": True, "obligations": []}, {"decision": "permit", "allowed": True},
    {"allowed": True}, {"decision": None, "allowed": 1, "obligations": None}, {"decision": "Deny", "allowed": "yes"},
    {}, {"decision": "permit", "allowed": True, "obligations": {"k": 1}},
]
STRATEGIES = [None, {}, {"deny": 0.0}, {"permit": 0.5}, {"deny": float("nan")}, {"permit_with_obligations": 2.0, "permit": -1.0},
              {"deny": 0.5, "permit_with_obligations": 0.25, "permit": 0.75}, {"permit": 1}, {"other": 0.0}]
BASE_CFG = {"sample_rate": 1.0, "use_default": False, "in_place": False, "as_json": False, "smart": False, "rates": None,
            "max_env_bytes": None}
SMALL_ENV = {"subject": {"id": "u", "attrs": {"password": "~S01~", "email": "é@x"}}, "context": {"ip": "~S02~"}}


def sampling_cases():
    for rate in RATES:
        for d in DRAWS + ([float(rate)] if isinstance(rate, float) and 0 <= rate < 1 else []):
            for cat in PAYLOAD_CATS[:4]:
                yield {"kind": "logger", "cfg": {**BASE_CFG, "sample_rate": rate}, "payload": {**cat, "env": SMALL_ENV},
                       "draw": d, "secrets": []}
    for strat in STRATEGIES:
        for cat in PAYLOAD_CATS:
            for d in DRAWS:
                for rate in (0.0, 0.5, 1.0):
                    yield {"kind": "logger", "cfg": {**BASE_CFG, "smart": True, "rates": strat, "sample_rate": rate},
                           "payload": {**cat, "env": SMALL_ENV}, "draw": d, "secrets": []}


def priority_cases(defaults: list):
    envs = [SMALL_ENV, {"subject": {"attrs": {"token": "~S01~", "phone": "~S02~", "mfa_code": "~S03~"}},
                        "context": {"headers": {"authorization": "Bearer ~S04~"}, "cookies": {"sid": "~S05~"}, "ip": "::1"},
                        "resource": {"attrs": {"secret": "~S06~"}}}, {}, None, "absent",
            {"subject": "~S01~", "context": ["~S02~"]}]
    explicit = [("absent", None), ("none", None), ("empty", []), ("one", [{"type": "mask_fields", "fields": ["context.ip"], "placeholder": "#"}]),
                ("unknown-only", [{"type": "noop", "fields": ["subject"]}])]
    for env in envs:
        for tag, red in explicit:
            for ud in (False, True):
                for ip in (False, True):
                    for aj in (False, True):
                        cfg = {**BASE_CFG, "use_default": ud, "in_place": ip, "as_json": aj}
                        if tag != "absent":
                            cfg["redactions"] = red
                        payload = {"decision": "permit", "allowed": True}
                        if env != "absent":
                            payload["env"] = env
                        yield {"kind": "logger", "cfg": cfg, "payload": payload, "draw": 0.5,
                               "secrets": sorted(secrets_in(env)) if isinstance(env, dict) else []}


def bounds_for(c: dict, defaults: list) -> list:
    """bounds around the exact sizes: run the code unbounded once, measure what it emitted"""
    probe = impl_logger({**c, "cfg": {**c["cfg"], "max_env_bytes": None, "sample_rate": 1.0, "smart": False}, "draw": 0.0})
    env0 = c["payload"].get("env") or {}
    cands = {1, 10**6}
    for v in ([probe["env"]] if "env" in probe else []) + [env0]:
        n = jsize(v)
        if n is not None:
            chars = len(json.dumps(v, ensure_ascii=False))
            cands |= {n - 1, n, n + 1, chars, chars - 1, 2 * chars, 3 * chars, 3 * chars + 1, (3 * chars + n) // 2}
    return sorted(x for x in cands if x > 0)


def size_cases(r: random.Random, n: int, defaults: list):
    # text outside the Basic Multilingual Plane (4 UTF-8 bytes per character): every bound between 3·chars and the real size
    for k, count in enumerate((3, 11, 40)):
        env = {"\U0001f511\U0001f511": "\U0001f600" * count, "x": {"\U00010348": ["\U0001f680" * (count // 2 + 1)]}}
        cfg = {**BASE_CFG, "as_json": k % 2 == 0, "in_place": False}
        base = {"kind": "logger", "cfg": cfg, "payload": {"decision": "permit", "allowed": True, "env": env}, "draw": 0.5, "secrets": []}
        base["py_covered"] = py_covered(env, [], {})
        size = jsize(env)
        chars = len(json.dumps(env, ensure_ascii=False))
        for b in sorted(set(range(3 * chars - 2, 3 * chars + 3)) | set(range(size - 3, size + 3)) | {(3 * chars + size) // 2, 2 * chars, chars}):
            yield {**base, "cfg": {**cfg, "max_env_bytes": b}, "label": f"astral#{k}/{b}"}
    for i in range(n):
        pl = Planter(r.randrange(0, 50))
        env = gen_env(r, pl)
        if r.random() < 0.7:
            env[r.choice(["note", "é", "k"])] = r.choice(TEXTS) * r.randrange(1, 4)
        paths, derived = gen_paths(r, env, r.randrange(1, 5))
        cfg = {**BASE_CFG, "as_json": r.random() < 0.5, "in_place": r.random() < 0.3}
        mode = r.random()
        if mode < 0.6:
            cfg["redactions"] = gen_specs(r, paths)
        elif mode < 0.8:
            cfg["use_default"] = True
        base = {"kind": "logger", "cfg": cfg, "payload": {"decision": "permit", "allowed": True, "env": env}, "draw": 0.5,
                "secrets": sorted(secrets_in(env))}
        eff = cfg.get("redactions") if cfg.get("redactions") is not None else (defaults if cfg["use_default"] else [])
        base["py_covered"] = py_covered(env, eff, derived)
        bs = bounds_for(base, defaults)
        for b in r.sample(bs, min(len(bs), 4)) + r.sample([0, -5, True, 10.0, None, "100"], 1):
            yield {**base, "cfg": {**cfg, "max_env_bytes": b}, "label": f"size#{i}/{b!r}"}


def random_logger_cases(r: random.Random, n: int, defaults: list):
    for i in range(n):
        pl = Planter(r.randrange(0, 50))
        env = gen_env(r, pl)
        paths, derived = gen_paths(r, env, r.randrange(1, 7))
        cfg = {**BASE_CFG, "as_json": r.random() < 0.5, "in_place": r.random() < 0.4,
               "sample_rate": r.choice([1.0, 1.0, 1.0, 0.5, 0.0, 2.0, 0.75])}
        mode = r.random()
        if mode < 0.55:
            cfg["redactions"] = gen_specs(r, paths, malformed=r.random() < 0.1)
        elif mode < 0.65:
            cfg["redactions"] = r.choice([[], None])
            cfg["use_default"] = r.random() < 0.7
        elif mode < 0.9:
            cfg["use_default"] = True
        if r.random() < 0.3:
            cfg["smart"] = True
            cfg["rates"] = r.choice(STRATEGIES)
        if r.random() < 0.3:
            n0 = jsize(env) or 50
            cfg["max_env_bytes"] = r.choice([n0, n0 // 2, n0 * 2, 40, 1])
        payload = {**r.choice(PAYLOAD_CATS), "env": env, "rule_id": "r1", "reason": "matched"}
        if r.random() < 0.05:
            payload["env"] = r.choice([None, {}])
        eff = cfg.get("redactions") if cfg.get("redactions") is not None else (defaults if cfg["use_default"] else [])
        yield {"kind": "logger", "cfg": cfg, "payload": payload, "draw": r.choice(DRAWS + [r.random()]),
               "secrets": sorted(secrets_in(env)), "py_covered": py_covered(env, eff, derived), "label": f"random-logger#{i}"}


def corpus_cases():
    """witnesses of the two defects found at design time and since fixed in /repo (DESIGN §6 F12, F13); run first"""
    # F13: an index before the start of a list raised IndexError and the logger fell back to the *unredacted* env
    env = {"subject": {"attrs": {"password": "~S01~"}}, "items": []}
    specs = [{"type": "redact_fields", "fields": ["items[-1].x", "subject.attrs.password"]}]
    for aj in (False, True):
        yield {"kind": "logger", "cfg": {**BASE_CFG, "redactions": specs, "as_json": aj}, "draw": 0.5, "secrets": ["~S01~"],
               "payload": {"decision": "deny", "allowed": False, "env": env}, "py_covered": ["~S01~"], "label": "corpus/F13"}
    yield {"kind": "redact", "env": env, "specs": specs, "in_place": False, "secrets": ["~S01~"], "py_covered": ["~S01~"],
           "label": "corpus/F13-direct"}
    # F12: the bound was compared with len(str) (characters): a non-ASCII env above the bound in bytes was emitted in full
    env2 = {"name": "é" * 9}
    chars = len(json.dumps(env2, ensure_ascii=False))
    for b in (chars, chars + 1, jsize(env2) - 1, jsize(env2)):
        yield {"kind": "logger", "cfg": {**BASE_CFG, "max_env_bytes": b}, "draw": 0.5, "secrets": [],
               "payload": {"decision": "permit", "allowed": True, "env": env2}, "label": f"corpus/F12/{b}"}


def all_cases(run: lib.Run, defaults: list, scale: int = 1):
    quick = run.tier == "quick"
    if scale == 1:
        yield from corpus_cases()
        yield from pyint_cases(quick)
        yield from fnum_cases()
        yield from setpath_cases(quick)
        yield from redact_pair_cases()
        yield from sampling_cases()
        yield from priority_cases(defaults)
    r = random.Random(run.seed * 7919 + 19 + (scale - 1) * 104729)
    yield from random_redact_cases(r, (8000 if quick else 60000) * scale)
    yield from size_cases(r, (800 if quick else 6000) * scale, defaults)
    yield from random_logger_cases(r, (8000 if quick else 60000) * scale, defaults)


# ----------------------------------------------------------------------------- shrinking


def _failing(c: dict, defaults: list) -> bool:
    try:
        (_, out, ans), = evaluate([c], defaults)
        return bool(judge(c, out, ans)[1])
    except lib.CheckError:
        return False


def _drop_keys(v: Any):
    """candidate one-step reductions of a JSON tree"""
    if isinstance(v, dict):
        for k in list(v):
            yield {a: b for a, b in v.items() if a != k}
        for k, x in v.items():
            for y in _drop_keys(x):
                yield {**v, k: y}
    elif isinstance(v, list):
        for i in range(len(v) - 1, -1, -1):
            yield v[:i] + v[i + 1:]
        for i, x in enumerate(v):
            for y in _drop_keys(x):
                yield v[:i] + [y] + v[i + 1:]


def shrink(c: dict, defaults: list, budget: int = 150) -> dict:
    if c["kind"] not in ("redact", "logger"):
        return c
    cur = copy.deepcopy(c)
    cur.pop("py_covered", None)   # stale as soon as specs/env change: shrink against the Lean predicates only
    if not _failing(cur, defaults):
        return c

    def get_specs(x):
        return x["specs"] if x["kind"] == "redact" else x["cfg"].get("redactions")

    def with_specs(x, s):
        return {**x, "specs": s} if x["kind"] == "redact" else {**x, "cfg": {**x["cfg"], "redactions": s}}

    def get_env(x):
        return x["env"] if x["kind"] == "redact" else x["payload"].get("env")

    def with_env(x, e):
        return {**x, "env": e} if x["kind"] == "redact" else {**x, "payload": {**x["payload"], "env": e}}

    specs = get_specs(cur)
    if isinstance(specs, list) and specs:
        specs = lib.shrink_list(specs, lambda s: _failing(with_specs(cur, s), defaults), budget=20)
        cur = with_specs(cur, specs)
        for i, ob in enumerate(specs):
            if isinstance(ob, dict) and isinstance(ob.get("fields"), list):
                f = lib.shrink_list(ob["fields"], lambda fs, i=i, ob=ob: _failing(
                    with_specs(cur, specs[:i] + [{**ob, "fields": fs}] + specs[i + 1:]), defaults), budget=12)
                specs = specs[:i] + [{**ob, "fields": f}] + specs[i + 1:]
                cur = with_specs(cur, specs)
    env = get_env(cur)
    progress = True
    while progress and budget > 0 and isinstance(env, dict):
        progress = False
        for cand in _drop_keys(env):
            budget -= 1
            if budget <= 0:
                break
            if _failing(with_env(cur, cand), defaults):
                env = cand
                cur = with_env(cur, cand)
                progress = True
                break
    e = get_env(cur)
    trimmed = {**cur, "secrets": sorted(secrets_in(e)) if isinstance(e, (dict, list)) else []}
    return trimmed if _failing(trimmed, defaults) else cur


# ----------------------------------------------------------------------------- coverage of the anchored functions


def anchored_coverage(cases: list[dict]) -> dict:
    files = {enforcer.__file__: "enforcer.py", dl.__file__: "decision_logger.py"}
    hit: dict[str, set[int]] = {v: set() for v in files.values()}

    def tracer(frame, event, arg):
        name = files.get(frame.f_code.co_filename)
        if name is None:
            return None
        if event == "line":
            hit[name].add(frame.f_lineno)
        return tracer

    sys.settrace(tracer)
    try:
        for c in cases:
            if c["kind"] in ("setpath", "redact", "logger"):
                run_impl(c)
    finally:
        sys.settrace(None)
    res = {}
    for path, name in files.items():
        code = compile(open(path, encoding="utf-8").read(), path, "exec")
        lines: set[int] = set()

        def collect(co, top=True):
            if not top and co.co_flags & 0x1:   # function bodies only (class bodies run at import time)
                lines.update(ln for _, _, ln in co.co_lines() if ln is not None and ln != co.co_firstlineno)
            for k in co.co_consts:
                if isinstance(k, types.CodeType):
                    collect(k, False)
        collect(code)
        res[name] = {"lines_hit": len(hit[name] & lines), "lines_in_functions": len(lines),
                     "missed": sorted(lines - hit[name])[:20]}
    return res



# ----------------------------------------------------------------------------- the translated enforcer vs the real one


def translated_jobs(run: lib.Run):
    """(function, args) for the translated-source comparison: the exhaustive `_set_by_path` grid of the correspondence check, seeded
    random trees with paths derived from them (`gen_paths`, garbage included), every garbage path on a list-bearing tree, and spec lists
    (`gen_specs`, malformed ones too) through `apply_obligations` with and without `in_place`"""
    quick = run.tier == "quick"
    for c in setpath_cases(True):
        yield "_set_by_path", [c["obj"], c["path"], c["value"]]
    r = random.Random(run.seed * 7919 + 1919)
    for k in ("a", "b", "items"):
        for g in garbage_paths(random.Random(0), [k]):
            for obj in ({}, {k: []}, {k: [{"b": [1]}, 2]}, {k: {"b": 1}}, [k], None):
                yield "_set_by_path", [obj, g, "***"]
    for _ in range((1500 if quick else 15000) * run.boost):
        pl = Planter(r.randrange(0, 50))
        env = gen_env(r, pl) if r.random() < 0.8 else gen_tree(r, 3, pl)
        paths, _ = gen_paths(r, env, r.randrange(1, 5))
        for p in paths:
            yield "_set_by_path", [env, p, r.choice(PLACEHOLDERS)]
        if r.random() < 0.6:
            specs = gen_specs(r, paths, malformed=r.random() < 0.1)
            yield "apply_obligations", [env, specs if specs or r.random() < 0.7 else None, r.random() < 0.4]
    for c in itertools.islice(redact_pair_cases(), 0, None, 7 if quick else 1):
        yield "apply_obligations", [c["env"], c["specs"], c["in_place"]]


def translated_vs_python(run: lib.Run) -> tuple[bool, str]:
    """the translated enforcer (Generated.Src.set_by_path / apply_obligations, evaluated by `lake env lean --run
    Rbacx/Run/SrcEvalEnforcer.lean`) against the real `_set_by_path` (on a deep copy; compared is what the caller's object looks like
    afterwards, dict key order included) and `apply_obligations` (the returned payload).  For `_set_by_path` an escaping exception is
    compared too (the translation tracks them); a raising `apply_obligations` (malformed specs: outside the total reading) is not judged.
    Validates the translator harness/pytolean_cursor.py and Model/PyCursor.lean, the two things the obligation C19_translated trusts."""
    import subprocess
    calls = []
    for fn, args in translated_jobs(run):
        a = copy.deepcopy(args)
        try:
            if fn == "_set_by_path":
                enforcer._set_by_path(a[0], a[1], a[2])
                want = ("ok", a[0])
            else:
                want = ("ok", enforcer.apply_obligations(a[0], a[1], in_place=a[2]))
        except Exception as e:  # noqa: BLE001
            want = ("raised", type(e).__name__)
        calls.append((fn, args, want))
    lines = [json.dumps({"fn": fn, "args": [proto.enc(x) for x in args]}) for fn, args, _ in calls]
    p = subprocess.run(["lake", "env", "lean", "--run", "Rbacx/Run/SrcEvalEnforcer.lean"], cwd=lib.LEAN, input="\n".join(lines) + "\n",
                       capture_output=True, text=True, timeout=900)
    outs = [ln for ln in p.stdout.split("\n") if ln]
    if p.returncode != 0 or len(outs) != len(lines):
        return False, "SrcEvalEnforcer: " + (p.stderr or p.stdout)[-800:]
    bad = 0
    for (fn, args, want), ln in zip(calls, outs):
        got = json.loads(ln)
        if "error" in got:
            return False, f"SrcEvalEnforcer: {ln[:300]}"
        run.count("translated-enforcer")
        if want[0] != "ok" and fn == "apply_obligations":
            run.count("translated-enforcer: apply_obligations raised in python (not judged)")
            continue
        if want[0] == "ok":
            changed = proto.canon(want[1]) != proto.canon(args[0])
            run.count(f"translated-enforcer: {fn} " + ("changed the tree" if changed else "no-op"))
            same = "value" in got and json.dumps(got["value"], separators=(",", ":")) == proto.canon(want[1])
        else:
            run.count(f"translated-enforcer: {fn} raised")
            same = bool(got.get("raised"))
        if not same:
            bad += 1
            if bad == 1:
                run.disagreements.append({"part": "translated source vs python", "function": fn, "args": args,
                                          "impl": {"python": want[1]}, "model": got,
                                          "what": f"the translated {fn} (Generated.Src, cursor translation) and the real function differ"})
    run.evaluations += len(calls)
    return bad == 0, f"{bad} of {len(calls)} evaluations differ" if bad else f"agree on {len(calls)} evaluations"


# ----------------------------------------------------------------------------- the translated logger vs the real DecisionLogger


def fnum_text(f: float) -> str:
    """the exact order embedding of a double (the model's FNum): x·2^1074 as a decimal integer, ±2^2100 for ±inf, "nan" """
    if f != f:
        return "nan"
    if math.isinf(f):
        return str((1 if f > 0 else -1) * 2**2100)
    n, d = f.as_integer_ratio()
    assert (n * 2**1074) % d == 0
    return str(n * 2**1074 // d)


MALFORMED_SPECS = [
    [5], ["mask_fields"], [None],
    [{"type": "mask_fields", "fields": ["subject.id"]}, 7],
    [{"type": "redact_fields", "fields": ["context.ip", "subject.attrs.password"]}, {"type": "mask_fields", "fields": 5}],
    [{"type": "mask_fields", "fields": True}],
    [{"type": "redact_fields", "fields": ["subject.attrs.email"]}, {"type": "mask_fields", "fields": ["subject.id"], "placeholder": "#"}, "x"],
]
MULTIBYTE_ENVS = [
    {"subject": {"id": "ü", "attrs": {"password": "пароль", "email": "é@x"}}, "context": {"ip": "日本語"}},
    {"\U0001f511": "\U0001f600" * 3, "context": {"ip": "10.0.0.1", "note": "é" * 5}},
    {"subject": {"attrs": {"token": "t"}}, "k": ["ß", {"я": 1.5}]},
]


def logger_translated_jobs(run: lib.Run, defaults: list):
    """logger cases `{cfg, payload, draw}` for the translated-logger comparison: the rate × draw × category × strategy grid and the
    redactions × use_default × in_place × as_json grid of the correspondence check, draws at 0.0 / the largest double below 1 / the rate
    itself, size bounds around the exact UTF-8 size of multi-byte envs (and non-int / non-positive bounds), malformed spec lists that make
    apply_obligations raise (after a well-formed spec, with and without in_place), envs json.dumps cannot serialise, seeded random configs"""
    quick = run.tier == "quick"
    for c in corpus_cases():
        if c["kind"] == "logger":
            yield c
    yield from sampling_cases()
    yield from priority_cases(defaults)
    base_payload = {"decision": "permit", "allowed": True, "rule_id": "r"}
    # size bounds around the exact size, every redaction source
    for env in MULTIBYTE_ENVS:
        for red in ("absent", [], [{"type": "mask_fields", "fields": ["context.ip", "subject.attrs.password"], "placeholder": "█"}], "default"):
            for ip in (False, True):
                cfg = {**BASE_CFG, "in_place": ip, "as_json": ip}
                if red == "default":
                    cfg["use_default"] = True
                elif red != "absent":
                    cfg["redactions"] = red
                probe = {"kind": "logger", "cfg": cfg, "payload": {**base_payload, "env": env}, "draw": 0.5, "secrets": []}
                for b in bounds_for(probe, defaults) + [0, -5, True, False, 10.0, "100", None]:
                    yield {**probe, "cfg": {**cfg, "max_env_bytes": b}}
    # apply_obligations raises: the outer `except` emits env_obj as it is then
    for specs in MALFORMED_SPECS:
        for ip in (False, True):
            for mb in (None, 1, 10**6):
                for aj in (False, True):
                    yield {"kind": "logger", "cfg": {**BASE_CFG, "redactions": specs, "in_place": ip, "max_env_bytes": mb, "as_json": aj},
                           "payload": {**base_payload, "env": SMALL_ENV}, "draw": 0.25, "secrets": []}
    # json.dumps raises on the env (a datetime): the inner `except` keeps the redacted env
    from datetime import datetime, timezone
    for when in (datetime(2024, 5, 6, 7, 8, 9), datetime(2024, 1, 1, tzinfo=timezone.utc)):
        env = {"subject": {"id": "u", "attrs": {"password": "p"}}, "context": {"ip": "::1", "at": when}}
        for red in ("absent", [{"type": "redact_fields", "fields": ["subject.attrs.password"]}], [{"type": "redact_fields", "fields": ["context.at"]}], "default"):
            for mb in (None, 1, 10**6):
                for ip in (False, True):
                    cfg = {**BASE_CFG, "in_place": ip, "max_env_bytes": mb}
                    if red == "default":
                        cfg["use_default"] = True
                    elif red != "absent":
                        cfg["redactions"] = red
                    yield {"kind": "logger", "cfg": cfg, "payload": {**base_payload, "env": env}, "draw": 0.0, "secrets": []}
    r = random.Random(run.seed * 7919 + 1921)
    yield from size_cases(r, (40 if quick else 400) * run.boost, defaults)
    yield from random_logger_cases(r, (500 if quick else 6000) * run.boost, defaults)


def _init_line(cfg: dict) -> dict:
    rates = cfg.get("rates")
    return {"sample_rate": fnum_text(float(cfg["sample_rate"])), "redactions": proto.enc(cfg["redactions"]) if "redactions" in cfg else None,
            "redact_in_place": proto.enc(cfg["in_place"]), "use_default_redactions": proto.enc(cfg["use_default"]),
            "smart_sampling": proto.enc(cfg["smart"]),
            "category_sampling_rates": None if rates is None else [[k, fnum_text(float(v))] for k, v in rates.items()],
            "max_env_bytes": proto.enc(cfg["max_env_bytes"])}


def _record_of(msg: str, as_json: bool) -> Any:
    """the record `safe` back from the message handed to `logging.Logger.log` (JSON, or `decision <repr of the dict>`)"""
    import datetime as _dt
    if as_json:
        return json.loads(msg)
    if not msg.startswith("decision "):
        raise ValueError("prefix")
    return eval(msg[len("decision "):], {"__builtins__": {}, "datetime": _dt, "nan": float("nan"), "inf": float("inf")})  # noqa: S307


def real_logger_run(c: dict) -> dict:
    """the REAL DecisionLogger on one case: attributes after __init__, `_should_drop_by_sampling`, and `log` with `random.random`, the
    record handed to `logging.Logger.log` and the call of `apply_obligations` (arguments, outcome, state of its first argument afterwards) captured"""
    cfg = c["cfg"]
    res: dict[str, Any] = {}
    saved_random, saved_apply = dl.random, dl.apply_obligations
    rec: dict[str, Any] = {}

    def spy(payload, obligations, *, in_place=False):
        rec["args"] = copy.deepcopy([payload, obligations, in_place])
        rec["n"] = rec.get("n", 0) + 1
        try:
            out = saved_apply(payload, obligations, in_place=in_place)
        except Exception:
            rec["raised"] = True
            rec["arg"] = copy.deepcopy(payload)
            raise
        rec["returned"] = copy.deepcopy(out)
        rec["arg"] = copy.deepcopy(payload)
        return out

    try:
        lg = dl.DecisionLogger(**logger_kwargs(cfg))
        res["init"] = {"sample_rate": fnum_text(lg.sample_rate), "redactions_provided": proto.enc(lg._redactions_provided),
                       "redactions": proto.enc(lg.redactions), "redact_in_place": proto.enc(lg.redact_in_place),
                       "use_default_redactions": proto.enc(lg.use_default_redactions), "smart_sampling": proto.enc(lg.smart_sampling),
                       "sample_strategy": [[k, fnum_text(float(v))] for k, v in lg.sample_strategy.items()],
                       "max_env_bytes": proto.enc(lg.max_env_bytes)}
        dl.random = types.SimpleNamespace(random=lambda: c["draw"])
        res["should_drop"] = lg._should_drop_by_sampling(copy.deepcopy(c["payload"]))
        dl.apply_obligations = spy
        payload = copy.deepcopy(c["payload"])
        env_before = copy.deepcopy(dict(payload.get("env") or {}))
        with audit_capture() as cap:
            try:
                lg.log(payload)
            except Exception as e:  # noqa: BLE001
                res["log_raised"] = type(e).__name__
        msgs = [r_.getMessage() for r_ in cap.records if r_.levelno == lg.level]
        if "log_raised" not in res:
            if not msgs:
                res["dropped"] = True
            else:
                res["emitted"] = _record_of(msgs[0], cfg["as_json"])
        if rec:
            res["apply"] = rec
        sizes = [env_before] + ([rec["arg"]] if "arg" in rec else []) + ([rec["returned"]] if "returned" in rec else [])
        res["sizes"] = sizes
    finally:
        dl.random, dl.apply_obligations = saved_random, saved_apply
    return res


def logger_translated_vs_python(run: lib.Run, defaults: list) -> tuple[bool, str]:
    """the translated logger (Generated.Src.logger_init / should_drop / logger_log, evaluated by `lake env lean --run
    Rbacx/Run/SrcEvalLogger.lean`) against the REAL `DecisionLogger`: the attributes `__init__` leaves, the value of
    `_should_drop_by_sampling`, and for `log` dropped / the record handed to `logging.Logger.log` (parsed back from the message, dict key order
    included).  The external `apply_obligations` is answered (a) by the outcome of the REAL call (returned value / raised, and what its
    first argument looks like afterwards) and (b), when the real call returned, by the TRANSLATED enforcer `Src.apply_obligations`; the size
    oracle by the stdlib.  Validates harness/pytolean_logger.py and Model/PyLogger.lean, the two things the obligation
    C19_logger_translated trusts."""
    import subprocess
    jobs: list[tuple[dict, dict]] = []
    lines: list[str] = []
    index: list[tuple[int, str]] = []
    seen_init: set[str] = set()
    harness_errors = 0
    for c in logger_translated_jobs(run, defaults):
        try:
            init = _init_line(c["cfg"])
            payload = proto.enc(c["payload"])
        except TypeError:
            continue                      # a value outside the codec (not generated on purpose)
        try:
            real_out = real_logger_run(c)
            json.dumps([proto.enc(v) for v in real_out["sizes"]] + [proto.enc(x) for k in ("args", "arg", "returned")
                                                                     for x in [real_out.get("apply", {}).get(k)] if x is not None])
        except Exception as e:  # noqa: BLE001
            # the constructor / the sampling method raised, or produced something outside the codec: the translation says neither happens
            harness_errors += 1
            run.count("translated-logger: the real DecisionLogger could not be run on the case")
            if harness_errors == 1:
                run.disagreements.append({"part": "translated logger vs python", "function": "run", "case": {k: v for k, v in c.items() if k != "py_covered"},
                                          "impl": {"raised": f"{type(e).__name__}: {e}"[:300]}, "model": None,
                                          "what": "the real DecisionLogger raised outside log() (constructor / _should_drop_by_sampling) or handed "
                                                  "apply_obligations a value outside the JSON domain; the translated one does not"})
            continue
        j = len(jobs)
        jobs.append((c, real_out))
        key = json.dumps(init, sort_keys=True)
        if key not in seen_init:
            seen_init.add(key)
            lines.append(json.dumps({"fn": "init", "init": init}))
            index.append((j, "init"))
        draw = fnum_text(c["draw"])
        lines.append(json.dumps({"fn": "should_drop", "init": init, "draw": draw, "payload": payload}))
        index.append((j, "should_drop"))
        if "log_raised" in real_out:
            continue
        ap = real_out.get("apply")
        apj = None
        if ap is not None:
            apj = {"args": [proto.enc(x) for x in ap["args"]], "arg": proto.enc(ap["arg"])}
            if ap.get("raised"):
                apj["raised"] = True
            else:
                apj["returned"] = proto.enc(ap["returned"])
        sizes = [size_entry(v) for v in real_out["sizes"]]
        base = {"fn": "log", "init": init, "draw": draw, "payload": payload, "sizes": sizes}
        lines.append(json.dumps({**base, "apply": apj}))
        index.append((j, "log"))
        if ap is None or not ap.get("raised"):
            lines.append(json.dumps({**base, "compose": True}))
            index.append((j, "log-composed"))
    p = subprocess.run(["lake", "env", "lean", "--run", "Rbacx/Run/SrcEvalLogger.lean"], cwd=lib.LEAN, input="\n".join(lines) + "\n",
                       capture_output=True, text=True, timeout=900)
    outs = [ln for ln in p.stdout.split("\n") if ln]
    if p.returncode != 0 or len(outs) != len(lines):
        return False, "SrcEvalLogger: " + (p.stderr or p.stdout)[-800:]
    bad = 0
    for (j, what), ln in zip(index, outs):
        c, real_out = jobs[j]
        got = json.loads(ln)
        if "error" in got:
            return False, f"SrcEvalLogger: {ln[:300]}"
        run.count("translated-logger")
        if what == "init":
            same = got == real_out["init"]
            run.count("translated-logger: __init__ normalisation")
        elif what == "should_drop":
            same = got.get("value") is real_out["should_drop"]
            run.count("translated-logger: _should_drop_by_sampling " + ("drop" if real_out["should_drop"] else "keep"))
        else:
            ap = real_out.get("apply")
            if "dropped" in real_out:
                same = got.get("dropped") is True
                cls = "dropped"
            else:
                env = real_out["emitted"].get("env") if isinstance(real_out["emitted"], dict) else None
                cls = ("truncated" if isinstance(env, dict) and env.get("_truncated") is True and set(env) == {"_truncated", "size_bytes"}
                       else "apply_obligations raised: env as is" if ap and ap.get("raised")
                       else "size oracle raised: redacted env kept" if c["cfg"].get("max_env_bytes") not in (None, 0) and jsize(env) is None
                       else "redacted" if ap else "no redaction")
                try:
                    same = "emitted" in got and json.dumps(got["emitted"], separators=(",", ":")) == proto.canon(real_out["emitted"])
                except TypeError:
                    same = False          # the real record holds a value outside the JSON domain
            run.count(f"translated-logger: {what} " + cls)
        if not same:
            bad += 1
            if bad == 1:
                run.disagreements.append({"part": "translated logger vs python", "function": what, "case": {k: v for k, v in c.items() if k != "py_covered"},
                                          "impl": {k: v for k, v in real_out.items() if k != "sizes"}, "model": got,
                                          "what": f"the translated DecisionLogger ({what}; Generated.Src, logger translation) and the real one differ"})
    n_raised = sum(1 for _, ro in jobs if "log_raised" in ro)
    if n_raised:
        run.count("translated-logger: the real log raised (rendering of an unserialisable record as JSON: the emit effect; not judged)", n_raised)
    run.evaluations += len(lines)
    if harness_errors:
        return False, f"the real DecisionLogger could not be run on {harness_errors} cases; {bad} of {len(lines)} evaluations differ"
    return bad == 0, f"{bad} of {len(lines)} evaluations differ" if bad else f"agree on {len(lines)} evaluations ({len(jobs)} cases)"


# ----------------------------------------------------------------------------- check / replay


def run_cases(run: lib.Run, defaults: list, scale: int = 1, keep: list | None = None) -> None:
    batch: list[dict] = []
    kept: dict[str, int] = {}
    stride = 5 if run.tier == "quick" else 40   # every stride-th case of each kind is re-run under the line tracer

    def flush():
        for c, out, ans in evaluate(batch, defaults):
            dis, fails, cls, nontrivial = judge(c, out, ans)
            run.count(cls)
            if c["kind"] in ("redact", "logger") and isinstance(ans, dict):
                run.count("claims/placeholder", int(ans.get("claims", 0)))
                run.count("claims/secret-covered", len(set(ans.get("covered", [])) | set(c.get("py_covered", []))))
                missing = set(c.get("py_covered", [])) - set(ans.get("covered", []))
                if missing:
                    run.count("python-oracle-covered-but-not-lean", len(missing))
            sample = None
            if nontrivial and c["kind"] in ("redact", "logger") and c.get("label"):
                sample = {"case": {k: v for k, v in c.items() if k != "py_covered"},
                          "impl": {k: v for k, v in out.items() if k in ("out", "env", "dropped", "raw")}}
            run.case({k: v for k, v in c.items() if k not in ("label", "py_covered")}, nontrivial, sample)
            if dis:
                run.count("DISAGREE/" + cls)
                if len(run.disagreements) < 100:
                    run.disagreements.append({"case": c, "impl": out, "model": ans})
            if fails:
                run.count("SPEC-FAIL/" + cls)
                if len(run.spec_failures) < 100:
                    run.spec_failures.append({"case": c, "impl": out, "failures": fails, "model": ans})
        batch.clear()

    for c in all_cases(run, defaults, scale):
        batch.append(c)
        if keep is not None and c["kind"] in ("setpath", "redact", "logger"):
            kept[c["kind"]] = kept.get(c["kind"], 0) + 1
            rare = c["kind"] == "logger" and c["cfg"].get("redactions") is not None and spec_paths(c["cfg"]["redactions"]) is None
            if rare:
                kept["rare"] = kept.get("rare", 0) + 1
            if (kept[c["kind"]] % stride == 0 and kept[c["kind"]] // stride <= 1500) or (rare and kept["rare"] <= 40):
                keep.append(c)
        if len(batch) >= 4000:
            flush()
    flush()


def overlapping_records(run: lib.Run) -> None:
    """two threads report to ONE DecisionLogger at the same time: the first call is parked inside the logging machinery (a filter on
    the audit logger) while the second runs to completion.  At rate 1 — and for a deny under smart sampling — BOTH records are emitted,
    each redacted; neither call raises."""
    import threading

    class Gate(logging.Filter):
        def __init__(self):
            super().__init__()
            self.entered, self.release = threading.Event(), threading.Event()

        def filter(self, record):
            if "first-record" in record.getMessage() and not self.release.is_set():
                self.entered.set()
                self.release.wait(10)
            return True

    def payload(tag, decision):
        return {"env": {"subject": {"id": "u", "attrs": {"password": "~S77~" + tag}}, "context": {"ip": "10.0.0.1"}},
                "decision": decision, "allowed": decision == "permit", "rule_id": tag, "policy_id": "p", "reason": None, "obligations": []}
    for kwargs, decision in (({"sample_rate": 1.0}, "permit"), ({"sample_rate": 1.0, "as_json": True}, "permit"),
                             ({"sample_rate": 0.0, "smart_sampling": True}, "deny")):
        lg = dl.DecisionLogger(redactions=[{"type": "mask_fields", "fields": ["subject.attrs.password"]}], **kwargs)
        gate = Gate()
        errors: list = []
        with audit_capture() as cap:
            alog = logging.getLogger("rbacx.audit")
            alog.addFilter(gate)
            try:
                def first():
                    try:
                        lg.log(payload("first-record", decision))
                    except Exception as e:  # noqa: BLE001
                        errors.append(f"first: {type(e).__name__}: {e}")
                t = threading.Thread(target=first, daemon=True)
                t.start()
                if gate.entered.wait(10):
                    try:
                        lg.log(payload("second-record", decision))
                    except Exception as e:  # noqa: BLE001
                        errors.append(f"second: {type(e).__name__}: {e}")
                else:
                    errors.append("the first record never reached the audit logger")
                gate.release.set()
                t.join(10)
            finally:
                gate.release.set()
                alog.removeFilter(gate)
            msgs = [r.getMessage() for r in cap.records]
        run.evaluations += 1
        run.count("overlapping-records")
        seen = {tag: sum(1 for m in msgs if tag in m) for tag in ("first-record", "second-record")}
        leak = any("~S77~" in m for m in msgs)
        if errors or seen != {"first-record": 1, "second-record": 1} or leak:
            run.spec_failures.append({"part": "overlapping records", "logger": kwargs, "decision": decision, "records_emitted": seen, "errors": errors,
                                      "secret_in_a_record": leak,
                                      "failures": ["two decisions reported to one logger at the same time were not both emitted exactly once, redacted"]})
            return


def record_sequences(run: lib.Run) -> None:
    """SEQUENCES of records through ONE DecisionLogger, with and without an ambient request scope (an active trace id of
    rbacx.logging.context — the audit logger sits next to the trace-id middleware): every order of ≤3 records out of {plain permit,
    permit with obligations, deny} × scripted draws {0.0, 0.5, 0.999}.  Clauses of C19 judged on EVERY record of the sequence, whatever was
    logged before it: smart sampling with default rates emits every deny and every permit with obligations; rate 1 emits every record;
    rate 0 (plain sampling) emits nothing.  A record is identified by its rule id."""
    import itertools as it
    try:
        from rbacx.logging import context as tctx
    except Exception:  # noqa: BLE001
        tctx = None
    kinds = {"permit": ("permit", []), "permit+obl": ("permit", [{"type": "require_mfa", "on": "permit"}]), "deny": ("deny", [])}

    def payload(tag, kind):
        decision, obl = kinds[kind]
        return {"env": {"subject": {"id": "u"}, "context": {}}, "decision": decision, "allowed": decision == "permit",
                "rule_id": tag, "policy_id": "p", "reason": None, "obligations": copy.deepcopy(obl)}
    configs = [("smart-defaults", {"smart_sampling": True, "sample_rate": 0.25}, lambda kind: True if kind != "permit" else None),
               ("smart-defaults-rate0", {"smart_sampling": True, "sample_rate": 0.0}, lambda kind: True if kind != "permit" else False),
               ("rate1", {"sample_rate": 1.0}, lambda kind: True),
               ("rate0", {"sample_rate": 0.0}, lambda kind: False)]
    seqs = [s for n in (1, 2, 3) for s in it.product(kinds, repeat=n)]
    saved_random = dl.random
    try:
        for (cname, kwargs, must), scope, draw in it.product(configs, (None, "one-trace", "trace-per-record"), (0.0, 0.5, 0.999)):
            if scope is not None and tctx is None:
                continue
            dl.random = types.SimpleNamespace(random=lambda d=draw: d)
            for seq in seqs:
                lg = dl.DecisionLogger(**kwargs)
                emitted, errors = [], []
                token = tctx.set_current_trace_id("verif-trace-0") if scope == "one-trace" else None
                try:
                    for i, kind in enumerate(seq):
                        tok_i = tctx.set_current_trace_id(f"verif-trace-{i}") if scope == "trace-per-record" else None
                        try:
                            with audit_capture() as cap:
                                lg.log(payload(f"rec{i}", kind))
                            emitted.append(sum(1 for r in cap.records if f"rec{i}" in r.getMessage()))
                        except Exception as e:  # noqa: BLE001
                            errors.append(f"record {i}: {type(e).__name__}: {e}")
                            emitted.append(None)
                        finally:
                            if tok_i is not None:
                                tctx.clear_current_trace_id(tok_i)
                finally:
                    if token is not None:
                        tctx.clear_current_trace_id(token)
                run.evaluations += 1
                run.count("record-sequences")
                run.nontrivial.add(f"seq{cname}{scope}{draw}{seq}")
                wrong = [i for i, kind in enumerate(seq)
                         if (must(kind) is True and emitted[i] != 1) or (must(kind) is False and emitted[i] != 0)]
                if errors or wrong:
                    run.spec_failures.append({"part": "record sequences", "logger": kwargs, "config": cname, "ambient_trace_id": scope,
                                              "scripted_draw": draw, "sequence": list(seq), "records_emitted": emitted, "errors": errors,
                                              "wrong_at": wrong,
                                              "failures": ["one DecisionLogger, records logged one after the other: " + (
                                                  "smart sampling with default rates did not emit a deny / a permit with obligations" if cname.startswith("smart")
                                                  else "sampling at rate 1 dropped a record" if cname == "rate1" else "sampling at rate 0 emitted a record")
                                                  + " (the outcome for a record depends on what was logged before it)"]})
                    return
    finally:
        dl.random = saved_random


def check(run: lib.Run, audit: dict) -> int:
    run.rule = ("exhaustive: int() literals of length ≤4/≤5 over 10 characters; every path of ≤2 (thorough ≤3) segments over a "
                "16-segment alphabet (keys, indices in/out of range, negative, garbage) × 16 objects through _set_by_path; every "
                "ordered pair of 12 paths as two specs × 12 envs × in_place through apply_obligations; rate × draw × category × "
                "strategy grid and redactions × use_default × in_place × as_json grid through DecisionLogger.log. random: JSON "
                "trees depth ≤4 (lists of dicts, multi-byte text, secrets planted and recorded), paths derived from the tree "
                "(existing, missing intermediates, through non-objects, indices out of range/negative, overlapping, garbage), all "
                "spec kinds, size bounds around the exact UTF-8 and character sizes. non-trivial = the redaction changed the env / "
                "the record was truncated / dropped by the draw")
    run.exhaustive = True
    run.assumptions = [
        "jsonSize oracle: len(json.dumps(env, ensure_ascii=False).encode('utf-8')) computed by the harness with the stdlib (trusted, not modelled)",
        "Python int() modelled on ASCII strings only (non-ASCII digits / Unicode whitespace in an index are outside the domain); < 4300 digits",
        "environments are trees (no object shared between two positions), no lone surrogates; placeholders are scalars",
        "spec lists are lists of mappings whose `fields` is missing/None/a list of str (malformed ones are run for correspondence only: "
        "the code then falls back to emitting the unredacted env – see notes/C19.md O1)",
        "sampling rates are floats/ints/bools in double range; random.random() returns a float in [0,1)",
        "floats are compared through the exact order-embedding x ↦ x·2^1074 (checked against fractions.Fraction on the grid)",
    ]
    if not audit["ok"]:
        raise lib.CheckError(f"Lean build/audit failed at {audit['stage']}: {audit.get('log') or audit.get('forbidden') or audit.get('bad_axioms')}")
    defaults = copy.deepcopy(dl._DEFAULT_REDACTIONS)
    run.extra["default_redactions_read_from_module"] = defaults
    # the enforcer as it is written NOW, translated into Lean (cursor = access path into one state), is proved equal to the model's
    tr = audit["facts"].get("translated_enforcer")
    untranslatable = isinstance(tr, dict) and "extraction_failed" in tr
    ok_tr, detail_tr = lib.run_obligation("C19_translated")
    run.obligation("C19_translated: Generated.Src.set_by_path / Src.apply_obligations (the current source text of the redaction enforcer, "
                   "cursor translation) = some (the model's setByPath / applySpecs), for every tree, path string, value and well-formed spec list "
                   "— no subscript of the source raises", ok_tr,
                   "discharged" if ok_tr else (str(tr["extraction_failed"]) if untranslatable else detail_tr))
    if untranslatable or not isinstance(tr, dict):
        ok_py, detail_py = True, "skipped: the enforcer is not in the translatable subset (see C19_translated)"
    else:
        ok_py, detail_py = translated_vs_python(run)
    run.obligation("translated enforcer evaluates like the real _set_by_path / apply_obligations (translator + Model/PyCursor.lean vs CPython)",
                   ok_py, detail_py)
    # the logger as it is written NOW (__init__ normalisation, _should_drop_by_sampling, log), translated into Lean, is proved equal to the model's
    trl = audit["facts"].get("translated_logger")
    untranslatable_l = isinstance(trl, dict) and "extraction_failed" in trl
    ok_lg, detail_lg = lib.run_obligation("C19_logger_translated")
    run.obligation("C19_logger_translated: Generated.Src.logger_init / Src.should_drop / Src.logger_log (the current source text of DecisionLogger.__init__, "
                   "_should_drop_by_sampling and log; typed reading of floats, try/except with apply_obligations and the size oracle as raising points, "
                   "emit as the result) = the model's LogCfg / shouldDrop / log, for every constructor argument tuple, payload whose env is a dict or "
                   "falsy, draw and size oracle — dropped / emitted record, the two except fall-backs included", ok_lg,
                   "discharged" if ok_lg else (str(trl["extraction_failed"]) if untranslatable_l else detail_lg))
    if ok_tr and ok_lg:
        ok_lc, detail_lc = lib.run_obligation("C19_logger_composed", deps=["C19_translated", "C19_logger_translated"])
    else:
        ok_lc, detail_lc = False, "not attempted: " + " and ".join(n for n, o in (("C19_translated", ok_tr), ("C19_logger_translated", ok_lg)) if not o) + " undischarged"
    run.obligation("C19_logger_composed: the translated log with the TRANSLATED enforcer Src.apply_obligations as its external = the model's log, "
                   "for documented (plainSpec) effective redaction specs", ok_lc, "discharged" if ok_lc else detail_lc)
    if untranslatable_l or not isinstance(trl, dict):
        ok_lpy, detail_lpy = True, "skipped: the logger is not in the translatable subset (see C19_logger_translated)"
    else:
        ok_lpy, detail_lpy = logger_translated_vs_python(run, defaults)
    run.obligation("translated logger evaluates like the real DecisionLogger: attributes after __init__, _should_drop_by_sampling, dropped / the record "
                   "handed to logging.Logger.log (translator + Model/PyLogger.lean vs CPython)", ok_lpy, detail_lpy)
    keep: list[dict] = []
    run_cases(run, defaults, keep=keep)
    overlapping_records(run)
    record_sequences(run)
    if (run.disagreements or not ok_tr or not ok_lg or not ok_lc) and not run.spec_failures:
        run_cases(run, defaults, scale=5)   # correspondence / the translation tie broke: widen the search for a failing input
    try:
        run.extra["anchored_line_coverage"] = anchored_coverage(keep)
    except Exception as e:  # noqa: BLE001
        run.notes.append(f"coverage measurement failed: {e}")
    violations = []
    if run.spec_failures and all(f.get("part") in ("overlapping records", "record sequences") for f in run.spec_failures):
        path = run.write_replay("spec", {"what": "two decisions reported to one DecisionLogger at the same time" if run.spec_failures[0]["part"] == "overlapping records"
                                         else "a sequence of decisions reported to one DecisionLogger", "failures": run.spec_failures[0]["failures"],
                                         "case": run.spec_failures[0]})
        violations.append((path, True))
    elif run.spec_failures:
        first = next(f for f in run.spec_failures if f.get("part") not in ("overlapping records", "record sequences"))
        small = shrink(first["case"], defaults)
        (_, out, ans), = evaluate([small], defaults)
        _, fails, _, _ = judge(small, out, ans)
        path = run.write_replay("spec", {
            "what": "the implementation's output violates the C19 spec (Lean predicates of Rbacx/Spec/Redact.lean on the emitted "
                    "record and/or the harness-side checks: caller untouched, raw secret search, never raises)",
            "failures": fails or first["failures"], "case": small, "impl": {k: v for k, v in out.items() if k != "caller_after"} | {"caller_after": out.get("caller_after")},
            "unshrunk": first["case"], "more": len(run.spec_failures) - 1})
        violations.append((path, True))
    elif not ok_tr:
        path = run.write_replay("obligation", {
            "what": "per-run obligation Rbacx/Run/C19_translated.lean no longer checks: the translated source of _set_by_path / "
                    "apply_obligations is not proved equal to the model's setByPath / applySpecs, the functions theorems Rbacx.C19.* are "
                    "about; the widened search found no payload, path and spec list on which the redaction spec is violated",
            "translation": tr, "lean": detail_tr[-1500:], "first_disagreement": run.disagreements[:1]})
        violations.append((path, False))
    elif not ok_lg or not ok_lc:
        which = "C19_logger_translated" if not ok_lg else "C19_logger_composed"
        path = run.write_replay("obligation", {
            "what": f"per-run obligation Rbacx/Run/{which}.lean no longer checks: the translated source of DecisionLogger.__init__ / "
                    "_should_drop_by_sampling / log is not proved equal to the model's LogCfg / shouldDrop / log, the functions theorems "
                    "Rbacx.C19.c19_priority / c19_sampling / c19_smart_defaults / c19_size_bound / c19_no_leak are about; the widened search found no "
                    "configuration, payload and draw on which the logger spec is violated",
            "translation": trl, "lean": (detail_lg if not ok_lg else detail_lc)[-1500:], "first_disagreement": run.disagreements[:1]})
        violations.append((path, False))
    elif run.disagreements or not ok_py or not ok_lpy:
        first = run.disagreements[0] if run.disagreements else (
            {"part": "translated source vs python", "what": detail_py} if not ok_py else {"part": "translated logger vs python", "what": detail_lpy})
        path = run.write_replay("correspondence", {
            "what": ("translated logger vs python: " + str(first.get("what")) + "; the obligation C19_logger_translated rests on a translation that "
                     "CPython contradicts (or that could not be evaluated)") if first.get("part") == "translated logger vs python" else
                    ("translated source vs python: " + str(first.get("what")) + "; the obligation C19_translated rests on a translation that "
                     "CPython contradicts (or that could not be evaluated)") if first.get("part") == "translated source vs python" else
                    "model (Rbacx.Redact.setByPath / applySpecs / log) and implementation disagree on the emitted env / dropped flag; "
                    "theorems Rbacx.C19.* no longer speak about this code", "first": first, "count": len(run.disagreements)})
        violations.append((path, False))
    return run.finish(audit, violations)


def replay(run: lib.Run, audit: dict, path: str) -> int:
    rp = json.load(open(path))
    f0 = rp.get("first") or (rp.get("first_disagreement") or [None])[0] or {}
    if f0.get("part") == "translated source vs python":
        a = copy.deepcopy(f0["args"])
        try:
            if f0["function"] == "_set_by_path":
                enforcer._set_by_path(a[0], a[1], a[2])
                now = a[0]
            else:
                now = enforcer.apply_obligations(a[0], a[1], in_place=a[2])
        except Exception as e:  # noqa: BLE001
            now = f"raised {type(e).__name__}"
        print(f0["function"], "now:", json.dumps(now, default=str)[:1500], "recorded:", json.dumps(f0.get("impl"), default=str)[:1500],
              "translated:", json.dumps(f0.get("model"), default=str)[:1500])
        return 1
    if f0.get("part") == "translated logger vs python":
        now = real_logger_run(f0["case"])
        print(f0["function"], "now:", json.dumps({k: v for k, v in now.items() if k != "sizes"}, default=str)[:1500], "recorded:",
              json.dumps(f0.get("impl"), default=str)[:1500], "translated:", json.dumps(f0.get("model"), default=str)[:1500])
        return 1
    if "case" not in rp and "first" not in rp:
        print("recorded:", json.dumps(rp, default=str)[:2000])
        return 1
    c = rp.get("case") or rp["first"]["case"]
    if c.get("part") == "overlapping records":
        overlapping_records(run)
        now = [f for f in run.spec_failures if f.get("part") == "overlapping records"]
        print("now:", json.dumps(now[0], default=str) if now else "both records are emitted, once each, redacted")
        print("recorded:", json.dumps(c, default=str))
        return 1 if now else 0
    if c.get("part") == "record sequences":
        record_sequences(run)
        now = [f for f in run.spec_failures if f.get("part") == "record sequences"]
        print("now:", json.dumps(now[0], default=str) if now else "every record of every sequence is emitted / dropped as C19 says")
        print("recorded:", json.dumps(c, default=str))
        return 1 if now else 0
    defaults = copy.deepcopy(dl._DEFAULT_REDACTIONS)
    (_, out, ans), = evaluate([c], defaults)
    dis, fails, cls, _ = judge(c, out, ans)
    print("case:", json.dumps(c, ensure_ascii=False, default=str)[:2000])
    print("impl:", json.dumps(out, ensure_ascii=False, default=str)[:2000])
    print("model:", json.dumps(ans.get("model", ans.get("out")) if isinstance(ans, dict) else ans, default=str)[:2000])
    print("class:", cls, "disagrees:", dis, "spec failures:", fails)
    return 1 if (fails or dis) else 0
