"""C20 — ASGI enforcement.

Tie: raw scope/receive/send against the real `RbacxMiddleware` with the real `Guard`, against the
model `asgiCall ∘ guardEval` on the full list of observable actions (guard injected, messages sent,
downstream invoked, exception propagated); the statement's clauses are also checked directly on the
observations (downstream iff allowed, single generic 403, no id/reason in the body)."""
from __future__ import annotations

import asyncio
import copy
import itertools
import random

import guardcases as gc
import lib
import proto
import real
from rbacx.adapters.asgi import RbacxMiddleware

MARK_RULE, MARK_POL = "RULEMARKqz", "POLMARKqz"


def observe(policy, req, gcfg, acfg):
    events: list = []
    acts: list = []
    try:
        guard = real.make_guard(policy, gcfg, events)
    except Exception as e:  # noqa: BLE001
        return [{"a": "guard-construction-raised", "cls": type(e).__name__}], None

    async def app(scope, receive, send):
        acts.append({"a": "downstream"})

    def builder(scope):
        if acfg.get("builder_raises") == "TypeError":
            return None          # a builder that forgot its return: unpacking fails — the request is not let through
        if acfg.get("builder_raises"):
            raise RuntimeError("builder down")
        return real.make_request(req)

    if acfg.get("engine_raises"):
        # an engine fault: evaluation itself raises (whatever entry point the middleware uses)
        async def boom(*a, **k):
            raise RuntimeError("engine down")

        def boom_sync(*a, **k):
            raise RuntimeError("engine down")
        for name in ("evaluate_async", "is_allowed_async", "_evaluate_core_async"):
            setattr(guard, name, boom)
        for name in ("evaluate_sync", "is_allowed_sync"):
            setattr(guard, name, boom_sync)
    if acfg.get("configure_after"):
        # built with other settings, then configured through its public attributes: what counts is what they say at request time
        mw = RbacxMiddleware(app, guard=guard, mode="inject" if acfg["mode"] == "enforce" else "enforce", build_env=None,
                             add_headers=not acfg["add_headers"])
        mw.mode, mw.build_env, mw.add_headers = acfg["mode"], (builder if acfg["builder"] else None), acfg["add_headers"]
    else:
        mw = RbacxMiddleware(app, guard=guard, mode=acfg["mode"], build_env=builder if acfg["builder"] else None,
                             add_headers=acfg["add_headers"])
    scope = {"type": acfg["scope_type"]} if acfg["scope_type"] is not None else {}
    # request details the decision does not depend on: enforcement may not depend on them either
    scope.update(acfg.get("scope_extra") or {})
    if "rbacx_guard" in scope:
        from rbacx.core.engine import Guard as _G
        scope["rbacx_guard"] = _G({"algorithm": "permit-overrides", "rules": [{"id": "all", "effect": "permit", "actions": ["*"], "resource": {"type": "*"}}]})

    async def receive():
        return {"type": "http.request"}

    async def send(msg):
        if msg["type"] == "http.response.start":
            acts.append({"a": "start", "status": msg["status"], "headers": [[k.decode(), v.decode()] for k, v in msg["headers"]]})
        elif msg["type"] == "http.response.body":
            acts.append({"a": "body", "body": msg["body"].decode()})
        else:
            acts.append({"a": "other", "type": msg["type"]})

    try:
        asyncio.run(mw(scope, receive, send))
    except Exception as e:  # noqa: BLE001
        acts.append({"a": "raise", "cls": type(e).__name__})
    injected = scope.get("rbacx_guard") is guard
    return ([{"a": "inject"}] if injected else []) + acts, guard


SCOPE_EXTRAS = [
    {},
    {"method": "GET", "path": "/docs/1", "headers": []},
    {"method": "OPTIONS", "path": "/docs/1", "headers": [[b"origin", b"https://evil.example"], [b"access-control-request-method", b"DELETE"]]},
    {"method": "options", "path": "/", "headers": [[b"access-control-request-method", b"GET"]]},
    {"method": "HEAD", "path": "/health", "headers": []},
    {"method": "POST", "path": "/docs/1/../2", "query_string": b"admin=1", "headers": [[b"x-forwarded-for", b"127.0.0.1"], [b"authorization", b"Bearer x"]]},
    {"method": "TRACE", "path": "/metrics", "headers": [[b"upgrade", b"websocket"]], "http_version": "1.0"},
    {"method": "GET", "path": "/static/app.js", "scheme": "https", "client": ["127.0.0.1", 1], "server": ["localhost", 443], "root_path": "/internal"},
    {"method": "GET", "path": "/docs/1", "rbacx_guard": "<a permit-everything engine put there by someone else>", "state": {"rbacx_guard": 1}},
]


def overlap_probes(run: lib.Run) -> None:
    """two requests overlapping on ONE middleware, same subject id / action / resource but different roles (one allowed, one denied),
    the first parked inside an async role resolver while the second is served: each must get its own verdict"""
    from rbacx.core.engine import Guard
    from rbacx.core.model import Action, Context, Resource, Subject
    pol = {"algorithm": "deny-overrides", "rules": [{"id": "adm", "effect": "permit", "actions": ["read"], "resource": {"type": "doc"},
                                                      "condition": {"hasAny": [{"attr": "subject.roles"}, ["admin"]]}}]}
    for first_allowed in (True, False):
        for ctx_differs in (False, True):
            async def scenario():
                gate, entered = asyncio.Event(), asyncio.Event()

                class Res:
                    async def expand(self, roles):
                        if "slow" in roles:
                            entered.set()
                            await gate.wait()
                        return list(roles)
                guard = Guard(pol, role_resolver=Res())
                seen: dict = {"A": [], "B": []}

                async def app(scope, receive, send):
                    seen[scope["who"]].append("downstream")

                def builder(scope):
                    return (Subject(id="u1", roles=list(scope["roles"])), Action("read"), Resource(type="doc", id="1"),
                            Context(attrs={"k": scope["who"]} if ctx_differs else {}))
                mw = RbacxMiddleware(app, guard=guard, mode="enforce", build_env=builder)

                def sender(who):
                    async def send(msg):
                        if msg["type"] == "http.response.start":
                            seen[who].append(msg["status"])
                    return send

                async def receive():
                    return {"type": "http.request"}
                ra = ["admin", "slow"] if first_allowed else ["guest", "slow"]
                rb = ["guest"] if first_allowed else ["admin"]
                ta = asyncio.ensure_future(mw({"type": "http", "who": "A", "roles": ra, "method": "GET", "path": "/d/1"}, receive, sender("A")))
                await asyncio.wait_for(entered.wait(), 5)
                await asyncio.wait_for(mw({"type": "http", "who": "B", "roles": rb, "method": "GET", "path": "/d/1"}, receive, sender("B")), 5)
                gate.set()
                await asyncio.wait_for(ta, 5)
                return seen
            run.evaluations += 1
            run.count("overlap-probe")
            try:
                seen = asyncio.run(scenario())
            except Exception as e:  # noqa: BLE001
                run.spec_failures.append({"part": "overlap", "first_allowed": first_allowed, "observed": type(e).__name__,
                                          "spec": "two overlapping requests on one middleware did not complete"})
                continue
            want = {"A": ["downstream"] if first_allowed else [403], "B": [403] if first_allowed else ["downstream"]}
            if seen != want:
                run.spec_failures.append({"part": "overlap", "first_allowed": first_allowed, "context_differs": ctx_differs, "observed": seen, "expected": want,
                                          "policy": pol, "spec": "overlapping requests that differ in roles only did not each get their own verdict"})


def sequence_probes(run: lib.Run) -> None:
    """a SEQUENCE of requests through ONE long-lived middleware (what a server does), diagnostics switched on and off at run time through
    the public attribute: denials by different rules / reasons, permits in between.  Every response — status, the exact header list, the
    body — must be the one a FRESH middleware with the settings of that moment gives to that request alone."""
    import itertools as it
    from rbacx.core.engine import Guard
    from rbacx.core.model import Action, Context, Resource, Subject
    pol = {"algorithm": "deny-overrides", "rules": [
        {"id": "no-delete", "effect": "deny", "actions": ["delete"], "resource": {"type": "doc"}},
        {"id": "no-write", "effect": "deny", "actions": ["write"], "resource": {"type": "doc"}},
        {"id": "mfa-read", "effect": "permit", "actions": ["read"], "resource": {"type": "doc"}, "obligations": [{"type": "require_mfa"}]},
        {"id": "list", "effect": "permit", "actions": ["list"], "resource": {"type": "doc"}}]}
    reqs = {"delete": ("delete", {}), "write": ("write", {}), "read-no-mfa": ("read", {}), "list": ("list", {}), "nothing": ("purge", {})}

    def builder(scope):
        act, ctx = reqs[scope["which"]]
        return Subject(id="u1", roles=[]), Action(act), Resource(type="doc", id="1"), Context(attrs=dict(ctx))

    async def serve(mw, which):
        out: list = []

        async def send(msg):
            if msg["type"] == "http.response.start":
                out.append(["start", msg["status"], [[k.decode("latin-1"), v.decode("latin-1")] for k, v in msg["headers"]]])
            else:
                out.append([msg["type"], (msg.get("body") or b"").decode("latin-1")])

        async def receive():
            return {"type": "http.request"}
        try:
            await mw({"type": "http", "which": which, "method": "GET", "path": "/d/1"}, receive, send)
        except Exception as e:  # noqa: BLE001
            out.append(["raise", type(e).__name__])
        return out

    def make(add_headers, log):
        async def app(scope, receive, send):
            log.append("downstream")
        return RbacxMiddleware(app, guard=Guard(copy.deepcopy(pol)), mode="enforce", build_env=builder, add_headers=add_headers)
    names = list(reqs)
    seqs = [list(x) for n in (2, 3) for x in it.product(names, repeat=n)]
    seqs += [["delete", "write", "read-no-mfa", "nothing", "list", "delete", "write"]]
    for seq in seqs:
        for toggles in ([True] * len(seq), [True, False] * len(seq), [False, True] * len(seq)):
            async def scenario():
                log_long: list = []
                mw = make(toggles[0], log_long)
                steps = []
                for i, which in enumerate(seq):
                    mw.add_headers = toggles[i]
                    n0 = len(log_long)
                    got = await serve(mw, which) + log_long[n0:]
                    log_fresh: list = []
                    want = await serve(make(toggles[i], log_fresh), which) + log_fresh
                    steps.append((which, toggles[i], got, want))
                return steps
            steps = asyncio.run(scenario())
            run.evaluations += 1
            run.count("sequence-probe")
            run.nontrivial.add(f"seq{seq}{toggles[:2]}")
            bad = next((k for k, (_, _, got, want) in enumerate(steps) if got != want), None)
            if bad is not None:
                run.spec_failures.append({"part": "sequence", "requests": seq, "add_headers_at_each_request": toggles[:len(seq)], "first_wrong_response": bad,
                                          "observed": steps[bad][2], "expected": steps[bad][3], "policy": pol,
                                          "spec": "a long-lived middleware answered a request differently from a fresh middleware with the same settings "
                                                  "(the response depends on earlier requests: headers or body carried over)"})
                return


def acfgs():
    k = 0
    for mode, builder, add_headers, st, br in itertools.product(["enforce", "inject"], [True, False], [False, True],
                                                                ["http", "websocket", "lifespan", None], [False, True]):
        if br and not builder:
            continue
        a = {"mode": mode, "builder": builder, "add_headers": add_headers, "scope_type": st}
        if br:
            a["builder_raises"] = "RuntimeError"
        yield a
        if br:
            yield {**a, "builder_raises": "TypeError"}
        if st == "http" and builder and not br:
            for extra in SCOPE_EXTRAS[1:]:
                yield {**a, "scope_extra": extra}
            yield {**a, "engine_raises": "RuntimeError"}
            yield {**a, "configure_after": True}
            k += 1
            yield {**a, "engine_raises": "RuntimeError", "scope_extra": SCOPE_EXTRAS[1 + k % (len(SCOPE_EXTRAS) - 1)]}


def mark(pol):
    """give rules / child policies marker ids that must never show up in a response body"""
    import copy
    p = copy.deepcopy(pol)
    for i, c in enumerate(p.get("policies") or []):
        if isinstance(c, dict):
            c.setdefault("id", f"{MARK_POL}{'ж日' if i % 2 == 0 else ''}{i}")
            mark_rules(c)
    mark_rules(p)
    return p


def mark_rules(p):
    for i, r in enumerate(p.get("rules") or []):
        if isinstance(r, dict) and r.get("id"):
            # every other id carries characters outside latin-1 (header values are bytes: the id must survive or be left out, not abort the denial)
            r["id"] = f"{MARK_RULE}{'ж日' if i % 2 == 0 else ''}{r['id']}"


def run_cases(run: lib.Run, audit: dict, scale: int = 1):
    quick = run.tier == "quick"
    consts = audit["facts"]["consts"]
    all_a = list(acfgs())
    cases = []
    base = list(gc.enum_cases(True))[:: (40 if quick else 8)]
    for pol, req, cfg in base:
        for a in all_a:
            cases.append((mark(pol), req, cfg, a))
    r = random.Random(run.seed * 17 + 20)
    for pol, req, cfg in gc.random_cases(run.seed * 19 + 20, (1200 if quick else 12000) * scale, hostile=0.05, nested=0.5, rel=0.1):
        a = gen_choice(r, all_a) if r.random() < 0.4 else {"mode": "enforce", "builder": True, "add_headers": r.random() < 0.5, "scope_type": "http",
                                                           "scope_extra": gen_choice(r, SCOPE_EXTRAS)}
        if a.get("scope_type") == "http" and a.get("builder") and not a.get("builder_raises") and r.random() < 0.06:
            a = {**a, "engine_raises": "RuntimeError"}
        cases.append((mark(pol), req, cfg, a))
    obs, cmds = [], []
    for pol, req, cfg, a in cases:
        acts, _ = observe(pol, req, cfg, a)
        obs.append(acts)
        cmd = real.guard_cmd(pol, req, cfg, consts, proto.build_oracle(pol, req, cfg.get("resolver"), cfg.get("checker")))
        cmd["cmd"] = "asgi"
        cmd["asgi"] = {k: v for k, v in {**a, "scope_type": proto.enc(a["scope_type"])}.items() if k not in ("scope_extra", "configure_after")}
        cmds.append(cmd)
    answers = proto.run_driver(cmds)
    for (pol, req, cfg, a), acts, model in zip(cases, obs, answers):
        kinds = "+".join(x["a"] for x in acts)
        run.count(kinds)
        enforcing = a["scope_type"] == "http" and a["mode"] == "enforce" and a["builder"]
        run.case([pol, req, cfg, a], enforcing and "start" in kinds, {"policy": pol, "request": req, "cfg": cfg, "asgi": a, "observed": acts})
        case = {"policy": pol, "request": req, "cfg": cfg, "asgi": a, "observed": acts, "model": model}
        # clause checks directly on the observations
        why = None
        bodies = [x for x in acts if x["a"] == "body"]
        starts = [x for x in acts if x["a"] == "start"]
        down = sum(1 for x in acts if x["a"] == "downstream")
        if acts[:1] != [{"a": "inject"}]:
            why = "guard not attached to the scope"
        if enforcing and a.get("engine_raises"):
            if down or bodies or starts or not any(x["a"] == "raise" for x in acts):
                why = "evaluation raised but downstream ran / something was sent / the error was swallowed"
        elif enforcing and not a.get("builder_raises"):
            d = real.run_guard(pol, req, cfg, "async")
            if "ok" in d:
                if d["ok"]["allowed"] != (down == 1) or (d["ok"]["allowed"] and (bodies or starts)):
                    why = "downstream invoked iff allowed is violated"
                if not d["ok"]["allowed"]:
                    if len(starts) != 1 or len(bodies) != 1 or starts[0]["status"] != 403 or bodies[0]["body"] != '{"detail": "Forbidden"}':
                        why = "denial is not exactly one generic 403"
                    hdr_names = [h[0] for h in (starts[0]["headers"] if starts else [])]
                    if not a["add_headers"] and any(h.startswith("x-rbacx") for h in hdr_names):
                        why = "diagnostic headers without add_headers"
            elif down:
                why = "evaluation raised but downstream was invoked"
        elif enforcing and a.get("builder_raises"):
            if down or bodies or starts:
                why = "env builder raised but downstream ran / something was sent"
        else:
            if down != 1 or bodies or starts:
                why = "non-enforcing call is not a plain pass-through"
        for b in bodies:
            if MARK_RULE in b["body"] or MARK_POL in b["body"] or "_mismatch" in b["body"] or "explicit_deny" in b["body"] or "obligation_failed" in b["body"]:
                why = "response body leaks rule / policy id or reason"
        if why:
            run.spec_failures.append({**case, "spec": why})
        elif acts != model:
            run.disagreements.append(case)


# ---------------------------------------------------------------------- the translated middleware vs the real one

def canon_trace(tr: dict, guard_marker: str) -> list:
    """the evaluated trace of the translated `__call__` in the shape `observe` records the real middleware's actions in"""
    import proto as _p
    acts = []
    for e in tr.get("effects", []):
        if e["e"] == "setItem":
            ok = e["obj"] == "scope" and e["key"] == "rbacx_guard" and _p.dec(e["value"]) == guard_marker
            acts.append({"a": "inject"} if ok else {"a": "other-setItem", "obj": e["obj"], "key": e["key"]})
        elif e["e"] == "send":
            msg = _p.dec(e["msg"])
            if e["chan"] != "send" or not isinstance(msg, dict):
                acts.append({"a": "other", "chan": e["chan"]})
            elif msg.get("type") == "http.response.start" and list(msg) == ["type", "status", "headers"]:
                acts.append({"a": "start", "status": msg["status"],
                             "headers": [[(x or {}).get("__bytes__") if isinstance(x, dict) else {"not-bytes": x} for x in h] for h in msg["headers"]]})
            elif msg.get("type") == "http.response.body" and list(msg) == ["type", "body"]:
                b = msg["body"]
                acts.append({"a": "body", "body": b.get("__bytes__") if isinstance(b, dict) else {"not-bytes": b}})
            else:
                acts.append({"a": "other", "type": msg.get("type"), "keys": list(msg)})
        elif e["e"] == "call":
            acts.append({"a": "downstream"} if (e["callee"], e["args"]) == ("self.app", ["scope", "receive", "send"]) else {"a": "other-call", **e})
    if tr.get("ending") != "returned":
        acts.append({"a": "raise", "cls": (tr.get("ending") or {}).get("raised")})
    return acts


def observe_stub(acfg: dict, builder_out, engine_out):
    """the REAL middleware driven with a stub engine / builder that behave as the outcomes say: `builder_out` = ("ok", value) | ("raised", cls),
    `engine_out` = ("ok", Decision) | ("raised", cls); the same recording as `observe`"""
    import builtins
    acts: list = []

    class StubGuard:
        async def evaluate_async(self, subject, action, resource, context):
            if engine_out[0] == "raised":
                raise getattr(builtins, engine_out[1])("engine down")
            return engine_out[1]
    guard = StubGuard()

    async def app(scope, receive, send):
        acts.append({"a": "downstream", **({} if (receive is receive_ and send is send_) else {"args": "not the caller's receive/send"})})

    def builder(scope):
        if scope.get("rbacx_guard") is not guard:
            acts.append({"a": "builder-called-before-inject"})
        if builder_out[0] == "raised":
            raise getattr(builtins, builder_out[1])("builder down")
        return builder_out[1]
    mw = RbacxMiddleware(app, guard=guard, mode=acfg["mode"], build_env=builder if acfg["builder"] else None, add_headers=acfg["add_headers"])
    scope = {"type": acfg["scope_type"]} if acfg["scope_type"] is not None else {}

    async def receive_():
        return {"type": "http.request"}

    async def send_(msg):
        if msg["type"] == "http.response.start" and list(msg) == ["type", "status", "headers"]:
            acts.append({"a": "start", "status": msg["status"],
                         "headers": [[x.decode("utf-8") if isinstance(x, bytes) else {"not-bytes": repr(x)} for x in h] for h in msg["headers"]]})
        elif msg["type"] == "http.response.body" and list(msg) == ["type", "body"]:
            acts.append({"a": "body", "body": msg["body"].decode("utf-8") if isinstance(msg["body"], bytes) else {"not-bytes": repr(msg["body"])}})
        else:
            acts.append({"a": "other", "type": msg.get("type"), "keys": list(msg)})
    try:
        asyncio.run(mw(scope, receive_, send_))
    except Exception as e:  # noqa: BLE001
        acts.append({"a": "raise", "cls": type(e).__name__})
    return ([{"a": "inject"}] if scope.get("rbacx_guard") is guard else []) + acts


def translated_vs_python(run: lib.Run) -> tuple[bool, str]:
    """the translated `RbacxMiddleware.__call__` (Generated.Src.asgi_call, an action trace evaluated by `lake env lean --run
    Rbacx/Run/SrcEvalAsgi.lean`) against the REAL middleware driven with raw scope/receive/send and a stub builder / engine that behave as
    the outcome parameters say: mode × builder present × add_headers × scope type ∈ {http, websocket, lifespan, absent} × builder outcome
    (returns the 4-tuple / raises / returns None / returns a 3-tuple) × engine outcome (raises / Decisions over allowed × reason ×
    rule_id × policy_id, also non-str ids); the full action lists are compared.  Validates the readings the obligation C20_translated
    trusts (effects as a trace in program order, outcomes as inputs, the unpacking as part of the raising point, the callee spliced in,
    bytes as their text, `json.dumps` of the literal evaluated at translation time) and Model/PyLib.lean."""
    import dataclasses
    import json
    import subprocess

    from rbacx.core.decision import Decision
    from rbacx.core.model import Action, Context, Resource, Subject
    marker = "<the guard object>"
    req4 = (Subject(id="u", roles=["r"]), Action("read"), Resource(type="doc", id="1"), Context(attrs={}))

    def rec(obj):
        return {f.name: getattr(obj, f.name) for f in dataclasses.fields(obj)}
    builders = [("ok", req4), ("raised", "RuntimeError"), ("raised", "KeyError"), ("ok", None), ("ok", req4[:3])]
    engines: list = [("raised", "RuntimeError"), ("raised", "ValueError")]
    for allowed, reason, rid, pid in itertools.product([True, False], [None, "", "explicit_deny", "x"], [None, "", "r", "ж日"], [None, "", "p"]):
        engines.append(("ok", Decision(allowed=allowed, effect="permit" if allowed else "deny", reason=reason, rule_id=rid, policy_id=pid)))
    # ids / reasons that are not strings: `str()` of them goes through the oracle table
    for reason, rid, pid in [("no_match", 7, 0), ("x", 1.5, ["p", 1]), ("condition_mismatch", True, {"k": "v"}), ("y", False, 2.0)]:
        engines.append(("ok", Decision(allowed=False, effect="deny", reason=reason, rule_id=rid, policy_id=pid)))
    engines.append(("ok", Decision(allowed=False, effect="deny", obligations=[{"type": "require_mfa"}], challenge="mfa", reason="obligation_failed",
                                   rule_id="RULEMARKqz", policy_id="POLMARKqz")))
    calls, lines = [], []
    for mode, has_b, add, st in itertools.product(["enforce", "inject", "ENFORCE"], [True, False], [False, True], ["http", "websocket", "lifespan", None]):
        acfg = {"mode": mode, "builder": has_b, "add_headers": add, "scope_type": st}
        enforcing = st == "http" and mode == "enforce" and has_b
        for bo in (builders if enforcing else builders[:2]):
            for eo in (engines if enforcing and bo[0] == "ok" and bo[1] is req4 else engines[:1] + engines[-1:]):
                dec = rec(eo[1]) if eo[0] == "ok" else None
                ext = {"build_env": {"ok": proto.enc([rec(x) for x in bo[1]] if bo[1] is not None else None)} if bo[0] == "ok" else {"raised": bo[1]},
                       "guard_evaluate_async": {"ok": proto.enc(dec)} if eo[0] == "ok" else {"raised": eo[1]}}
                scope = {"type": st} if st is not None else {}
                lines.append(json.dumps({"self": {"guard": marker, "mode": mode, "build_env": "<builder>" if has_b else None, "add_headers": add},
                                         "args": {"scope": proto.enc(scope)}, "ext": ext,
                                         "oracle": proto.build_oracle(dec)}))
                calls.append((acfg, bo, eo))
    p = subprocess.run(["lake", "env", "lean", "--run", "Rbacx/Run/SrcEvalAsgi.lean"], cwd=lib.LEAN, input="\n".join(lines) + "\n",
                       capture_output=True, text=True, timeout=1800)
    outs = [ln for ln in p.stdout.split("\n") if ln]
    if p.returncode != 0 or len(outs) != len(lines):
        return False, "SrcEvalAsgi: " + (p.stderr or p.stdout)[-800:]
    bad = 0
    for (acfg, bo, eo), ln in zip(calls, outs):
        got = json.loads(ln)
        want = observe_stub(acfg, bo, eo)
        have = canon_trace(got, marker) if "effects" in got else got
        run.count("translated-asgi")
        run.count("translated-asgi: " + "+".join(x["a"] for x in want))
        if have != want:
            bad += 1
            if bad == 1:
                run.disagreements.append({"part": "translated source vs python", "asgi": acfg,
                                          "builder_outcome": [bo[0], repr(bo[1])], "engine_outcome": [eo[0], repr(eo[1])],
                                          "impl": {"python": want}, "model": have,
                                          "what": "the translated RbacxMiddleware.__call__ (Generated.Src.asgi_call) and the real middleware differ "
                                                  "in their observable actions"})
    run.evaluations += len(calls)
    return bad == 0, f"{bad} of {len(calls)} evaluations differ" if bad else f"agree on {len(calls)} evaluations"


def gen_choice(r, xs):
    return xs[r.randrange(len(xs))]


def check(run: lib.Run, audit: dict) -> int:
    run.rule = ("every combination of mode × builder present × add_headers × scope type (http/websocket/lifespan/none) × builder raising; for enforced "
                "http scopes also × 7 request shapes the decision does not depend on (methods incl. OPTIONS/HEAD/TRACE, paths, CORS and auth "
                "headers, query strings, client/server, a scope that already carries somebody else's guard) and × an engine that raises; two "
                "overlapping requests on one middleware that differ in roles only; over a "
                "subsample of the C01 template-pool cases, plus random grammar cases (nested sets with marker ids, obligation-failed permits) in "
                "enforce mode; the translated source of __call__ / _send_json vs the real middleware with a stub builder / engine: 3 modes × "
                "builder present × add_headers × 4 scope types × 5 builder outcomes × (2 raising engines + 96 Decisions over allowed × reason × "
                "rule_id × policy_id + non-str ids). non-trivial = an enforced request that was answered with a 403")
    run.assumptions = ["env builder modelled as: returns the request or raises"]
    if not audit["ok"]:
        raise lib.CheckError(f"Lean build/audit failed at {audit['stage']}: {audit.get('log') or audit.get('forbidden') or audit.get('bad_axioms')}")
    # the middleware as it is written NOW, translated into Lean as an action trace, is proved equal to the model's asgiCall (per-run obligation)
    tr = audit["facts"].get("translated_asgi")
    untranslatable = isinstance(tr, dict) and "extraction_failed" in tr
    ok_tr, detail_tr = lib.run_obligation("C20_translated")
    run.obligation("C20_translated: Generated.Src.asgi_call / Src.asgi_send_json (the current source text of RbacxMiddleware.__call__ / _send_json "
                   "as action traces; build_env and guard.evaluate_async as outcome parameters) = the encoding of the model's asgiCall, effect by "
                   "effect, for every configuration, scope, builder outcome and engine outcome; the C20 clauses re-derived for the translated source",
                   ok_tr, "discharged" if ok_tr else (str(tr["extraction_failed"]) if untranslatable else detail_tr))
    if untranslatable or not isinstance(tr, dict):
        ok_py, detail_py = True, "skipped: the middleware is not in the translatable subset (see C20_translated)"
    else:
        ok_py, detail_py = translated_vs_python(run)
    run.obligation("translated middleware acts like the real RbacxMiddleware (translator + Model/PyTrace.lean + Model/PyLib.lean vs CPython)", ok_py, detail_py)
    run_cases(run, audit, scale=run.boost * (1 if ok_tr else 2))
    overlap_probes(run)
    sequence_probes(run)
    violations = []
    if (run.disagreements or not ok_tr) and not run.spec_failures:
        run_cases(run, audit, scale=4)        # the model or the translation tie broke: widen the search for a failing input
    if run.spec_failures:
        path = run.write_replay("spec", {"what": "C20 violated on the real middleware", "case": run.spec_failures[0], "count": len(run.spec_failures)})
        violations.append((path, True))
    elif not ok_tr:
        path = run.write_replay("obligation", {"what": "per-run obligation Rbacx/Run/C20_translated.lean no longer checks: the translated source of "
                                               "RbacxMiddleware.__call__ / _send_json is not proved equal to the model's asgiCall, the function "
                                               "theorems Rbacx.C20.* are about; the widened search found no request on which the real middleware "
                                               "violates C20", "translation": tr, "lean": detail_tr[-1500:],
                                               "first_disagreement": run.disagreements[:1], "disagreements": len(run.disagreements)})
        violations.append((path, False))
    elif run.disagreements or not ok_py:
        first = run.disagreements[0] if run.disagreements else {"part": "translated source vs python", "what": detail_py}
        if first.get("part") == "translated source vs python":
            what = ("translated source vs python: " + str(first.get("what")) + "; the obligation C20_translated rests on a translation that "
                    "CPython contradicts (or that could not be evaluated)")
        else:
            what = ("model Rbacx.asgiCall ∘ guardEval and the middleware differ in their observable actions; theorems Rbacx.C20.* no longer "
                    "speak about this code")
        path = run.write_replay("correspondence", {"what": what, "first": first, "count": len(run.disagreements)})
        violations.append((path, False))
    return run.finish(audit, violations)


def replay(run: lib.Run, audit: dict, path: str) -> int:
    import json
    rp = json.load(open(path))
    c = rp.get("case") or rp.get("first")
    if c and c.get("part") == "sequence":
        sequence_probes(run)
        now = [f for f in run.spec_failures if f.get("part") == "sequence"]
        print("now:", json.dumps(now[0], default=str)[:3000] if now else "every response of every sequence equals a fresh middleware's")
        print("recorded:", json.dumps(c, default=str)[:3000])
        return 1 if now else 0
    if not c or "policy" not in c or "request" not in c:
        print("recorded:", json.dumps(c or rp, default=str)[:3000])
        return 0
    print("observed now:", observe(c["policy"], c["request"], c["cfg"], c["asgi"])[0])
    print("recorded:", c["observed"], "model:", c["model"])
    return 0
