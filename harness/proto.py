"""Line protocol between the Python harness (real rbacx, in-process) and the Lean model driver.

Value encoding (DESIGN §2.3): None→null, bool→true/false, str→"…", int→["i","<decimal>"],
float→["f","<u64 bits>"], list→["l",[…]], dict→["o",[[k,v],…]] (insertion order kept),
datetime→["dt",aware,"<µs since epoch, naive read as UTC>"].
"""
from __future__ import annotations

import json
import os
import struct
import subprocess
from datetime import datetime, timedelta, timezone
from typing import Any, Iterable

VERIF = os.path.dirname(os.path.dirname(os.path.abspath(__file__)))
DRIVER = os.path.join(os.environ.get("VERIF_LEAN_DIR") or os.path.join(VERIF, "lean"), ".lake", "build", "bin", "driver")

_EPOCH_AWARE = datetime(1970, 1, 1, tzinfo=timezone.utc)
_EPOCH_NAIVE = datetime(1970, 1, 1)
_US = timedelta(microseconds=1)


def fbits(f: float) -> str:
    return str(struct.unpack("<Q", struct.pack("<d", f))[0])


def bits_to_float(b: str) -> float:
    return struct.unpack("<d", struct.pack("<Q", int(b)))[0]


def dt_micros(d: datetime) -> int:
    if d.tzinfo is not None:
        return (d - _EPOCH_AWARE) // _US
    return (d - _EPOCH_NAIVE) // _US


def enc(v: Any) -> Any:
    if v is None or isinstance(v, (bool, str)):
        return v
    if isinstance(v, int):
        return ["i", str(v)]
    if isinstance(v, float):
        return ["f", fbits(v)]
    if isinstance(v, (list, tuple)):
        return ["l", [enc(x) for x in v]]
    if isinstance(v, dict):
        for k in v:
            if not isinstance(k, str):
                raise TypeError(f"non-string dict key outside the model's domain: {k!r}")
        return ["o", [[k, enc(x)] for k, x in v.items()]]
    if isinstance(v, datetime):
        return ["dt", v.tzinfo is not None, str(dt_micros(v))]
    raise TypeError(f"value outside the model's domain: {type(v).__name__}")


def dec(j: Any) -> Any:
    if j is None or isinstance(j, (bool, str)):
        return j
    tag = j[0]
    if tag == "i":
        return int(j[1])
    if tag == "f":
        return bits_to_float(j[1])
    if tag == "l":
        return [dec(x) for x in j[1]]
    if tag == "o":
        return {k: dec(x) for k, x in j[1]}
    if tag == "dt":
        base = _EPOCH_AWARE if j[1] else _EPOCH_NAIVE
        return base + int(j[2]) * _US
    raise ValueError(f"bad tagged value {j!r}")


def canon(v: Any) -> str:
    """Canonical text of a value for comparing model output with real output (dict order kept)."""
    return json.dumps(enc(v), ensure_ascii=True, separators=(",", ":"))


def canon_unordered(v: Any) -> str:
    """bit-exact on numbers (all NaNs identified), insensitive to dict key order (Python `==` on dicts ignores order)"""
    def norm(x):
        if isinstance(x, dict):
            return {"__dict__": sorted(((k, norm(y)) for k, y in x.items()), key=lambda kv: kv[0])}
        if isinstance(x, (list, tuple)):
            return [norm(y) for y in x]
        if isinstance(x, float) and x != x:
            return "<nan>"
        return enc(x)
    return json.dumps(norm(v), sort_keys=True)


# ----------------------------------------------------------------------------- oracles


def _walk(v: Any, out: list) -> None:
    out.append(v)
    if isinstance(v, (list, tuple)):
        for x in v:
            _walk(x, out)
    elif isinstance(v, dict):
        for k, x in v.items():
            out.append(k)
            _walk(x, out)


def iso_instant(s: str) -> int | None:
    try:
        d = datetime.fromisoformat(s.replace("Z", "+00:00"))
    except Exception:
        return None
    if d.tzinfo is None:
        d = d.replace(tzinfo=timezone.utc)
    try:
        return dt_micros(d)
    except OverflowError:  # pragma: no cover
        return None


def epoch_instant(x: Any) -> int | None:
    try:
        d = datetime.fromtimestamp(float(x), tz=timezone.utc)
    except (OverflowError, ValueError, OSError):
        return None
    return dt_micros(d)


def float_of_str(s: str) -> str | None:
    try:
        return fbits(float(s))
    except (ValueError, OverflowError):
        return None


def build_oracle(*roots: Any) -> dict:
    """Stdlib facts about every value reachable from `roots`, computed without calling rbacx."""
    nodes: list = []
    for r in roots:
        _walk(r, nodes)
    seen_str: set[str] = set()
    seen_val: set[str] = set()
    o_str, o_iso, o_epoch, o_fos = [], [], [], []
    for v in nodes:
        if isinstance(v, str):
            if v in seen_str:
                continue
            seen_str.add(v)
            o_iso.append([v, None if (m := iso_instant(v)) is None else str(m)])
            o_fos.append([v, float_of_str(v)])
            continue
        if v is None or isinstance(v, bool):
            continue
        try:
            e = enc(v)
        except TypeError:
            continue
        key = json.dumps(e)
        if key in seen_val:
            continue
        seen_val.add(key)
        if isinstance(v, (int, float)):
            o_epoch.append([e, None if (m := epoch_instant(v)) is None else str(m)])
        if isinstance(v, (float, list, tuple, dict, datetime)):
            try:
                o_str.append([e, str(v)])
            except Exception:  # pragma: no cover
                pass
    return {"str": o_str, "iso": o_iso, "epoch": o_epoch, "fos": o_fos}


# ----------------------------------------------------------------------------- driver


class DriverError(RuntimeError):
    pass


def run_driver(cmds: Iterable[dict], chunk: int = 20000) -> list[Any]:
    """Send commands to the compiled Lean driver, return one decoded answer per command."""
    if not os.path.exists(DRIVER):
        raise DriverError(f"model driver not built: {DRIVER}")
    out: list[Any] = []
    buf: list[str] = []

    def flush() -> None:
        if not buf:
            return
        data = "\n".join(buf) + "\n"
        p = subprocess.run([DRIVER], input=data.encode("utf-8"), capture_output=True, timeout=1800)
        if p.returncode != 0:
            raise DriverError(f"driver exit {p.returncode}: {p.stderr.decode()[:2000]}")
        # split on "\n" only: str.splitlines() also breaks on U+0085/U+2028/U+2029…, which the driver prints raw inside strings
        lines = p.stdout.decode("utf-8").split("\n")
        if lines and lines[-1] == "":
            lines.pop()
        if len(lines) != len(buf):
            raise DriverError(f"driver answered {len(lines)} lines for {len(buf)} commands")
        for ln in lines:
            j = json.loads(ln)
            if isinstance(j, dict) and "driver_error" in j:
                raise DriverError(j["driver_error"])
            out.append(j)
        buf.clear()

    for c in cmds:
        buf.append(json.dumps(c, ensure_ascii=True, separators=(",", ":")))
        if len(buf) >= chunk:
            flush()
    flush()
    return out
