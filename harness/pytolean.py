"""A small source-to-Lean translator: selected pure functions of rbacx → Lean definitions over `PyVal`
(`lean/Rbacx/Model/PyLib.lean` gives the Python operations their meaning).

Supported subset (anything else raises `Unsupported`, reported as a failed extraction): functions whose body is a
sequence of assignments to local names, `if`/`elif`/`else`, `return`, and append-only `for` loops over one accumulator;
expressions built from names, None/True/False/str/int constants, empty `{}`/`[]`, tuple/list displays, `x.get("k")`,
`and`/`or`/`not`, `is None`/`is not None`, `==`/`!=`, `in`/`not in`, `len(x) > n`, `isinstance(x, T)`, conditional
expressions, one-generator list comprehensions, `tuple(x)`/`list(x)`, and calls of other translated functions.

The translation is purely syntax-directed; statements after an `if` that does not return are duplicated into both branches
(continuation style), so that every function becomes ONE Lean expression."""
from __future__ import annotations

import ast

KEYWORDS = {"at", "from", "fun", "end", "in", "if", "then", "else", "let", "have", "show", "do", "open", "Type", "Prop", "match", "with",
            "where", "by", "def", "theorem", "instance", "structure", "class", "namespace", "section", "variable", "universe", "import"}


class Unsupported(Exception):
    pass


def ident(name: str) -> str:
    n = name.lstrip("_") or "x"
    return n + "'" if n in KEYWORDS else n


def lean_str(s: str) -> str:
    out = []
    for ch in s:
        if ch == '"':
            out.append('\\"')
        elif ch == "\\":
            out.append("\\\\")
        elif ch == "\n":
            out.append("\\n")
        elif ord(ch) < 32:
            out.append("\\x%02x" % ord(ch))
        else:
            out.append(ch)
    return '"' + "".join(out) + '"'


class Translator:
    def __init__(self, known: set[str], consts: dict | None = None):
        self.known = known        # python names of the functions being translated (callable from one another)
        self.consts = consts or {}   # module-level NAME = <tuple/str/int constant> assignments, inlined at their uses
        self.locals: set[str] = set()

    # ------------------------------------------------------------------ expressions
    def E(self, e: ast.expr) -> str:
        if isinstance(e, ast.Name):
            if e.id not in self.locals and e.id in self.consts:
                return self.E(self.consts[e.id])
            return ident(e.id)
        if isinstance(e, ast.Constant):
            v = e.value
            if v is None:
                return "PyVal.none"
            if v is True or v is False:
                return f"(PyVal.bool {'true' if v else 'false'})"
            if isinstance(v, str):
                return f"(PyVal.str {lean_str(v)})"
            if isinstance(v, int):
                return f"(PyVal.int {v})" if v >= 0 else f"(PyVal.int ({v}))"
            raise Unsupported(f"constant {v!r}")
        if isinstance(e, ast.Dict) and not e.keys:
            return "(PyVal.dict [])"
        if isinstance(e, (ast.List, ast.Tuple)):
            return "(PyVal.list [" + ", ".join(self.E(x) for x in e.elts) + "])"
        if isinstance(e, ast.BoolOp):
            op = "PyVal.por" if isinstance(e.op, ast.Or) else "Rbacx.Py.pand"
            acc = self.E(e.values[-1])
            for v in reversed(e.values[:-1]):
                acc = f"({op} {self.E(v)} {acc})"
            return acc
        if isinstance(e, ast.UnaryOp) and isinstance(e.op, ast.Not):
            return f"(Rbacx.Py.pnot {self.E(e.operand)})"
        if isinstance(e, ast.IfExp):
            return f"(if ({self.E(e.test)}).truthy then {self.E(e.body)} else {self.E(e.orelse)})"
        if isinstance(e, ast.Compare):
            if len(e.ops) != 1:
                raise Unsupported("chained comparison")
            op, a, b = e.ops[0], e.left, e.comparators[0]
            if isinstance(op, (ast.Is, ast.IsNot)):
                if not (isinstance(b, ast.Constant) and b.value is None):
                    raise Unsupported("`is` with something other than None")
                return f"(Rbacx.Py.{'isNone' if isinstance(op, ast.Is) else 'isNotNone'} {self.E(a)})"
            if isinstance(op, ast.Eq):
                return f"(Rbacx.Py.eq {self.E(a)} {self.E(b)})"
            if isinstance(op, ast.NotEq):
                return f"(Rbacx.Py.ne {self.E(a)} {self.E(b)})"
            if isinstance(op, ast.In):
                return f"(Rbacx.Py.contains {self.E(b)} {self.E(a)})"
            if isinstance(op, ast.NotIn):
                return f"(Rbacx.Py.pnot (Rbacx.Py.contains {self.E(b)} {self.E(a)}))"
            if isinstance(op, ast.Gt) and isinstance(a, ast.Call) and isinstance(a.func, ast.Name) and a.func.id == "len" \
                    and isinstance(b, ast.Constant) and isinstance(b.value, int):
                return f"(Rbacx.Py.gtInt (Rbacx.Py.len {self.E(a.args[0])}) {b.value})"
            raise Unsupported(f"comparison {ast.dump(op)}")
        if isinstance(e, ast.ListComp):
            if len(e.generators) != 1 or e.generators[0].is_async or not isinstance(e.generators[0].target, ast.Name):
                raise Unsupported("comprehension shape")
            g = e.generators[0]
            body = f"[{self.E(e.elt)}]"
            for cond in reversed(g.ifs):
                body = f"(if ({self.E(cond)}).truthy then {body} else [])"
            return f"(Rbacx.Py.collect {self.E(g.iter)} fun {ident(g.target.id)} => {body})"
        if isinstance(e, ast.Call):
            f = e.func
            if isinstance(f, ast.Attribute) and f.attr == "lower" and not e.args and not e.keywords:
                return f"(Rbacx.Py.lower {self.E(f.value)})"
            if isinstance(f, ast.Attribute) and f.attr == "endswith" and len(e.args) == 1 and not e.keywords:
                return f"(Rbacx.Py.endswith {self.E(f.value)} {self.E(e.args[0])})"
            if isinstance(f, ast.Name) and f.id == "any" and len(e.args) == 1 and isinstance(e.args[0], ast.GeneratorExp) \
                    and len(e.args[0].generators) == 1 and not e.args[0].generators[0].ifs \
                    and isinstance(e.args[0].generators[0].target, ast.Name):
                g = e.args[0].generators[0]
                self.locals.add(g.target.id)
                return f"(Rbacx.Py.anyOf {self.E(g.iter)} fun {ident(g.target.id)} => {self.E(e.args[0].elt)})"
            if isinstance(f, ast.Attribute) and f.attr == "get" and len(e.args) == 1 and isinstance(e.args[0], ast.Constant) \
                    and isinstance(e.args[0].value, str) and not e.keywords:
                return f"(Rbacx.Py.get {self.E(f.value)} {lean_str(e.args[0].value)})"
            if isinstance(f, ast.Name):
                if f.id == "isinstance" and len(e.args) == 2 and isinstance(e.args[1], ast.Name):
                    return f"(Rbacx.Py.isInstance {self.E(e.args[0])} {lean_str(e.args[1].id)})"
                if f.id in ("tuple", "list"):
                    if not e.args:
                        return "(PyVal.list [])"
                    if len(e.args) == 1:
                        return f"(PyVal.list (Rbacx.Py.iter {self.E(e.args[0])}))"
                if f.id in self.known and not e.keywords:
                    return "(" + " ".join([ident(f.id)] + [self.E(a) for a in e.args]) + ")"
            raise Unsupported(f"call {ast.unparse(e)}")
        raise Unsupported(f"expression {ast.unparse(e)}")

    # ------------------------------------------------------------------ statements (continuation style)
    def appends(self, stmts: list[ast.stmt], acc: str) -> str:
        """the list of values an append-only statement list adds to `acc`"""
        parts = []
        for st in stmts:
            if isinstance(st, ast.Expr) and isinstance(st.value, ast.Call) and isinstance(st.value.func, ast.Attribute) \
                    and st.value.func.attr == "append" and isinstance(st.value.func.value, ast.Name) and st.value.func.value.id == acc \
                    and len(st.value.args) == 1:
                parts.append(f"[{self.E(st.value.args[0])}]")
            elif isinstance(st, ast.If):
                parts.append(f"(if ({self.E(st.test)}).truthy then {self.appends(st.body, acc)} else {self.appends(st.orelse, acc)})")
            elif isinstance(st, ast.Pass):
                continue
            else:
                raise Unsupported(f"loop body statement {ast.unparse(st)[:60]}")
        return "(" + " ++ ".join(parts) + ")" if parts else "[]"

    @staticmethod
    def loop_acc(st: ast.For) -> str:
        for node in ast.walk(st):
            if isinstance(node, ast.Call) and isinstance(node.func, ast.Attribute) and node.func.attr == "append" \
                    and isinstance(node.func.value, ast.Name):
                return node.func.value.id
        raise Unsupported("for loop without an append")

    def S(self, stmts: list[ast.stmt], ind: str) -> str:
        if not stmts:
            return "PyVal.none"
        st, rest = stmts[0], stmts[1:]
        if isinstance(st, ast.Expr) and isinstance(st.value, ast.Constant) and isinstance(st.value.value, str):
            return self.S(rest, ind)                                                   # docstring
        if isinstance(st, ast.Pass):
            return self.S(rest, ind)
        if isinstance(st, ast.Return):
            return self.E(st.value) if st.value is not None else "PyVal.none"
        if isinstance(st, (ast.Assign, ast.AnnAssign)):
            tgt = st.targets[0] if isinstance(st, ast.Assign) else st.target
            if (isinstance(st, ast.Assign) and len(st.targets) != 1) or not isinstance(tgt, ast.Name) or st.value is None:
                raise Unsupported(f"assignment {ast.unparse(st)[:60]}")
            return f"let {ident(tgt.id)} := {self.E(st.value)}\n{ind}{self.S(rest, ind)}"
        if isinstance(st, ast.If):
            a = self.S(st.body + rest, ind + "  ")
            b = self.S(st.orelse + rest, ind + "  ")
            return f"if ({self.E(st.test)}).truthy then\n{ind}  {a}\n{ind}else\n{ind}  {b}"
        if isinstance(st, ast.For):
            if st.orelse or not isinstance(st.target, ast.Name):
                raise Unsupported("for/else or tuple target")
            acc = self.loop_acc(st)
            body = self.appends(st.body, acc)
            return (f"let {ident(acc)} := Rbacx.Py.concat {ident(acc)} (Rbacx.Py.collect {self.E(st.iter)} fun {ident(st.target.id)} => {body})\n"
                    f"{ind}{self.S(rest, ind)}")
        raise Unsupported(f"statement {ast.unparse(st)[:60]}")

    def function(self, fn: ast.FunctionDef) -> str:
        if fn.args.vararg or fn.args.kwarg or fn.args.defaults:
            raise Unsupported(f"signature of {fn.name}")
        # keyword-only parameters become positional ones in signature order (their defaults are not used: callers pass all of them)
        allargs = list(fn.args.args) + list(fn.args.kwonlyargs)
        self.locals = {a.arg for a in allargs} | {n.id for n in ast.walk(fn) if isinstance(n, ast.Name) and isinstance(n.ctx, ast.Store)}
        params = " ".join(f"({ident(a.arg)} : PyVal)" for a in allargs)
        return f"def {ident(fn.name)} {params} : PyVal :=\n  {self.S(fn.body, '  ')}\n"


def translate(source: str, names: list[str]) -> dict[str, str]:
    """{python function name: Lean definition text} in the order given (callees first)"""
    tree = ast.parse(source)
    fns = {n.name: n for n in tree.body if isinstance(n, ast.FunctionDef)}
    consts = {}
    for n in tree.body:
        if isinstance(n, ast.Assign) and len(n.targets) == 1 and isinstance(n.targets[0], ast.Name):
            v = n.value
            if isinstance(v, ast.Constant) or (isinstance(v, (ast.Tuple, ast.List)) and all(isinstance(x, ast.Constant) for x in v.elts)):
                consts[n.targets[0].id] = v
    tr = Translator(set(names), consts)
    out = {}
    for name in names:
        if name not in fns:
            raise Unsupported(f"function {name} not found")
        out[name] = tr.function(fns[name])
    return out


if __name__ == "__main__":
    import sys
    src = open(sys.argv[1], encoding="utf-8").read()
    for k, v in translate(src, sys.argv[2:]).items():
        print(v)
