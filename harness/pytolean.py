"""A small source-to-Lean translator: selected pure functions of rbacx → Lean definitions over `PyVal`
(`lean/Rbacx/Model/PyLib.lean` gives the Python operations their meaning).

Supported subset (anything else raises `Unsupported`, reported as a failed extraction): functions whose body is a
sequence of assignments to local names, `if`/`elif`/`else`, `return`, and append-only `for` loops over one accumulator;
expressions built from names, None/True/False/str/int constants, empty `{}`/`[]`, tuple/list displays, `x.get("k")`,
`and`/`or`/`not`, `is None`/`is not None`, `==`/`!=`, `in`/`not in`, `len(x) > n`, `isinstance(x, T)`, conditional
expressions, one-generator list comprehensions, `tuple(x)`/`list(x)`, and calls of other translated functions.

The translation is purely syntax-directed; statements after an `if` that does not return are duplicated into both branches
(continuation style), so that every function becomes ONE Lean expression.

FRAGMENTS (`translate_fragment`): a pure, total statement range of a function that is too effectful to translate whole.
A fragment is designated by `(function, kind, start)`; the function must have exactly ONE top-level `for` statement (no `else`):

* kind `"after_loop"`: all statements of the function body after that `for` statement.  The Lean definition returns what the
  fragment `return`s.  Parameters: the local variables that may be read before the fragment assigns them, in order of first read.
* kind `"loop_body_from"`: the statements of the loop body from the ONE top-level statement of the body whose `ast.unparse` text starts
  with `start`, to the end of the body.  `continue` and running off the end end the iteration, `break` leaves the loop.
  A variable the fragment assigns is a *temporary* when it is mentioned nowhere else in the function and is never read in the
  fragment before it is assigned; every other assigned variable is *carried*.  Parameters: first the variables that are read but
  never assigned (order of first read), then the carried variables (order of first assignment).  Result: the Python tuple
  `(carried variables in that order…, broke)` as a `PyVal.list`, `broke` = `PyVal.bool true` iff the iteration ended in `break`.

Additional statements/expressions in fragments: `break`/`continue` (loop bodies), dict displays with constant string keys, `dict(x)`,
`str(x)`, and `x["k"] = v` — the latter only while `x` is bound to a dict the fragment itself has just built (`dict(...)`/display) and
that has not been used as a bare value since (no aliasing: value semantics and CPython's reference semantics then coincide).

TARGET-MATCHER EXTENSIONS (used by `extractors/src_translation_target.py` for `_is_strict` / `match_resource`; every one of them is
syntax-directed and anything outside the stated shape still raises `Unsupported`):

* guard-style early returns: a `return` ends its path, so `if c: return X` followed by more statements is `if c then X else <rest>`
  (this was always so; nested guards inside if/else branches work the same way).
* `joins=True`: the statements after an `if` of which BOTH branches can fall through are translated ONCE, bound to a local name
  `join<n>` — a function of the variables the `if` assigns and the rest reads, or a plain value when there are none — and both branches
  end in it (instead of the default: the rest duplicated into both branches).  Lean's `let` is pure, so binding the rest before the
  test does not change what is computed.
* `for k, v in d.items(): <body>` whose body `return`s: `Rbacx.Py.forItemsRet d (fun k v => <body as Option: some x = returned x, none =
  next entry>) <rest>` — the first value returned over the entries in order, else what the statements after the loop compute.  Accepted
  only when the body has no `break`/`continue`/loop, every variable it assigns is assigned before it is read in the same iteration, and
  neither those variables nor `k`, `v` are read outside the loop (so no state is carried between iterations or out of the loop).
* a set comprehension `{e for x in it [if c]}`, a set display `{a, b}` or `set(it)` ONLY as the right operand of `in` / `not in`: `Rbacx.Py.inSet <elements> a` =
  membership by `==`.  CPython hashes first: for str/int/float/bool/None members equal values have equal hashes, so hashing changes
  nothing; an unhashable member (list/dict) raises TypeError in CPython — not represented: the source must exclude it (a comprehension
  whose element is `str(...)` does by construction; `set(x)` has to be guarded, and the differential run is what checks that).
* `all(<genexp>)` (`allOf`), `bool(x)` (`boolOf`), `d.get(k)` with a variable key (`getV`: a non-string key is in no JSON dict).
* `str(x)` with `oracle=True`: `Rbacx.Py.strO o x`, `o : Oracle` being an extra FIRST parameter of every function that
  (transitively) calls `str` — the text of floats/containers/datetimes is CPython's, supplied as `o.strOf`, exactly as in the model.
* a bare local annotation `x: T` (no value): no runtime effect, skipped.  Keyword-only parameters become positional parameters in
  signature order; their defaults (constants only) are recorded in the generated doc comment, callers pass every argument.
* `try: <body> except Exception: <handler>` (no else/finally) as the WHOLE body of a function: the try body is translated and the
  generated doc comment says so; the translation speaks about the inputs on which the try body does not raise.

OBLIGATION-CHECKER EXTENSIONS (used by `extractors/src_translation_obligations.py` for `BasicObligationChecker.check`):

* a function designator may be `Class.method` (a method of a top-level class; `self` is an ordinary, unused parameter).
* FLOW fragments — a statement range that can `return` AND can be left normally: the Lean definition has type `Rbacx.Py.Flow`,
  `.ret v` = the range executed `return v`, `.next [v1, …]` = control left the range normally with these values of its output
  variables.  Two shapes: a `loop_body_from` range that contains a `return` (outputs: the carried variables, then `broke`, as before),
  and kind `"before_loop"`: the statements of the function body before the `for` statement, up to but excluding the ONE statement
  whose text starts with `start` (that statement and what follows it up to the loop stay hand-modelled and are named in the generated
  doc comment; they may not assign a variable the range assigns).  Outputs of a `before_loop` range: the variables it assigns that
  are mentioned elsewhere in the function, in order of first assignment.
* EXTERNAL functions (`externals=[name, …]`): a call `name(a, …)` of a module-level function that is NOT translated becomes an
  application of an extra function parameter `(name : PyVal → … → PyVal)` (after `o`, before the inputs).  The translation says
  nothing about what the function computes: the per-run obligation instantiates it with the model's counterpart and the differential
  run supplies CPython's results as a table.
* `d.get("k", default)` (`getD`), float constants with an integral value (`0.0`), `<`/`>`/`<=`/`>=` (`lt`/`gt`/`le`/`ge`: floats with
  floats, ints with ints; other operand kinds — a TypeError or a mixed comparison in CPython — are not represented), f-strings
  whose replacement fields have no conversion and no format spec (`fstr`; `format(x, "")` is `str(x)` for every JSON-shaped value, so a
  field is `strO o x`), tuple displays as `return` values (lists, as everywhere).
* `try: X = <E> except TypeError: X = <C>` where `<E>` is built from `bool(…)`, `not`, names, constants and exactly ONE call
  `D.get(K)` with names `D`, `K`, and `<C>` is a constant: `let X := if Rbacx.Py.hashable K then <E> else <C>`.  Justification: on
  JSON-shaped values the only operation of `<E>` that can raise TypeError is the hashing of the key by `dict.get`, which happens
  exactly for an unhashable key (list, dict) and before anything is assigned; `bool`/`not` never raise.  (For a `D` that is not a dict
  CPython raises AttributeError, which this handler does not catch, while `getV` answers None: outside the domain, as for every `.get`.)"""
from __future__ import annotations

import ast

KEYWORDS = {"at", "from", "fun", "end", "in", "if", "then", "else", "let", "have", "show", "do", "open", "Type", "Prop", "match", "with",
            "where", "by", "def", "theorem", "instance", "structure", "class", "namespace", "section", "variable", "universe", "import"}


class Unsupported(Exception):
    pass


def ident(name: str) -> str:
    n = name.lstrip("_") or "x"
    return n + "'" if n in KEYWORDS else n


def lean_str(s: str) -> str:
    out = []
    for ch in s:
        if ch == '"':
            out.append('\\"')
        elif ch == "\\":
            out.append("\\\\")
        elif ch == "\n":
            out.append("\\n")
        elif ord(ch) < 32:
            out.append("\\x%02x" % ord(ch))
        else:
            out.append(ch)
    return '"' + "".join(out) + '"'


class Translator:
    def __init__(self, known: set[str], consts: dict | None = None, joins: bool = False, oracle: bool = False,
                 externals: list[str] | tuple = ()):
        self.known = known        # python names of the functions being translated (callable from one another)
        self.consts = consts or {}   # module-level NAME = <tuple/str/int constant> assignments, inlined at their uses
        self.locals: set[str] = set()
        self.joins = joins        # bind the statements after a two-way fall-through `if` once (see the module docstring)
        self.oracle = oracle      # `str(x)` → `Rbacx.Py.strO o x` with an oracle parameter `o`
        self.uses_oracle: set[str] = set()   # translated functions that take `o`
        self.cur_oracle = False   # the function being translated takes `o`
        self.njoin = 0
        self.notes: list[str] = []
        self.externals = list(externals)    # module-level functions that stay outside the translation: function parameters
        self.ext_arity: dict[str, int] = {}   # the externals actually called → number of arguments

    # ------------------------------------------------------------------ expressions
    def E(self, e: ast.expr) -> str:
        if isinstance(e, ast.Name):
            if e.id not in self.locals and e.id in self.consts:
                return self.E(self.consts[e.id])
            if e.id not in self.locals:
                raise Unsupported(f"name {e.id} is neither a local variable nor an inlinable module constant")
            return ident(e.id)
        if isinstance(e, ast.Constant):
            v = e.value
            if v is None:
                return "PyVal.none"
            if v is True or v is False:
                return f"(PyVal.bool {'true' if v else 'false'})"
            if isinstance(v, str):
                return f"(PyVal.str {lean_str(v)})"
            if isinstance(v, int):
                return f"(PyVal.int {v})" if v >= 0 else f"(PyVal.int ({v}))"
            if isinstance(v, float) and v == v and abs(v) < 2 ** 53 and v.is_integer() and str(v) == f"{int(v)}.0" and not str(v).startswith("-"):
                return f"(PyVal.float {int(v)}.0)"          # an integral float below 2^53: the decimal literal denotes it exactly
            raise Unsupported(f"constant {v!r}")
        if isinstance(e, ast.Dict) and not e.keys:
            return "(PyVal.dict [])"
        if isinstance(e, ast.Dict):
            if not all(isinstance(k, ast.Constant) and isinstance(k.value, str) for k in e.keys):
                raise Unsupported("dict display with a non-constant or non-string key (or `**`)")
            return "(Rbacx.Py.dictOf [" + ", ".join(f"({lean_str(k.value)}, {self.E(v)})" for k, v in zip(e.keys, e.values)) + "])"
        if isinstance(e, (ast.List, ast.Tuple)):
            return "(PyVal.list [" + ", ".join(self.E(x) for x in e.elts) + "])"
        if isinstance(e, ast.JoinedStr):
            parts = []
            for p in e.values:
                if isinstance(p, ast.Constant) and isinstance(p.value, str):
                    parts.append(f"(PyVal.str {lean_str(p.value)})")
                elif isinstance(p, ast.FormattedValue) and p.conversion == -1 and p.format_spec is None:
                    if not (self.oracle and self.cur_oracle):
                        raise Unsupported("f-string replacement field without the oracle parameter")
                    parts.append(f"(Rbacx.Py.strO o {self.E(p.value)})")
                else:
                    raise Unsupported(f"f-string part {ast.unparse(e)}")
            return "(Rbacx.Py.fstr [" + ", ".join(parts) + "])"
        if isinstance(e, ast.BoolOp):
            op = "PyVal.por" if isinstance(e.op, ast.Or) else "Rbacx.Py.pand"
            acc = self.E(e.values[-1])
            for v in reversed(e.values[:-1]):
                acc = f"({op} {self.E(v)} {acc})"
            return acc
        if isinstance(e, ast.UnaryOp) and isinstance(e.op, ast.Not):
            return f"(Rbacx.Py.pnot {self.E(e.operand)})"
        if isinstance(e, ast.IfExp):
            return f"(if ({self.E(e.test)}).truthy then {self.E(e.body)} else {self.E(e.orelse)})"
        if isinstance(e, ast.Compare):
            if len(e.ops) != 1:
                raise Unsupported("chained comparison")
            op, a, b = e.ops[0], e.left, e.comparators[0]
            if isinstance(op, (ast.Is, ast.IsNot)):
                if not (isinstance(b, ast.Constant) and b.value is None):
                    raise Unsupported("`is` with something other than None")
                return f"(Rbacx.Py.{'isNone' if isinstance(op, ast.Is) else 'isNotNone'} {self.E(a)})"
            if isinstance(op, ast.Eq):
                return f"(Rbacx.Py.eq {self.E(a)} {self.E(b)})"
            if isinstance(op, ast.NotEq):
                return f"(Rbacx.Py.ne {self.E(a)} {self.E(b)})"
            if isinstance(op, (ast.In, ast.NotIn)):
                elems = self.set_elements(b)
                test = f"(Rbacx.Py.inSet {elems} {self.E(a)})" if elems is not None else f"(Rbacx.Py.contains {self.E(b)} {self.E(a)})"
                return test if isinstance(op, ast.In) else f"(Rbacx.Py.pnot {test})"
            if isinstance(op, ast.Gt) and isinstance(a, ast.Call) and isinstance(a.func, ast.Name) and a.func.id == "len" \
                    and isinstance(b, ast.Constant) and isinstance(b.value, int):
                return f"(Rbacx.Py.gtInt (Rbacx.Py.len {self.E(a.args[0])}) {b.value})"
            for cls, nm in ((ast.Lt, "lt"), (ast.Gt, "gt"), (ast.LtE, "le"), (ast.GtE, "ge")):
                if isinstance(op, cls):
                    return f"(Rbacx.Py.{nm} {self.E(a)} {self.E(b)})"
            raise Unsupported(f"comparison {ast.dump(op)}")
        if isinstance(e, ast.ListComp):
            if len(e.generators) != 1 or e.generators[0].is_async or not isinstance(e.generators[0].target, ast.Name):
                raise Unsupported("comprehension shape")
            g = e.generators[0]
            body = f"[{self.E(e.elt)}]"
            for cond in reversed(g.ifs):
                body = f"(if ({self.E(cond)}).truthy then {body} else [])"
            return f"(Rbacx.Py.collect {self.E(g.iter)} fun {ident(g.target.id)} => {body})"
        if isinstance(e, ast.Call):
            f = e.func
            if isinstance(f, ast.Attribute) and f.attr == "lower" and not e.args and not e.keywords:
                return f"(Rbacx.Py.lower {self.E(f.value)})"
            if isinstance(f, ast.Attribute) and f.attr == "endswith" and len(e.args) == 1 and not e.keywords:
                return f"(Rbacx.Py.endswith {self.E(f.value)} {self.E(e.args[0])})"
            if isinstance(f, ast.Name) and f.id in ("any", "all") and f.id not in self.locals and len(e.args) == 1 and not e.keywords \
                    and isinstance(e.args[0], ast.GeneratorExp) \
                    and len(e.args[0].generators) == 1 and not e.args[0].generators[0].ifs and not e.args[0].generators[0].is_async \
                    and isinstance(e.args[0].generators[0].target, ast.Name):
                g = e.args[0].generators[0]
                self.locals.add(g.target.id)
                return f"(Rbacx.Py.{f.id}Of {self.E(g.iter)} fun {ident(g.target.id)} => {self.E(e.args[0].elt)})"
            if isinstance(f, ast.Attribute) and f.attr == "get" and len(e.args) == 1 and isinstance(e.args[0], ast.Constant) \
                    and isinstance(e.args[0].value, str) and not e.keywords:
                return f"(Rbacx.Py.get {self.E(f.value)} {lean_str(e.args[0].value)})"
            if isinstance(f, ast.Attribute) and f.attr == "get" and len(e.args) == 2 and isinstance(e.args[0], ast.Constant) \
                    and isinstance(e.args[0].value, str) and not e.keywords:
                return f"(Rbacx.Py.getD {self.E(f.value)} {lean_str(e.args[0].value)} {self.E(e.args[1])})"
            if isinstance(f, ast.Attribute) and f.attr == "get" and len(e.args) == 1 and isinstance(e.args[0], ast.Name) and not e.keywords:
                return f"(Rbacx.Py.getV {self.E(f.value)} {self.E(e.args[0])})"
            if isinstance(f, ast.Name):
                if f.id == "isinstance" and len(e.args) == 2 and isinstance(e.args[1], ast.Name):
                    return f"(Rbacx.Py.isInstance {self.E(e.args[0])} {lean_str(e.args[1].id)})"
                if f.id in ("tuple", "list"):
                    if not e.args:
                        return "(PyVal.list [])"
                    if len(e.args) == 1:
                        return f"(PyVal.list (Rbacx.Py.iter {self.E(e.args[0])}))"
                if f.id == "dict" and len(e.args) == 1 and not e.keywords and f.id not in self.locals:
                    return f"(Rbacx.Py.dictCopy {self.E(e.args[0])})"
                if f.id == "str" and len(e.args) == 1 and not e.keywords and f.id not in self.locals:
                    if self.oracle:
                        if not self.cur_oracle:
                            raise Unsupported("str(x) in a function that was not given the oracle parameter")
                        return f"(Rbacx.Py.strO o {self.E(e.args[0])})"
                    return f"(Rbacx.Py.strOf {self.E(e.args[0])})"
                if f.id == "bool" and len(e.args) == 1 and not e.keywords and f.id not in self.locals:
                    return f"(Rbacx.Py.boolOf {self.E(e.args[0])})"
                if f.id in self.externals and f.id not in self.locals and f.id not in self.known and e.args and not e.keywords \
                        and not any(isinstance(a, ast.Starred) for a in e.args):
                    if self.ext_arity.setdefault(f.id, len(e.args)) != len(e.args):
                        raise Unsupported(f"external function {f.id} is called with different numbers of arguments")
                    return "(" + " ".join([ident(f.id)] + [self.E(a) for a in e.args]) + ")"
                if f.id in self.known and not e.keywords and f.id not in self.locals:
                    if f.id in self.uses_oracle and not self.cur_oracle:
                        raise Unsupported(f"call of {f.id}, which needs the oracle, from a function without it")
                    return "(" + " ".join([ident(f.id)] + (["o"] if f.id in self.uses_oracle else []) + [self.E(a) for a in e.args]) + ")"
            raise Unsupported(f"call {ast.unparse(e)}")
        raise Unsupported(f"expression {ast.unparse(e)}")

    def set_elements(self, b: ast.expr) -> str | None:
        """the Lean list of the members of a set expression used as the right operand of `in`/`not in`; None when `b` is not one"""
        if isinstance(b, ast.SetComp):
            if len(b.generators) != 1 or b.generators[0].is_async or not isinstance(b.generators[0].target, ast.Name):
                raise Unsupported("comprehension shape")
            g = b.generators[0]
            if not g.ifs:
                return f"((Rbacx.Py.iter {self.E(g.iter)}).map fun {ident(g.target.id)} => {self.E(b.elt)})"
            body = f"[{self.E(b.elt)}]"
            for cond in reversed(g.ifs):
                body = f"(if ({self.E(cond)}).truthy then {body} else [])"
            return f"((Rbacx.Py.iter {self.E(g.iter)}).flatMap fun {ident(g.target.id)} => {body})"
        if isinstance(b, ast.Call) and isinstance(b.func, ast.Name) and b.func.id == "set" and b.func.id not in self.locals \
                and len(b.args) == 1 and not b.keywords:
            return f"(Rbacx.Py.iter {self.E(b.args[0])})"
        if isinstance(b, ast.Set):
            return "[" + ", ".join(self.E(x) for x in b.elts) + "]"
        return None

    # ------------------------------------------------------------------ statements (continuation style)
    def appends(self, stmts: list[ast.stmt], acc: str) -> str:
        """the list of values an append-only statement list adds to `acc`"""
        parts = []
        for st in stmts:
            if isinstance(st, ast.Expr) and isinstance(st.value, ast.Call) and isinstance(st.value.func, ast.Attribute) \
                    and st.value.func.attr == "append" and isinstance(st.value.func.value, ast.Name) and st.value.func.value.id == acc \
                    and len(st.value.args) == 1:
                parts.append(f"[{self.E(st.value.args[0])}]")
            elif isinstance(st, ast.If):
                parts.append(f"(if ({self.E(st.test)}).truthy then {self.appends(st.body, acc)} else {self.appends(st.orelse, acc)})")
            elif isinstance(st, ast.Pass):
                continue
            else:
                raise Unsupported(f"loop body statement {ast.unparse(st)[:60]}")
        return "(" + " ++ ".join(parts) + ")" if parts else "[]"

    @staticmethod
    def loop_acc(st: ast.For) -> str:
        for node in ast.walk(st):
            if isinstance(node, ast.Call) and isinstance(node.func, ast.Attribute) and node.func.attr == "append" \
                    and isinstance(node.func.value, ast.Name):
                return node.func.value.id
        raise Unsupported("for loop without an append")

    @staticmethod
    def falls_through(stmts: list[ast.stmt]) -> bool:
        """can control run off the end of this statement list? (syntactic: a `return`, or an `if` whose branches all return, ends it)"""
        for st in stmts:
            if isinstance(st, ast.Return):
                return False
            if isinstance(st, ast.If) and not Translator.falls_through(st.body) and not Translator.falls_through(st.orelse):
                return False
        return True

    @staticmethod
    def _stores(stmts: list[ast.stmt]) -> list[str]:
        """the names a statement list assigns, in order of first assignment (comprehension variables excluded)"""
        out: list[str] = []

        def walk(n: ast.AST) -> None:
            if isinstance(n, (ast.ListComp, ast.SetComp, ast.GeneratorExp, ast.DictComp)):
                return
            if isinstance(n, ast.Name) and isinstance(n.ctx, ast.Store) and n.id not in out:
                out.append(n.id)
            for c in ast.iter_child_nodes(n):
                walk(c)
        for st in stmts:
            walk(st)
        return out

    def items_loop(self, st: ast.For) -> tuple[str, str, ast.expr] | None:
        """(k, v, d) when `st` is `for k, v in d.items():` with a body that returns; None for a loop whose body does not return"""
        if not any(isinstance(n, ast.Return) for b in st.body for n in ast.walk(b)):
            return None
        it, tg = st.iter, st.target
        if not (isinstance(it, ast.Call) and isinstance(it.func, ast.Attribute) and it.func.attr == "items" and not it.args and not it.keywords
                and isinstance(tg, ast.Tuple) and len(tg.elts) == 2 and all(isinstance(x, ast.Name) for x in tg.elts)):
            raise Unsupported("a for loop whose body returns must have the form `for k, v in d.items():`")
        if st.orelse:
            raise Unsupported("for/else")
        for b in st.body:
            for n in ast.walk(b):
                if isinstance(n, (ast.Break, ast.Continue, ast.For, ast.While, ast.Try, ast.With)):
                    raise Unsupported(f"{type(n).__name__} inside a for loop whose body returns")
        k, v = tg.elts[0].id, tg.elts[1].id
        if k == v:
            raise Unsupported("loop targets")
        assigned = self._stores(st.body)
        if k in assigned or v in assigned:
            raise Unsupported("the loop body assigns a loop target")
        free: list[str] = []
        _flow(st.body, set(assigned), set(), free, [])
        if free:
            raise Unsupported(f"loop body reads {free} before assigning them in the same iteration (state carried between iterations)")
        inside = {id(n) for n in ast.walk(st)}
        for n in ast.walk(self.cur_fn):
            if isinstance(n, ast.Name) and id(n) not in inside and n.id in set(assigned) | {k, v}:
                raise Unsupported(f"variable {n.id} of an early-return loop is used outside the loop")
        return k, v, it.func.value

    def S(self, stmts: list[ast.stmt], ind: str, tail: str = "PyVal.none", ret=None) -> str:
        """`tail`: what the statements compute when control runs off their end; `ret`: wraps a returned value (loop bodies: `some`)"""
        ret = ret or (lambda x: x)
        if not stmts:
            return tail
        st, rest = stmts[0], stmts[1:]
        if isinstance(st, ast.Expr) and isinstance(st.value, ast.Constant) and isinstance(st.value.value, str):
            return self.S(rest, ind, tail, ret)                                        # docstring
        if isinstance(st, ast.Pass):
            return self.S(rest, ind, tail, ret)
        if isinstance(st, ast.Return):
            return ret(self.E(st.value) if st.value is not None else "PyVal.none")
        if isinstance(st, ast.AnnAssign) and st.value is None and isinstance(st.target, ast.Name) and st.simple:
            return self.S(rest, ind, tail, ret)                                        # bare local annotation `x: T`: no runtime effect
        if isinstance(st, (ast.Assign, ast.AnnAssign)):
            tgt = st.targets[0] if isinstance(st, ast.Assign) else st.target
            if (isinstance(st, ast.Assign) and len(st.targets) != 1) or not isinstance(tgt, ast.Name) or st.value is None:
                raise Unsupported(f"assignment {ast.unparse(st)[:60]}")
            return f"let {ident(tgt.id)} := {self.E(st.value)}\n{ind}{self.S(rest, ind, tail, ret)}"
        if isinstance(st, ast.If):
            if self.joins and rest and self.falls_through(st.body) and self.falls_through(st.orelse):
                # both branches can reach the statements after the `if`: bind those once
                self.njoin += 1
                name = f"join{self.njoin}"
                if name in self.locals or name in self.known:
                    raise Unsupported(f"the source uses the name {name}")
                loads: list[str] = []
                for r_ in rest:
                    _reads(r_, self.locals, loads)
                params = [v for v in self._stores([st]) if v in loads]
                k = self.S(rest, ind + "  ", tail, ret)
                if params:
                    head = f"let {name} := fun " + " ".join(f"({ident(v)} : PyVal)" for v in params) + f" =>\n{ind}  {k}\n{ind}"
                    call = "(" + " ".join([name] + [ident(v) for v in params]) + ")"
                else:
                    head = f"let {name} :=\n{ind}  {k}\n{ind}"
                    call = name
                a = self.S(st.body, ind + "  ", call, ret)
                b = self.S(st.orelse, ind + "  ", call, ret)
                return f"{head}if ({self.E(st.test)}).truthy then\n{ind}  {a}\n{ind}else\n{ind}  {b}"
            a = self.S(st.body + rest, ind + "  ", tail, ret)
            b = self.S(st.orelse + rest, ind + "  ", tail, ret)
            return f"if ({self.E(st.test)}).truthy then\n{ind}  {a}\n{ind}else\n{ind}  {b}"
        if isinstance(st, ast.For):
            loop = self.items_loop(st)
            if loop is not None:
                k, v, d = loop
                body = self.S(st.body, ind + "    ", "none", lambda x: f"(some {x})")
                after = self.S(rest, ind + "    ", tail, ret)
                return (f"Rbacx.Py.forItemsRet {self.E(d)}\n{ind}  (fun ({ident(k)} : PyVal) ({ident(v)} : PyVal) =>\n{ind}    {body})\n"
                        f"{ind}  (\n{ind}    {after})")
            if st.orelse or not isinstance(st.target, ast.Name):
                raise Unsupported("for/else or tuple target")
            acc = self.loop_acc(st)
            body = self.appends(st.body, acc)
            return (f"let {ident(acc)} := Rbacx.Py.concat {ident(acc)} (Rbacx.Py.collect {self.E(st.iter)} fun {ident(st.target.id)} => {body})\n"
                    f"{ind}{self.S(rest, ind, tail, ret)}")
        raise Unsupported(f"statement {ast.unparse(st)[:60]}")

    def needs_oracle(self, fn: ast.FunctionDef) -> bool:
        for n in ast.walk(fn):
            if isinstance(n, ast.Call) and isinstance(n.func, ast.Name) and (n.func.id == "str" or n.func.id in self.uses_oracle):
                return True
        return False

    def function(self, fn: ast.FunctionDef) -> str:
        if fn.args.vararg or fn.args.kwarg or fn.args.defaults or fn.args.posonlyargs:
            raise Unsupported(f"signature of {fn.name}")
        # keyword-only parameters become positional ones in signature order (their defaults are not used: callers pass all of them)
        allargs = list(fn.args.args) + list(fn.args.kwonlyargs)
        self.locals = {a.arg for a in allargs} | {n.id for n in ast.walk(fn) if isinstance(n, ast.Name) and isinstance(n.ctx, ast.Store)}
        self.cur_fn = fn
        self.cur_oracle = self.oracle and self.needs_oracle(fn)
        self.njoin = 0
        notes = []
        if self.cur_oracle:
            if "o" in self.locals or ident(fn.name) == "o":
                raise Unsupported("the source uses the name o")
            self.uses_oracle.add(fn.name)
            notes.append("`o`: the oracle that supplies CPython's `str()` of floats, containers and datetimes")
        for a, d in zip(fn.args.kwonlyargs, fn.args.kw_defaults):
            if d is not None:
                if not isinstance(d, ast.Constant):
                    raise Unsupported(f"default of keyword-only parameter {a.arg}")
                notes.append(f"keyword-only parameter `{a.arg}` (default `{d.value!r}`) is an ordinary parameter here: callers pass it")
        body = fn.body
        while body and isinstance(body[0], ast.Expr) and isinstance(body[0].value, ast.Constant) and isinstance(body[0].value.value, str):
            body = body[1:]
        if len(body) == 1 and isinstance(body[0], ast.Try):
            t = body[0]
            if t.orelse or t.finalbody or len(t.handlers) != 1 or not (isinstance(t.handlers[0].type, ast.Name) and t.handlers[0].type.id == "Exception"):
                raise Unsupported("try statement shape")
            handler = "; ".join(ast.unparse(h) for h in t.handlers[0].body)
            notes.append(f"the body is `try: … except Exception: {handler}`: translated is the try body; on an argument for which it raises "
                         f"CPython runs the handler instead (for `x.get(…)`: when `x` is not a dict)")
            body = t.body
        params = " ".join((["(o : Oracle)"] if self.cur_oracle else []) + [f"({ident(a.arg)} : PyVal)" for a in allargs])
        doc = ("/-- " + "; ".join(notes).replace("-/", "- /") + " -/\n") if notes else ""
        return f"{doc}def {ident(fn.name)} {params} : PyVal :=\n  {self.S(body, '  ')}\n"

    # ------------------------------------------------------------------ fragments (see the module docstring)
    @staticmethod
    def _escaping(e: ast.expr) -> set[str]:
        """names used as bare values in `e` (anything but the receiver of a `.get(...)` call): binding or storing such a value aliases it"""
        out: set[str] = set()

        def walk(n: ast.AST) -> None:
            if isinstance(n, ast.Call) and isinstance(n.func, ast.Attribute) and n.func.attr == "get" and isinstance(n.func.value, ast.Name):
                for a in n.args:
                    walk(a)
                return
            if isinstance(n, ast.Name):
                out.add(n.id)
            for c in ast.iter_child_nodes(n):
                walk(c)
        walk(e)
        return out

    @staticmethod
    def _builds_dict(e: ast.expr) -> bool:
        return isinstance(e, ast.Dict) or (isinstance(e, ast.Call) and isinstance(e.func, ast.Name) and e.func.id == "dict"
                                           and len(e.args) <= 1 and not e.keywords)

    def try_shape(self, st: ast.Try) -> tuple[str, str, ast.expr, ast.expr]:
        """(X, K, E, C) of `try: X = E except TypeError: X = C` in the one accepted shape (module docstring); raises otherwise"""
        ok = (len(st.body) == 1 and not st.orelse and not st.finalbody and len(st.handlers) == 1
              and isinstance(st.handlers[0].type, ast.Name) and st.handlers[0].type.id == "TypeError" and st.handlers[0].name is None
              and len(st.handlers[0].body) == 1)
        a, h = (st.body[0], st.handlers[0].body[0]) if ok else (None, None)
        ok = ok and all(isinstance(x, ast.Assign) and len(x.targets) == 1 and isinstance(x.targets[0], ast.Name) for x in (a, h)) \
            and a.targets[0].id == h.targets[0].id and isinstance(h.value, ast.Constant)
        if not ok:
            raise Unsupported("try statement: only `try: X = <E> except TypeError: X = <constant>` is translated")
        gets: list[ast.Call] = []

        def walk(n: ast.expr) -> None:
            if isinstance(n, (ast.Name, ast.Constant)):
                return
            if isinstance(n, ast.UnaryOp) and isinstance(n.op, ast.Not):
                return walk(n.operand)
            if isinstance(n, ast.Call) and isinstance(n.func, ast.Name) and n.func.id == "bool" and "bool" not in self.locals \
                    and len(n.args) == 1 and not n.keywords:
                return walk(n.args[0])
            if isinstance(n, ast.Call) and isinstance(n.func, ast.Attribute) and n.func.attr == "get" and isinstance(n.func.value, ast.Name) \
                    and len(n.args) == 1 and isinstance(n.args[0], ast.Name) and not n.keywords:
                gets.append(n)
                return
            raise Unsupported(f"try body: {ast.unparse(n)} (only bool(…), not, names, constants and one D.get(K) may occur)")
        walk(a.value)
        if len(gets) != 1:
            raise Unsupported("try body: exactly one call D.get(K) is needed (it is what can raise the TypeError)")
        return a.targets[0].id, gets[0].args[0].id, a.value, h.value

    def SF(self, stmts: list[ast.stmt], ind: str, fresh: frozenset, outs: list[str] | None, flow: str | None = None) -> str:
        """statements of a fragment; `outs` is None for a fragment that returns, else the carried variables of a loop-body fragment;
        `fresh` = the variables currently bound to a dict built in the fragment and not aliased since;
        `flow`: None (the result is a PyVal), `"loop"` / `"seq"` = a FLOW fragment (the result is a `Rbacx.Py.Flow`) that is a loop body
        (outputs + broke) / a straight statement sequence (outputs)"""
        def leave(broke: bool) -> str:
            vals = [ident(v) for v in outs] + ([f"(PyVal.bool {'true' if broke else 'false'})"] if flow != "seq" else [])
            if flow:
                return "(Rbacx.Py.Flow.next [" + ", ".join(vals) + "])"
            return "(PyVal.list [" + ", ".join(vals) + "])"
        if not stmts:
            return "PyVal.none" if outs is None else leave(False)
        st, rest = stmts[0], stmts[1:]
        if isinstance(st, ast.Pass) or (isinstance(st, ast.Expr) and isinstance(st.value, ast.Constant) and isinstance(st.value.value, str)):
            return self.SF(rest, ind, fresh, outs, flow)
        if isinstance(st, ast.Return):
            v = self.E(st.value) if st.value is not None else "PyVal.none"
            if flow:
                return f"(Rbacx.Py.Flow.ret {v})"
            if outs is not None:
                raise Unsupported("return inside a loop-body fragment")
            return v
        if isinstance(st, ast.Break):
            if outs is None or flow == "seq":
                raise Unsupported("break outside a loop-body fragment")
            return leave(True)
        if isinstance(st, ast.Continue):
            if outs is None or flow == "seq":
                raise Unsupported("continue outside a loop-body fragment")
            return leave(False)
        if isinstance(st, ast.Try):
            x, k, e, c = self.try_shape(st)
            note = (f"`try: {x} = {ast.unparse(e)} except TypeError: {x} = {ast.unparse(c)}` is `if hashable {k} then … else …`: "
                    f"the `.get` raises TypeError exactly for an unhashable key (list, dict)")
            if note not in self.notes:
                self.notes.append(note)
            return (f"let {ident(x)} := if Rbacx.Py.hashable {ident(k)} then {self.E(e)} else {self.E(c)}\n"
                    f"{ind}{self.SF(rest, ind, fresh - self._escaping(e) - {x}, outs, flow)}")
        if isinstance(st, (ast.Assign, ast.AnnAssign)):
            tgt = st.targets[0] if isinstance(st, ast.Assign) else st.target
            if (isinstance(st, ast.Assign) and len(st.targets) != 1) or st.value is None:
                raise Unsupported(f"assignment {ast.unparse(st)[:60]}")
            esc = self._escaping(st.value)
            if isinstance(tgt, ast.Name):
                fresh2 = fresh - esc - {tgt.id}
                if self._builds_dict(st.value):
                    fresh2 = fresh2 | {tgt.id}
                return f"let {ident(tgt.id)} := {self.E(st.value)}\n{ind}{self.SF(rest, ind, fresh2, outs, flow)}"
            if isinstance(tgt, ast.Subscript) and isinstance(tgt.value, ast.Name) and isinstance(tgt.slice, ast.Constant) \
                    and isinstance(tgt.slice.value, str) and isinstance(st, ast.Assign):
                x = tgt.value.id
                if x not in fresh or x in esc:
                    raise Unsupported(f"item assignment to {x}, which is not (or no longer provably) an unaliased dict built in this fragment")
                return (f"let {ident(x)} := Rbacx.Py.setItem {ident(x)} {lean_str(tgt.slice.value)} {self.E(st.value)}\n"
                        f"{ind}{self.SF(rest, ind, fresh - esc, outs, flow)}")
            raise Unsupported(f"assignment {ast.unparse(st)[:60]}")
        if isinstance(st, ast.If):
            a = self.SF(st.body + rest, ind + "  ", fresh, outs, flow)
            b = self.SF(st.orelse + rest, ind + "  ", fresh, outs, flow)
            return f"if ({self.E(st.test)}).truthy then\n{ind}  {a}\n{ind}else\n{ind}  {b}"
        raise Unsupported(f"statement {ast.unparse(st)[:60]}")


# ---------------------------------------------------------------------- fragment designation and variable analysis

def _reads(node: ast.AST, local: set[str], out: list[str], bound: frozenset = frozenset()) -> None:
    """local variables loaded in `node`, in field order, comprehension variables excluded"""
    if isinstance(node, ast.Name):
        if isinstance(node.ctx, ast.Load) and node.id in local and node.id not in bound:
            out.append(node.id)
        return
    if isinstance(node, (ast.ListComp, ast.SetComp, ast.GeneratorExp, ast.DictComp)):
        b = set(bound)
        for g in node.generators:
            _reads(g.iter, local, out, frozenset(b))
            b |= {n.id for n in ast.walk(g.target) if isinstance(n, ast.Name)}
            for c in g.ifs:
                _reads(c, local, out, frozenset(b))
        for part in ([node.key, node.value] if isinstance(node, ast.DictComp) else [node.elt]):
            _reads(part, local, out, frozenset(b))
        return
    for c in ast.iter_child_nodes(node):
        _reads(c, local, out, bound)


def _flow(stmts: list[ast.stmt], local: set[str], defined: set[str], free: list[str], assigned: list[str]) -> set[str] | None:
    """definite-assignment analysis of a loop-free statement list: appends to `free` the variables that MAY be read before the
    fragment has assigned them and to `assigned` the variables it assigns; returns the variables definitely assigned when control
    runs off the end, or None when it never does (every path ends in return/break/continue)"""
    def read(e: ast.AST | None) -> None:
        if e is None:
            return
        got: list[str] = []
        _reads(e, local, got)
        for v in got:
            if v not in defined and v not in free:
                free.append(v)
    defined = set(defined)
    for st in stmts:
        if isinstance(st, ast.Pass) or (isinstance(st, ast.Expr) and isinstance(st.value, ast.Constant)):
            continue
        if isinstance(st, (ast.Assign, ast.AnnAssign)):
            tgt = st.targets[0] if isinstance(st, ast.Assign) else st.target
            if (isinstance(st, ast.Assign) and len(st.targets) != 1) or st.value is None:
                raise Unsupported(f"assignment {ast.unparse(st)[:60]}")
            read(st.value)
            if isinstance(tgt, ast.Name):
                defined.add(tgt.id)
                if tgt.id not in assigned:
                    assigned.append(tgt.id)
            elif isinstance(tgt, ast.Subscript) and isinstance(tgt.value, ast.Name):
                read(tgt.value)
                read(tgt.slice)
            else:
                raise Unsupported(f"assignment {ast.unparse(st)[:60]}")
        elif isinstance(st, ast.If):
            read(st.test)
            d1 = _flow(st.body, local, defined, free, assigned)
            d2 = _flow(st.orelse, local, defined, free, assigned)
            if d1 is None and d2 is None:
                return None
            defined = d2 if d1 is None else d1 if d2 is None else (d1 & d2)
        elif isinstance(st, ast.Return):
            read(st.value)
            return None
        elif isinstance(st, (ast.Break, ast.Continue)):
            return None
        elif isinstance(st, ast.Try) and len(st.body) == 1 and isinstance(st.body[0], ast.Assign) and len(st.body[0].targets) == 1 \
                and isinstance(st.body[0].targets[0], ast.Name):
            # `try: X = E except TypeError: X = C` (the shape is checked by Translator.try_shape): reads E, assigns X on both paths
            read(st.body[0].value)
            x = st.body[0].targets[0].id
            defined.add(x)
            if x not in assigned:
                assigned.append(x)
        else:
            raise Unsupported(f"statement {ast.unparse(st)[:60]}")
    return defined


def _function(tree: ast.Module, name: str) -> ast.FunctionDef:
    body = tree.body
    if "." in name:
        cls, name = name.split(".", 1)
        hits = [n for n in tree.body if isinstance(n, ast.ClassDef) and n.name == cls]
        if len(hits) != 1:
            raise Unsupported(f"class {cls} not found")
        body = hits[0].body
    for n in body:
        if isinstance(n, ast.FunctionDef) and n.name == name:
            return n
    raise Unsupported(f"function {name} not found")


_NOT_IN_FRAGMENTS = (ast.For, ast.While, ast.With, ast.FunctionDef, ast.AsyncFunctionDef, ast.ClassDef, ast.Lambda, ast.Global,
                     ast.Nonlocal, ast.NamedExpr, ast.Delete, ast.AugAssign, ast.Raise, ast.Await, ast.Yield, ast.YieldFrom, ast.Import,
                     ast.ImportFrom, ast.Assert, ast.Match)


def fragment(tree: ast.Module, fn_name: str, kind: str, start: str | None = None) -> dict:
    """{"stmts", "inputs", "outputs" (None for a fragment that returns), "locals", "temporaries", "flow" (None | "loop" | "seq"),
    "excluded" (before_loop: the statements between the range and the loop)} of the designated fragment"""
    fn = _function(tree, fn_name)
    loops = [i for i, st in enumerate(fn.body) if isinstance(st, ast.For)]
    if len(loops) != 1:
        raise Unsupported(f"{fn_name}: {len(loops)} top-level for statements (a fragment designator needs exactly one)")
    loop = fn.body[loops[0]]
    if loop.orelse:
        raise Unsupported(f"{fn_name}: for/else")
    args = fn.args
    if args.vararg or args.kwarg:
        raise Unsupported(f"signature of {fn_name}")
    params = {a.arg for a in args.posonlyargs + args.args + args.kwonlyargs}
    local = params | {n.id for n in ast.walk(fn) if isinstance(n, ast.Name) and isinstance(n.ctx, ast.Store)}
    excluded: list[ast.stmt] = []
    if kind == "after_loop":
        stmts = fn.body[loops[0] + 1:]
    elif kind == "loop_body_from":
        hits = [i for i, st in enumerate(loop.body) if start and ast.unparse(st).startswith(start)]
        if len(hits) != 1:
            raise Unsupported(f"{fn_name}: {len(hits)} statements of the loop body start with {start!r} (need exactly one)")
        stmts = loop.body[hits[0]:]
    elif kind == "before_loop":
        pre = fn.body[:loops[0]]
        if start:
            hits = [i for i, st in enumerate(pre) if ast.unparse(st).startswith(start)]
            if len(hits) != 1:
                raise Unsupported(f"{fn_name}: {len(hits)} statements before the loop start with {start!r} (need exactly one)")
            pre, excluded = pre[:hits[0]], pre[hits[0]:]
        stmts = pre
    else:
        raise Unsupported(f"fragment kind {kind}")
    if not stmts:
        raise Unsupported(f"{fn_name}: empty fragment")
    for st in stmts:
        for n in ast.walk(st):
            if isinstance(n, _NOT_IN_FRAGMENTS):
                raise Unsupported(f"{fn_name}: {type(n).__name__} inside a fragment")
    free: list[str] = []
    assigned: list[str] = []
    end = _flow(stmts, local, set(), free, assigned)
    returns = any(isinstance(n, ast.Return) for st in stmts for n in ast.walk(st))
    if kind == "after_loop":
        if end is not None:
            raise Unsupported(f"{fn_name}: the statements after the loop can run off the end without a return")
        return {"stmts": stmts, "inputs": free, "outputs": None, "locals": local, "temporaries": [v for v in assigned if v not in free],
                "flow": None, "excluded": []}
    inside = {id(n) for st in stmts for n in ast.walk(st)}
    elsewhere = params | {n.id for n in ast.walk(fn) if isinstance(n, ast.Name) and id(n) not in inside}
    temps = [v for v in assigned if v not in free and v not in elsewhere]
    carried = [v for v in assigned if v not in temps]
    if kind == "before_loop":
        if any(v in assigned for v in free):
            raise Unsupported(f"{fn_name}: the statements before the loop read {[v for v in free if v in assigned]} before assigning them")
        clash = [v for v in Translator._stores(excluded) if v in assigned]
        if clash:
            raise Unsupported(f"{fn_name}: the statements left out between the range and the loop assign {clash}, which the range assigns too")
        if end is not None and any(v not in end for v in carried):
            raise Unsupported(f"{fn_name}: an output variable of the statements before the loop is not assigned on every path")
        return {"stmts": stmts, "inputs": free, "outputs": carried, "locals": local, "temporaries": temps, "flow": "seq",
                "excluded": excluded}
    return {"stmts": stmts, "inputs": [v for v in free if v not in assigned] + carried, "outputs": carried, "locals": local,
            "temporaries": temps, "flow": "loop" if returns else None, "excluded": []}


def translate_fragment(source: str, fn_name: str, kind: str, start: str | None, lean_name: str, known: set[str],
                       oracle: bool = False, externals: list[str] | tuple = ()) -> dict:
    """{"lean": definition text, "inputs": [...], "outputs": [...] | None, "flow": bool, "oracle": bool, "externals": [[name, arity]…]};
    `known` = the translated functions the fragment may call; `oracle`, `externals`: see the module docstring"""
    tree = ast.parse(source)
    fr = fragment(tree, fn_name, kind, start)
    tr = Translator(set(known), _module_consts(tree), oracle=oracle, externals=externals)
    tr.locals = set(fr["locals"])
    if oracle:
        tr.cur_oracle = any((isinstance(n, ast.Call) and isinstance(n.func, ast.Name) and n.func.id == "str") or isinstance(n, ast.JoinedStr)
                            for st in fr["stmts"] for n in ast.walk(st))
    taken = {ident(k) for k in known} | {ident(lean_name)} | ({"o"} if tr.cur_oracle else set()) | {ident(x) for x in externals}
    names = fr["inputs"] + fr["temporaries"]
    if any(ident(v) in taken for v in names) or len({ident(v) for v in names}) != len(names):
        raise Unsupported(f"{fn_name}: variable names clash after renaming: {names}")
    body = tr.SF(fr["stmts"], "  ", frozenset(), fr["outputs"], fr["flow"])
    exts = [x for x in externals if x in tr.ext_arity]
    params = " ".join((["(o : Oracle)"] if tr.cur_oracle else [])
                      + [f"({ident(x)} : {' → '.join(['PyVal'] * (tr.ext_arity[x] + 1))})" for x in exts]
                      + [f"({ident(v)} : PyVal)" for v in fr["inputs"]])
    what = (f"statements after the for loop of `{fn_name}`" if kind == "after_loop"
            else f"statements of `{fn_name}` before its for loop, up to `{start}…`" if kind == "before_loop"
            else f"body of the for loop of `{fn_name}` from the statement starting with `{start}`")
    vals = (fr["outputs"] or []) + (["broke"] if kind == "loop_body_from" else [])
    res = ("the returned value" if fr["outputs"] is None
           else f".ret v = `return v`, .next [{', '.join(vals)}] = left normally" if fr["flow"] else "(" + ", ".join(vals) + ")")
    notes = []
    if tr.cur_oracle:
        notes.append("`o`: the oracle that supplies CPython's `str()` of floats, containers and datetimes")
    for x in exts:
        notes.append(f"`{ident(x)}`: the module-level function `{x}`, NOT translated — a parameter (the obligation instantiates it with the "
                     f"model's counterpart, the differential run with CPython's results)")
    if fr["excluded"]:
        notes.append("left out, hand-modelled: " + "; ".join(f"`{ast.unparse(x)}`" for x in fr["excluded"]))
    notes += tr.notes
    doc = (f"/-- fragment: {what}; inputs: {', '.join(fr['inputs'])}; result: {res}" + "".join("; " + n for n in notes)).replace("-/", "- /") + " -/\n"
    ty = "Rbacx.Py.Flow" if fr["flow"] else "PyVal"
    return {"lean": f"{doc}def {ident(lean_name)} {params} : {ty} :=\n  {body}\n", "inputs": fr["inputs"], "outputs": fr["outputs"],
            "flow": bool(fr["flow"]), "oracle": tr.cur_oracle, "externals": [[x, tr.ext_arity[x]] for x in exts]}


class _TagReturns(ast.NodeTransformer):
    """`return X` → `return ("ret", X)` (fragments contain no nested functions)"""

    def visit_Return(self, node: ast.Return) -> ast.Return:
        val = node.value if node.value is not None else ast.Constant(None)
        return ast.Return(ast.Tuple([ast.Constant("ret"), val], ast.Load()))


def fragment_as_python(source: str, fn_name: str, kind: str, start: str | None, globs: dict):
    """the SAME fragment as a real Python function built from the source text: `f(*inputs)` returns the fragment's returned value, or
    the tuple `(carried…, broke)`; for a FLOW fragment `("ret", v)` when the range executed `return v` and `("next", (outputs…))` when
    it was left normally (loop bodies: outputs = carried…, broke).  Free functions (`_is_applicable`, `_finite_number`, …) resolve in
    `globs` (the module's globals).  Returns (function, inputs, outputs)."""
    import copy
    tree = ast.parse(source)
    fr = fragment(tree, fn_name, kind, start)
    params = ", ".join(fr["inputs"])
    stmts = list(fr["stmts"])
    if fr["flow"]:
        stmts = [_TagReturns().visit(copy.deepcopy(st)) for st in stmts]
    if fr["outputs"] is None:
        mod = ast.parse(f"def _fragment({params}):\n    pass\n")
        mod.body[0].body = stmts
    elif fr["flow"] == "seq":
        outs = "".join(v + ", " for v in fr["outputs"])
        mod = ast.parse(f"def _fragment({params}):\n    pass\n    return ('next', ({outs}))\n")
        mod.body[0].body[0:1] = stmts
    else:
        # `continue` and running off the end reach the `else` of the one-shot loop, `break` skips it
        outs = "".join(v + ", " for v in fr["outputs"])
        wrap = (lambda t: f"('next', {t})") if fr["flow"] else (lambda t: t)
        mod = ast.parse(f"def _fragment({params}):\n    for _once in (0,):\n        pass\n    else:\n        return {wrap(f'({outs}False,)')}\n"
                        f"    return {wrap(f'({outs}True,)')}\n")
        mod.body[0].body[0].body = stmts
    ast.fix_missing_locations(mod)
    ns = dict(globs)
    exec(compile(mod, f"<fragment of {fn_name}>", "exec"), ns)  # noqa: S102
    return ns["_fragment"], fr["inputs"], fr["outputs"]


def _module_consts(tree: ast.Module) -> dict:
    consts = {}
    for n in tree.body:
        if isinstance(n, ast.Assign) and len(n.targets) == 1 and isinstance(n.targets[0], ast.Name):
            v = n.value
            if isinstance(v, ast.Constant) or (isinstance(v, (ast.Tuple, ast.List)) and all(isinstance(x, ast.Constant) for x in v.elts)):
                consts[n.targets[0].id] = v
    return consts


def translate(source: str, names: list[str], joins: bool = False, oracle: bool = False) -> dict[str, str]:
    """{python function name: Lean definition text} in the order given (callees first); `joins`, `oracle`: see the module docstring"""
    tree = ast.parse(source)
    fns = {n.name: n for n in tree.body if isinstance(n, ast.FunctionDef)}
    tr = Translator(set(names), _module_consts(tree), joins=joins, oracle=oracle)
    out = {}
    for name in names:
        if name not in fns:
            raise Unsupported(f"function {name} not found")
        out[name] = tr.function(fns[name])
    return out


if __name__ == "__main__":
    import sys
    src = open(sys.argv[1], encoding="utf-8").read()
    for k, v in translate(src, sys.argv[2:]).items():
        print(v)
