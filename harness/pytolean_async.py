"""Statement ranges of an `async def` METHOD that talks to collaborators → Lean (on top of harness/pytolean.py, which is not changed).

Made for `Guard._evaluate_core_async` (core/engine.py): the method as a whole is effectful (awaits, locks, context variables, sinks), but
the statements that turn the raw decision into the returned `Decision`, that build the env, that run the cache protocol and that build
the audit payload are pure once the collaborators' ANSWERS are given.  A range is designated by `(Class.method, start, last)`: the
top-level statements of the method body from the ONE statement whose `ast.unparse` text starts with `start` up to and including the ONE
that starts with `last`; with `last = None`: the ONE assignment statement that starts with `start`, wherever it is nested (what the
statement computes from the variables it reads — when it is reached is not part of such a range).

Inputs of a range (Lean parameters, in this order): `o` (the `str()` oracle, when `str(...)` occurs), the EXTERNAL collaborator calls
the range makes (order of first call), then the variables that may be read before the range assigns them, in order of first read — a
read of `self.<attr>` counts as a variable `self_<attr>`.  Outputs: the variables the range assigns that the method mentions outside
the range, in order of first assignment; the Lean definition returns the value of the one output, or the tuple of several.

Readings added here (all syntax-directed; anything outside the stated shape raises `Unsupported`):

* AWAITED COLLABORATOR CALL — `await maybe_await(C(args…))` or `await C(args…)` where the text of `C` is designated in `externals`
  (e.g. `self.obligations.check`): NOT translated.  `C` becomes a function parameter `PyVal → … → Option PyVal`; its result is the
  OUTCOME of the awaited call: `some v` = it returned `v`, `none` = it raised something `except Exception` catches.  (`maybe_await`
  awaits an awaitable and hands anything else on: sync and async collaborators have the same outcomes.)  A plain call `C(args…)`
  of a designated external is read the same way (a sync collaborator: `cache.get(key)`).
* `try: T = <external call>; <rest> except Exception: <handler>` (no else/finally) — a case split on that outcome, accepted only
  when the external call is the FIRST statement of the try body and is the only thing in it that can raise: `<rest>` may consist of
  assignments of names / constants / `bool(name)` / `not` / `is None` tests to names, and `if`s over such tests — nothing that raises on
  JSON-shaped values.  `T` is a name, or a pair `a, b`: the unpacking belongs to the raising point (`Rbacx.Py.awaitUnpack2`): a
  returned value that does not unpack into exactly two items raises TypeError/ValueError before either name is bound, and lands in
  the same handler.  Outcome `some …`: `T` is bound, `<rest>` runs; outcome `none`: nothing of the try body has taken effect, the
  handler runs.  A name bound by `T` may not be read where it could be unbound (handler, after the try).
* `logger.<method>(…)` as a statement (`logger` a module-level name): no effect on any value, skipped; said in the doc comment.
* `self.<attr>` read as a value → the input `self_<attr>` (the range may not assign attributes).
* records — a method parameter annotated with a frozen dataclass (`records`: name → fields) and a local bound once to a dataclass
  construction: `x.f` → `Rbacx.Py.attr x "f"` (the field must be declared), `getattr(x, "f", d)` → `Rbacx.Py.getattrD x "f" d`
  (`d` also when `x` is None), `C(f=…, …)` with every declared field given → `Rbacx.Py.record […]` in declaration order.
* `with self.<lock>:` is transparent (mutual exclusion is not what these ranges are about); a bare annotation `x: T` is skipped.

`range_as_python` builds the SAME statements as a real `async def` from the source text and drives it with CPython: the designated
collaborator calls are answered by stub collaborators that return the outcome's value or raise (sync, or `async def` so that
`maybe_await` really awaits), everything else — `maybe_await`, `Decision`, the try/except, the unpacking — is CPython's own."""
from __future__ import annotations

import ast
import copy

import pytolean
from pytolean import Unsupported, ident, lean_str

_FORBIDDEN = (ast.For, ast.While, ast.FunctionDef, ast.AsyncFunctionDef, ast.ClassDef, ast.Lambda, ast.Global, ast.Nonlocal, ast.NamedExpr,
              ast.Delete, ast.AugAssign, ast.Raise, ast.Yield, ast.YieldFrom, ast.Import, ast.ImportFrom, ast.Assert, ast.Match, ast.AsyncFor,
              ast.AsyncWith)


def _is_self_attr(n: ast.AST) -> bool:
    return isinstance(n, ast.Attribute) and isinstance(n.value, ast.Name) and n.value.id == "self"


def method(tree: ast.Module, designator: str):
    cls, name = designator.split(".", 1)
    hits = [n for n in tree.body if isinstance(n, ast.ClassDef) and n.name == cls]
    if len(hits) != 1:
        raise Unsupported(f"class {cls} not found")
    fns = [n for n in hits[0].body if isinstance(n, (ast.FunctionDef, ast.AsyncFunctionDef)) and n.name == name]
    if len(fns) != 1:
        raise Unsupported(f"method {designator} not found")
    fn = fns[0]
    if fn.args.vararg or fn.args.kwarg or not fn.args.args or fn.args.args[0].arg != "self":
        raise Unsupported(f"signature of {designator}")
    return fn


def statement_range(fn, start: str, last: str | None) -> list[ast.stmt]:
    if last is None:
        # ONE statement, wherever it is nested in the method (e.g. `payload = {…}` inside `if …: try: … if …:`): what the statement
        # computes from the variables it reads; when it is reached is not part of the range
        hits = [n for n in ast.walk(fn) if isinstance(n, ast.stmt) and n is not fn and ast.unparse(n).startswith(start)
                and isinstance(n, (ast.Assign, ast.AnnAssign))]
        if len(hits) != 1:
            raise Unsupported(f"{fn.name}: {len(hits)} assignment statements start with {start!r} (need exactly one)")
        return hits
    a = [i for i, st in enumerate(fn.body) if ast.unparse(st).startswith(start)]
    b = [i for i, st in enumerate(fn.body) if ast.unparse(st).startswith(last)]
    if len(a) != 1 or len(b) != 1 or a[0] > b[0]:
        raise Unsupported(f"{fn.name}: {len(a)} top-level statements start with {start!r}, {len(b)} with {last!r} (need exactly one each, in this order)")
    return fn.body[a[0]:b[0] + 1]


def dataclass_fields(source: str) -> dict[str, list[str]]:
    """{class: fields in declaration order} of the `@dataclass(frozen=True…)` classes of a module (frozen: an instance is the record of
    its fields for good)"""
    out = {}
    for n in ast.parse(source).body:
        if not isinstance(n, ast.ClassDef):
            continue
        frozen = any(isinstance(d, ast.Call) and getattr(d.func, "id", getattr(d.func, "attr", None)) == "dataclass"
                     and any(k.arg == "frozen" and isinstance(k.value, ast.Constant) and k.value.value is True for k in d.keywords)
                     for d in n.decorator_list)
        if frozen:
            out[n.name] = [st.target.id for st in n.body if isinstance(st, ast.AnnAssign) and isinstance(st.target, ast.Name)]
    return out


def record_params(fn, classes: dict[str, list[str]]) -> dict[str, list[str]]:
    """the parameters of the method annotated `C` or `C | None` with `C` one of the frozen dataclasses → their fields"""
    out = {}
    for a in fn.args.args[1:] + fn.args.kwonlyargs:
        t = a.annotation
        if isinstance(t, ast.BinOp) and isinstance(t.op, ast.BitOr) and isinstance(t.right, ast.Constant) and t.right.value is None:
            t = t.left
        if isinstance(t, ast.Name) and t.id in classes:
            out[a.arg] = classes[t.id]
    return out


class Cfg:
    def __init__(self, externals: dict[str, str], records: dict[str, list[str]] | None = None, dataclasses: dict[str, list[str]] | None = None,
                 silent: tuple = ("logger",)):
        self.externals = dict(externals)          # text of the callee → parameter name
        self.records = dict(records or {})        # variable → declared fields
        self.dataclasses = dict(dataclasses or {})  # constructor name → declared fields
        self.silent = tuple(silent)


# ---------------------------------------------------------------------- recognisers shared by the analysis and the translation

def external_call(e: ast.AST, cfg: Cfg) -> tuple[str, ast.Call] | None:
    """(callee text, the call) when `e` is `await maybe_await(C(…))`, `await C(…)` or `C(…)` with `C` a designated external"""
    if isinstance(e, ast.Await):
        e = e.value
        if isinstance(e, ast.Call) and isinstance(e.func, ast.Name) and e.func.id == "maybe_await" and len(e.args) == 1 and not e.keywords:
            e = e.args[0]
    if isinstance(e, ast.Call) and ast.unparse(e.func) in cfg.externals:
        if e.keywords or any(isinstance(a, ast.Starred) for a in e.args):
            raise Unsupported(f"external call with keyword/starred arguments: {ast.unparse(e)}")
        return ast.unparse(e.func), e
    return None


def is_silent(st: ast.stmt, cfg: Cfg, local: set[str]) -> bool:
    return (isinstance(st, ast.Expr) and isinstance(st.value, ast.Call) and isinstance(st.value.func, ast.Attribute)
            and isinstance(st.value.func.value, ast.Name) and st.value.func.value.id in cfg.silent and st.value.func.value.id not in local)


def _simple(e: ast.expr) -> bool:
    """an expression that cannot raise on JSON-shaped values: names, constants, `bool(x)`, `not x`, `x is [not] None`"""
    if isinstance(e, (ast.Name, ast.Constant)):
        return True
    if isinstance(e, ast.UnaryOp) and isinstance(e.op, ast.Not):
        return _simple(e.operand)
    if isinstance(e, ast.Call) and isinstance(e.func, ast.Name) and e.func.id == "bool" and len(e.args) == 1 and not e.keywords:
        return _simple(e.args[0])
    if isinstance(e, ast.Compare) and len(e.ops) == 1 and isinstance(e.ops[0], (ast.Is, ast.IsNot)) and isinstance(e.comparators[0], ast.Constant) \
            and e.comparators[0].value is None:
        return _simple(e.left)
    return False


def nonraising(stmts: list[ast.stmt], cfg: Cfg, local: set[str]) -> bool:
    for st in stmts:
        if isinstance(st, ast.Pass) or is_silent(st, cfg, local):
            continue
        if isinstance(st, ast.Assign) and len(st.targets) == 1 and isinstance(st.targets[0], ast.Name) and _simple(st.value):
            continue
        if isinstance(st, ast.If) and _simple(st.test) and nonraising(st.body, cfg, local) and nonraising(st.orelse, cfg, local):
            continue
        return False
    return True


def ext_try(st: ast.Try, cfg: Cfg, local: set[str]) -> tuple[list[str], str, ast.Call, list[ast.stmt], list[ast.stmt]] | None:
    """(targets, callee text, call, rest of the try body, handler body) of the accepted shape; None when the first statement is no external
    call; `Unsupported` when it is one but the statement is outside the shape"""
    first = st.body[0] if st.body else None
    if not (isinstance(first, ast.Assign) and external_call(first.value, cfg)):
        return None
    callee, call = external_call(first.value, cfg)
    if st.orelse or st.finalbody or len(st.handlers) != 1 or st.handlers[0].name is not None \
            or not (isinstance(st.handlers[0].type, ast.Name) and st.handlers[0].type.id == "Exception"):
        raise Unsupported("try around an external call: only `try: … except Exception: …` without else/finally/`as`")
    tgt = first.targets[0] if len(first.targets) == 1 else None
    if isinstance(tgt, ast.Name):
        targets = [tgt.id]
    elif isinstance(tgt, ast.Tuple) and len(tgt.elts) == 2 and all(isinstance(x, ast.Name) for x in tgt.elts) and tgt.elts[0].id != tgt.elts[1].id:
        targets = [x.id for x in tgt.elts]
    else:
        raise Unsupported(f"target of the external call: {ast.unparse(first)[:60]} (a name, or a pair of names)")
    if not nonraising(st.body[1:], cfg, local):
        raise Unsupported("try around an external call: a statement after the call could raise (only assignments of names/constants/bool()/"
                          "not/is-None tests and ifs over them are accepted there)")
    if not nonraising(st.handlers[0].body, cfg, local):
        raise Unsupported("handler of the try around an external call: only logging and assignments that cannot raise are accepted")
    return targets, callee, call, st.body[1:], st.handlers[0].body


# ---------------------------------------------------------------------- reads / definite assignment

def areads(node: ast.AST, local: set[str], cfg: Cfg, out: list[str]) -> None:
    """variables loaded in `node` in evaluation order; `self.<attr>` counts as the variable `self.<attr>`; the callee of a designated
    external call is not a read"""
    if _is_self_attr(node):
        out.append("self." + node.attr)
        return
    if isinstance(node, ast.Call) and ast.unparse(node.func) in cfg.externals:
        for a in node.args:
            areads(a, local, cfg, out)
        return
    if isinstance(node, (ast.Name, ast.ListComp, ast.SetComp, ast.GeneratorExp, ast.DictComp)):
        pytolean._reads(node, local, out)
        return
    for c in ast.iter_child_nodes(node):
        areads(c, local, cfg, out)


def aflow(stmts: list[ast.stmt], local: set[str], cfg: Cfg, defined: set[str], free: list[str], assigned: list[str],
          maybe_unbound: set[str]) -> set[str] | None:
    """definite assignment over the accepted statements (see pytolean._flow): `free` = may be read before the range assigns it;
    `maybe_unbound` collects the names a raising external call leaves unbound on the handler path"""
    def read(e: ast.AST | None) -> None:
        if e is None:
            return
        got: list[str] = []
        areads(e, local, cfg, got)
        for v in got:
            if v not in defined and v not in free:
                free.append(v)

    def assign(name: str) -> None:
        defined.add(name)
        if name not in assigned:
            assigned.append(name)
    defined = set(defined)
    for st in stmts:
        if isinstance(st, ast.Pass) or (isinstance(st, ast.Expr) and isinstance(st.value, ast.Constant)) or is_silent(st, cfg, local):
            continue
        if isinstance(st, ast.AnnAssign) and st.value is None and isinstance(st.target, ast.Name):
            continue
        if isinstance(st, (ast.Assign, ast.AnnAssign)):
            tgt = st.targets[0] if isinstance(st, ast.Assign) else st.target
            if isinstance(st, ast.Assign) and len(st.targets) != 1:
                raise Unsupported(f"assignment {ast.unparse(st)[:60]}")
            read(st.value)
            if isinstance(tgt, ast.Name):
                assign(tgt.id)
            elif isinstance(tgt, ast.Subscript) and isinstance(tgt.value, ast.Name):
                read(tgt.value)
                read(tgt.slice)
            else:
                raise Unsupported(f"assignment {ast.unparse(st)[:60]}")
        elif isinstance(st, ast.If):
            read(st.test)
            d1 = aflow(st.body, local, cfg, defined, free, assigned, maybe_unbound)
            d2 = aflow(st.orelse, local, cfg, defined, free, assigned, maybe_unbound)
            if d1 is None and d2 is None:
                return None
            defined = d2 if d1 is None else d1 if d2 is None else (d1 & d2)
        elif isinstance(st, ast.Return):
            read(st.value)
            return None
        elif isinstance(st, ast.With):
            if not (len(st.items) == 1 and st.items[0].optional_vars is None and _is_self_attr(st.items[0].context_expr)):
                raise Unsupported(f"with statement {ast.unparse(st)[:60]} (only `with self.<lock>:`)")
            d = aflow(st.body, local, cfg, defined, free, assigned, maybe_unbound)
            if d is None:
                return None
            defined = d
        elif isinstance(st, ast.Try):
            shape = ext_try(st, cfg, local)
            if shape is None:
                raise Unsupported("try statement whose first statement is not a designated external call")
            targets, _, call, rest, handler = shape
            for a in call.args:
                read(a)
            d_h = aflow(handler, local, cfg, defined, free, assigned, maybe_unbound)
            for t in targets:
                if t not in defined:
                    maybe_unbound.add(t)
            d_b = set(defined)
            for t in targets:
                d_b.add(t)
                if t not in assigned:
                    assigned.append(t)
            d_b = aflow(rest, local, cfg, d_b, free, assigned, maybe_unbound)
            if d_b is None and d_h is None:
                return None
            defined = d_h if d_b is None else d_b if d_h is None else (d_b & d_h)
        else:
            raise Unsupported(f"statement {ast.unparse(st)[:60]}")
    return defined


def analyse(tree: ast.Module, designator: str, start: str, last: str, cfg: Cfg) -> dict:
    fn = method(tree, designator)
    stmts = statement_range(fn, start, last)
    for st in stmts:
        for n in ast.walk(st):
            if isinstance(n, _FORBIDDEN):
                raise Unsupported(f"{designator}: {type(n).__name__} inside the range")
            if isinstance(n, ast.Attribute) and isinstance(n.ctx, (ast.Store, ast.Del)):
                raise Unsupported(f"{designator}: attribute assignment {ast.unparse(n)}")
            if isinstance(n, ast.Name) and n.id == "self" and isinstance(n.ctx, ast.Store):
                raise Unsupported("assignment to self")
    params = {a.arg for a in fn.args.args[1:] + fn.args.kwonlyargs}
    local = params | {n.id for n in ast.walk(fn) if isinstance(n, ast.Name) and isinstance(n.ctx, ast.Store)}
    free: list[str] = []
    assigned: list[str] = []
    unbound: set[str] = set()
    end = aflow(stmts, local, cfg, set(), free, assigned, unbound)
    if end is None:
        raise Unsupported(f"{designator}: the range never runs off its end")
    bad = [v for v in free if v in unbound or v in assigned]
    if bad:
        raise Unsupported(f"{designator}: {bad} may be read before the range has bound them (a name bound by a raising external call, or an "
                          f"assigned variable read first)")
    inside = {id(n) for st in stmts for n in ast.walk(st)}
    elsewhere = {n.id for n in ast.walk(fn) if isinstance(n, ast.Name) and id(n) not in inside}
    outputs = [v for v in assigned if v in elsewhere]
    if not outputs:
        raise Unsupported(f"{designator}: the range assigns nothing that the rest of the method mentions")
    missing = [v for v in outputs if v not in end]
    if missing:
        raise Unsupported(f"{designator}: output {missing} is not assigned on every path")
    ext_order: list[str] = []
    for st in stmts:
        for n in ast.walk(st):
            if isinstance(n, ast.Call) and ast.unparse(n.func) in cfg.externals and ast.unparse(n.func) not in ext_order:
                ext_order.append(ast.unparse(n.func))
    return {"fn": fn, "stmts": stmts, "local": local, "inputs": free, "outputs": outputs, "temporaries": [v for v in assigned if v not in outputs],
            "externals": ext_order}


# ---------------------------------------------------------------------- translation

def var_name(v: str) -> str:
    return "self_" + ident(v[5:]) if v.startswith("self.") else ident(v)


class AsyncTranslator(pytolean.Translator):
    def __init__(self, tree: ast.Module, cfg: Cfg, local: set[str], oracle: bool):
        super().__init__(set(), pytolean._module_consts(tree), oracle=oracle)
        self.cfg = cfg
        self.locals = set(local)
        self.records = dict(cfg.records)
        self.ext_arity: dict[str, int] = {}
        self.stores: dict[str, int] = {}

    def ext_apply(self, callee: str, call: ast.Call) -> str:
        if self.ext_arity.setdefault(callee, len(call.args)) != len(call.args):
            raise Unsupported(f"external {callee} is called with different numbers of arguments")
        if not call.args:
            raise Unsupported(f"external {callee} is called without arguments")
        return "(" + " ".join([self.cfg.externals[callee]] + [self.E(a) for a in call.args]) + ")"

    def E(self, e: ast.expr) -> str:
        if isinstance(e, ast.Await):
            raise Unsupported(f"await outside the accepted shape (first statement of a try … except Exception): {ast.unparse(e)[:60]}")
        if isinstance(e, ast.Name) and e.id == "self":
            raise Unsupported("self used as a value")
        if isinstance(e, ast.Attribute) and isinstance(e.ctx, ast.Load):
            if _is_self_attr(e):
                return var_name("self." + e.attr)
            if isinstance(e.value, ast.Name) and e.value.id in self.records and e.value.id in self.locals:
                if e.attr not in self.records[e.value.id]:
                    raise Unsupported(f"{ast.unparse(e)}: the record has no field {e.attr}")
                return f"(Rbacx.Py.attr {ident(e.value.id)} {lean_str(e.attr)})"
            raise Unsupported(f"attribute {ast.unparse(e)}")
        if isinstance(e, ast.Call) and isinstance(e.func, ast.Name) and e.func.id not in self.locals:
            f = e.func.id
            if f == "getattr" and len(e.args) == 3 and not e.keywords and isinstance(e.args[1], ast.Constant) and isinstance(e.args[1].value, str):
                x, fld = e.args[0], e.args[1].value
                if isinstance(x, ast.Name) and x.id == "self":
                    # getattr(self, "f", d): the attribute is set in __init__ — the input `self_f`
                    return var_name("self." + fld)
                if isinstance(x, ast.Name) and x.id in self.records and x.id in self.locals and fld in self.records[x.id]:
                    return f"(Rbacx.Py.getattrD {ident(x.id)} {lean_str(fld)} {self.E(e.args[2])})"
                raise Unsupported(f"getattr on something that is not a record parameter: {ast.unparse(e)}")
            if f in self.cfg.dataclasses:
                fields = self.cfg.dataclasses[f]
                given: dict[str, ast.expr] = dict(zip(fields, e.args))
                for kw in e.keywords:
                    if kw.arg is None or kw.arg not in fields or kw.arg in given:
                        raise Unsupported(f"constructor call {ast.unparse(e)[:80]}")
                    given[kw.arg] = kw.value
                if len(e.args) > len(fields) or set(given) != set(fields):
                    raise Unsupported(f"constructor call {ast.unparse(e)[:80]}: every declared field must be given ({fields})")
                # the arguments have no effects, so their evaluation order is immaterial; fields in declaration order
                return "(Rbacx.Py.record [" + ", ".join(f"({lean_str(fl)}, {self.E(given[fl])})" for fl in fields) + "])"
        if isinstance(e, ast.Call) and external_call(e, self.cfg):
            raise Unsupported(f"external call outside the accepted shape: {ast.unparse(e)[:60]}")
        return super().E(e)

    def SF(self, stmts, ind, fresh, outs, flow=None):
        if stmts:
            st, rest = stmts[0], stmts[1:]
            if is_silent(st, self.cfg, self.locals):
                note = f"`{st.value.func.value.id}.<method>(…)` statements (logging) have no effect on any value and are left out"
                if note not in self.notes:
                    self.notes.append(note)
                return self.SF(rest, ind, fresh, outs, flow)
            if isinstance(st, ast.AnnAssign) and st.value is None and isinstance(st.target, ast.Name):
                return self.SF(rest, ind, fresh, outs, flow)
            if isinstance(st, ast.With):
                note = "`with self.<lock>:` is transparent"
                if note not in self.notes:
                    self.notes.append(note)
                return self.SF(list(st.body) + rest, ind, fresh, outs, flow)
            if isinstance(st, ast.Try):
                shape = ext_try(st, self.cfg, self.locals)
                if shape is None:
                    raise Unsupported("try statement whose first statement is not a designated external call")
                targets, callee, call, body_rest, handler = shape
                app = self.ext_apply(callee, call)
                fresh2 = fresh - set(targets) - {n.id for a in call.args for n in ast.walk(a) if isinstance(n, ast.Name)}
                if len(targets) == 2:
                    scrut, pat = f"Rbacx.Py.awaitUnpack2 {app}", f"({ident(targets[0])}, {ident(targets[1])})"
                    how = (f"`{targets[0]}, {targets[1]} = …`: a returned value that does not unpack into exactly two items raises before either "
                           f"name is bound — the same handler (`awaitUnpack2`)")
                else:
                    scrut, pat, how = app, ident(targets[0]), ""
                note = (f"`try: {ast.unparse(st.body[0])} … except Exception:` is a case split on the OUTCOME of the external call "
                        f"`{callee}` (`some v` = returned `v`, `none` = raised; nothing else in the try body can raise)" + ("; " + how if how else ""))
                if note not in self.notes:
                    self.notes.append(note)
                a = self.SF(list(body_rest) + rest, ind + "    ", fresh2, outs, flow)
                b = self.SF(list(handler) + rest, ind + "    ", fresh2, outs, flow)
                return (f"(match {scrut} with\n{ind}  | Option.some {pat} =>\n{ind}    {a}\n{ind}  | Option.none =>\n{ind}    {b})")
            if isinstance(st, ast.Assign) and len(st.targets) == 1 and isinstance(st.targets[0], ast.Name) and isinstance(st.value, ast.Call) \
                    and isinstance(st.value.func, ast.Name) and st.value.func.id in self.cfg.dataclasses and st.value.func.id not in self.locals:
                x = st.targets[0].id
                if self.stores.get(x, 0) != 1:
                    raise Unsupported(f"{x} is bound to a dataclass instance but assigned {self.stores.get(x, 0)} times in the method")
                self.records[x] = self.cfg.dataclasses[st.value.func.id]
        return super().SF(stmts, ind, fresh, outs, flow)


def translate_range(source: str, designator: str, start: str, last: str, lean_name: str, cfg: Cfg, oracle: bool = True) -> dict:
    """{"lean", "inputs" (python-level names; `self.<attr>` for attribute reads), "outputs", "externals": [[callee text, parameter, arity]…],
    "oracle"}"""
    tree = ast.parse(source)
    an = analyse(tree, designator, start, last, cfg)
    tr = AsyncTranslator(tree, cfg, an["local"], oracle)
    for n in ast.walk(an["fn"]):
        if isinstance(n, ast.Name) and isinstance(n.ctx, ast.Store):
            tr.stores[n.id] = tr.stores.get(n.id, 0) + 1
    # a local bound exactly once in the method, to a dataclass construction, is a record wherever it is read
    for n in ast.walk(an["fn"]):
        if isinstance(n, ast.Assign) and len(n.targets) == 1 and isinstance(n.targets[0], ast.Name) and tr.stores.get(n.targets[0].id) == 1 \
                and isinstance(n.value, ast.Call) and isinstance(n.value.func, ast.Name) and n.value.func.id in cfg.dataclasses \
                and n.value.func.id not in an["local"]:
            tr.records[n.targets[0].id] = cfg.dataclasses[n.value.func.id]
    tr.cur_oracle = oracle and any((isinstance(n, ast.Call) and isinstance(n.func, ast.Name) and n.func.id == "str") or isinstance(n, ast.JoinedStr)
                                   for st in an["stmts"] for n in ast.walk(st))
    names = [var_name(v) for v in an["inputs"] + an["temporaries"] + an["outputs"]]
    taken = {ident(lean_name)} | ({"o"} if tr.cur_oracle else set()) | {cfg.externals[x] for x in an["externals"]}
    if any(n in taken for n in names) or len(set(names)) != len(names):
        raise Unsupported(f"{designator}: variable names clash after renaming: {names}")
    outs = an["outputs"]
    ret = ast.Return(ast.Name(outs[0], ast.Load()) if len(outs) == 1 else ast.Tuple([ast.Name(v, ast.Load()) for v in outs], ast.Load()))
    body = tr.SF(list(an["stmts"]) + [ret], "  ", frozenset(), None, None)
    exts = [[x, cfg.externals[x], tr.ext_arity[x]] for x in an["externals"]]
    params = " ".join((["(o : Oracle)"] if tr.cur_oracle else [])
                      + [f"({p} : {' → '.join(['PyVal'] * n)} → Option PyVal)" for _, p, n in exts]
                      + [f"({var_name(v)} : PyVal)" for v in an["inputs"]])
    notes = []
    if tr.cur_oracle:
        notes.append("`o`: the oracle that supplies CPython's `str()` of floats, containers and datetimes")
    for x, p, _ in exts:
        notes.append(f"`{p}`: the collaborator call `{x}(…)`, NOT translated — a parameter giving the OUTCOME of the (awaited) call on "
                     f"its arguments: `some v` = returned `v`, `none` = raised")
    notes += tr.notes
    res = outs[0] if len(outs) == 1 else "(" + ", ".join(outs) + ")"
    where = f"from `{start}…` to `{last}…`" if last is not None else f"the one statement `{start}…` (wherever it is nested)"
    doc = (f"/-- range of `{designator}` {where}; inputs: {', '.join(an['inputs'])}; result: {res}"
           + "".join("; " + n for n in notes)).replace("-/", "- /") + " -/\n"
    return {"lean": f"{doc}def {ident(lean_name)} {params} : PyVal :=\n  {body}\n", "inputs": an["inputs"], "outputs": outs,
            "externals": exts, "oracle": tr.cur_oracle}


# ---------------------------------------------------------------------- the same range run by CPython

class _Obj:
    pass


class _Silent:
    def __getattr__(self, name):
        return lambda *a, **k: None


def _collaborator(outcome, use_async: bool):
    """a stub for one designated call: returns the outcome's value or raises; `use_async`: an `async def` (maybe_await awaits it)"""
    def answer():
        if outcome[0] == "raised":
            raise RuntimeError("collaborator raised")
        return outcome[1]
    if use_async:
        async def acall(*_a, **_k):
            return answer()
        return acall
    return lambda *_a, **_k: answer()


def range_as_python(source: str, designator: str, start: str, last: str, cfg: Cfg, globs: dict):
    """(run, inputs, outputs, externals): `run(values: {input name: python value}, outcomes: {callee text: ("ok", v) | ("raised",)},
    use_async=False)` executes the range's statements — verbatim, as an `async def` compiled from the source text, in the module's own
    globals (`maybe_await`, the dataclasses; the logger replaced by a silent one) — and returns the output value (tuple of several).
    `self` is a stub carrying the `self.<attr>` inputs and one stub collaborator per designated call."""
    tree = ast.parse(source)
    an = analyse(tree, designator, start, last, cfg)
    plain = [v for v in an["inputs"] if not v.startswith("self.")]
    outs = an["outputs"]
    mod = ast.parse(f"async def _fragment(self, {', '.join(plain)}):\n    pass\n    return {outs[0] if len(outs) == 1 else '(' + ', '.join(outs) + ',)'}\n")
    mod.body[0].body[0:1] = [copy.deepcopy(st) for st in an["stmts"]]
    ast.fix_missing_locations(mod)
    ns = dict(globs)
    for name in cfg.silent:
        ns[name] = _Silent()
    exec(compile(mod, f"<range of {designator}>", "exec"), ns)  # noqa: S102
    frag = ns["_fragment"]

    def run(values: dict, outcomes: dict, use_async: bool = False):
        me = _Obj()
        for v in an["inputs"]:
            if v.startswith("self."):
                setattr(me, v[5:], values[v])
        for callee in an["externals"]:
            path = callee.split(".")
            if path[0] != "self":
                raise Unsupported(f"external {callee}: only collaborators reached through self are stubbed")
            holder = me
            gone = False
            for part in path[1:-1]:
                cur = getattr(holder, part, _Obj)
                if cur is None:
                    gone = True          # the attribute input says "not configured": the range must not call it
                    break
                if not isinstance(cur, _Obj):
                    cur = _Obj()
                    setattr(holder, part, cur)
                holder = cur
            if not gone:
                setattr(holder, path[-1], _collaborator(outcomes[callee], use_async))
        coro = frag(me, *[values[v] for v in plain])
        try:
            coro.send(None)
        except StopIteration as stop:
            return stop.value
        coro.close()
        raise RuntimeError("the range suspended (a collaborator stub never does)")
    return run, an["inputs"], outs, an["externals"]
