"""Sibling of harness/pytolean_except.py / pytolean_trace.py: translation of the COMMAND-LINE functions of rbacx/cli.py and of the parser
dispatch of rbacx/store/policy_loader.py (C17) into Lean, in EXCEPTION-PASSING style with exception OBJECTS and the class hierarchy
(meanings: lean/Rbacx/Model/PyCli.lean, namespace `Rbacx.PyX`).

Every translated function has type `<python parameters : PyVal> → <its externals> → Except PyX.Exc PyVal`: `.ok v` = the call returned `v`,
`.error e` = the exception `e` (class name, `str(e)`, `.code`) escaped.  Syntax-directed; anything outside the shapes below raises
`Unsupported` (reported as a failed extraction: the per-run obligation then fails).

EXTERNALS (`Cfg`): collaborators that are NOT translated are function parameters returning the OUTCOME of the call, `PyVal → … → Except Exc
PyVal` (arity 0: a value of that type) — the obligation quantifies over all of them:
  * `externals`: plain names (`validate_policy(pol)`, `analyze_policy(doc, require_attrs=…)`: keyword arguments are appended in call order,
    every call site must have the declared arity);
  * `dotted`: calls of a dotted name (`json.loads(text)`, `yaml.safe_load(text)`, `sys.stdin.read()`);
  * `methods`: `X.decode(enc)` = the external applied to the receiver and the arguments;
  * `imports`: the statement `import yaml` = evaluating the arity-0 external (its outcome: the import worked / raised);
  * `with open(P, "r", …) as f: <body>` where `f` is used as `f.read()` only: opening + reading (+ closing) is ONE outcome, the external
    `open_read(P)`;
  * `pure_externals`: total `PyVal`-valued function parameters (`_detect_format`, translated by harness/pytolean.py and instantiated by the
    obligation), keyword arguments in the order of the callee's parameters.
EXPRESSIONS are put into A-normal form in CPython's evaluation order: an operation that can raise is bound (`PyX.bind`) to a fresh `t<n>`:
  calls of externals / translated functions, `X.get("k")` (`getE`: AttributeError on a non-dict), `list(x)`, `int(x)`, `o.attr` (`getattrE`).
  Plain terms: names, constants (module-level `NAME = <constant>` are inlined), displays (tuples are lists; dict displays need constant
  string keys), `and`/`or`/`not`, `==` `!=` `is [not] None`, `a if c else b`, `x in (<constants>)`, `bool(x)`, `isinstance(x, T)`,
  `getattr(o, "k", d)` / `hasattr(o, "k")` on a parameter (an `argparse.Namespace` is the dict of its attributes), `str(e)` / `e.code` of
  a caught exception.  A later operand of `and`/`or`/`if-else` that can raise is `Unsupported`.
STATEMENTS (continuation style; a function body is one term): `x = e`, `x: T = e`, `a, b = e`, `return e`, `return a, b`, `pass`,
  `raise Cls("…") [from e]` (the class only: the message of a raised literal is not represented), bare `raise` in a handler, `if`/`else` (the statements after an `if` that can fall through are copied into
  the branches), `xs.append(e)` on a local bound to a list display (`PyX.append`: the list afterwards), an expression statement that calls
  an external;
  `try: B except C1 [as e]: H1 except C2: H2` — `PyX.tryCatch` (first handler that catches by `isinstance`); when the statement can fall
  through, body and handlers are `PyX.Flow`s (`ret v` / `next <the variables they assign that are read afterwards>`) and the rest of the
  block is bound with `PyX.thenFlow`;
  `for i, x in enumerate(e): B` / `for x in e: B` (no `break`/`continue`) — `PyX.forEnum` / `PyX.forEach` over `PyX.iterE e`; the CARRIED
  variables are those the body assigns (or appends to) that are defined before the loop; a `return` in the body ends the function.
OUTPUT-ONLY statements are DROPPED (read as no-ops that do not raise): a statement that (1) calls one of `Cfg.output_calls` (`_print`,
  `_format_issues_text`, `sys.stdout.write`, `sys.stderr.write`), (2) contains no `return`/`raise`/`break`/`continue`/`try`/`with`, no call
  of an external or of a translated function, and (3) assigns only names that are not read after it.  What was dropped is listed in the
  function's doc comment (`dropped` in the result)."""
from __future__ import annotations

import ast
from dataclasses import dataclass, field

from pytolean import Unsupported, ident, lean_str

RES = "Rbacx.PyX.Res"


@dataclass
class Cfg:
    externals: dict = field(default_factory=dict)        # name → arity
    dotted: dict = field(default_factory=dict)           # "json.loads" → external name
    methods: dict = field(default_factory=dict)          # "decode" → external name (receiver first)
    imports: dict = field(default_factory=dict)          # module → external name (arity 0)
    pure_externals: dict = field(default_factory=dict)   # name → [parameter names in order]
    output_calls: tuple = ()
    open_read: str | None = None                         # external name for `with open(P, "r") as f: … f.read() …`
    lean_names: dict = field(default_factory=dict)
    order: tuple = ()                                    # global order of the external parameters


class Mode:
    def __init__(self, kind: str, vars_: list[str] | None = None):
        self.kind, self.vars = kind, list(vars_ or [])

    def tup(self) -> str:
        return "()" if not self.vars else (self.vars[0] if len(self.vars) == 1 else "(" + ", ".join(self.vars) + ")")

    def ret(self, term: str) -> str:
        return f".ok {term}" if self.kind == "fn" else f".ok (Rbacx.PyX.Flow.ret {term})"

    def fall(self) -> str:
        return ".ok PyVal.none" if self.kind == "fn" else f".ok (Rbacx.PyX.Flow.next {self.tup()})"

    def then(self) -> str:
        return "Rbacx.PyX.thenFlow" if self.kind == "fn" else "Rbacx.PyX.thenFlowF"


def binder(vars_: list[str]) -> tuple[str, str]:
    """(`fun` binder, prefix that destructures it)"""
    if not vars_:
        return "(_ : Unit)", ""
    if len(vars_) == 1:
        return f"({vars_[0]} : PyVal)", ""
    ty = " × ".join("PyVal" for _ in vars_)
    return f"(s' : {ty})", "match s' with | (" + ", ".join(vars_) + ") => "


def _ends(stmts: list[ast.stmt]) -> bool:
    for st in stmts:
        if isinstance(st, (ast.Return, ast.Raise)):
            return True
        if isinstance(st, ast.If) and _ends(st.body) and _ends(st.orelse):
            return True
        if isinstance(st, ast.Try) and not st.orelse and not st.finalbody and _ends(st.body) and all(_ends(h.body) for h in st.handlers):
            return True
        if isinstance(st, ast.With) and _ends(st.body):
            return True
    return False


def _names(nodes, ctx) -> list[str]:
    out = []
    for n0 in nodes:
        for n in ast.walk(n0):
            if isinstance(n, ast.Name) and isinstance(n.ctx, ctx) and n.id not in out:
                out.append(n.id)
    return out


def _assigned(stmts: list[ast.stmt]) -> list[str]:
    """names a statement list binds: assignment targets, loop variables, and locals mutated by `.append`"""
    out = _names(stmts, ast.Store)
    for n0 in stmts:
        for n in ast.walk(n0):
            if (isinstance(n, ast.Expr) and isinstance(n.value, ast.Call) and isinstance(n.value.func, ast.Attribute)
                    and n.value.func.attr == "append" and isinstance(n.value.func.value, ast.Name) and n.value.func.value.id not in out):
                out.append(n.value.func.value.id)
            if isinstance(n, ast.ExceptHandler) and n.name and n.name not in out:
                out.append(n.name)
    return out


class CliTranslator:
    def __init__(self, cfg: Cfg, consts: dict):
        self.cfg, self.consts = cfg, consts
        self.sigs: dict[str, dict] = {}
        self.ntmp = 0
        self.locals: set[str] = set()
        self.params: list[str] = []
        self.exc_vars: list[str] = []
        self.file_vars: dict[str, str] = {}
        self.fresh_lists: set[str] = set()
        self.used_exts: list[str] = []
        self.dropped: list[str] = []

    # ------------------------------------------------------------------ helpers
    def fresh(self, stem: str = "t") -> str:
        while True:
            self.ntmp += 1
            t = f"{stem}{self.ntmp}"
            if t not in self.locals and t not in self.params and t not in self.all_ext_names():
                return t

    def all_ext_names(self) -> set[str]:
        c = self.cfg
        return set(c.externals) | set(c.dotted.values()) | set(c.methods.values()) | set(c.imports.values()) | set(c.pure_externals) | \
            ({c.open_read} if c.open_read else set())

    def lname(self, py: str) -> str:
        return self.cfg.lean_names.get(py, ident(py))

    def ext(self, name: str) -> str:
        if name not in self.used_exts:
            self.used_exts.append(name)
        return ident(name)

    def arity(self, name: str) -> int:
        c = self.cfg
        if name in c.externals:
            return c.externals[name]
        if name == c.open_read:
            return 1
        if name in c.imports.values():
            return 0
        raise Unsupported(f"external {name} has no declared arity")

    def const(self, v) -> str:
        if v is None:
            return "PyVal.none"
        if v is True or v is False:
            return f"(PyVal.bool {'true' if v else 'false'})"
        if isinstance(v, int):
            return f"(PyVal.int {v})" if v >= 0 else f"(PyVal.int ({v}))"
        if isinstance(v, str):
            return f'(PyVal.str {lean_str(v)})'
        raise Unsupported(f"constant {v!r}")

    def var(self, name: str) -> str:
        n = ident(name)
        if n in self.all_ext_names() or n.startswith("Rbacx"):
            raise Unsupported(f"local name {name} clashes with an external")
        return n

    # ------------------------------------------------------------------ expressions
    def args_of(self, call: ast.Call, binds: list, params: list[str] | None = None, defaults: dict | None = None) -> list[str]:
        if any(isinstance(a, ast.Starred) for a in call.args) or any(k.arg is None for k in call.keywords):
            raise Unsupported("star arguments")
        out = [self.E(a, binds) for a in call.args]
        if params is None:
            return out + [self.E(k.value, binds) for k in call.keywords]
        if len(out) > len(params):
            raise Unsupported("too many positional arguments")
        kw = {}
        for k in call.keywords:       # evaluated in call order, placed in parameter order
            if k.arg not in params[len(out):]:
                raise Unsupported(f"unexpected keyword {k.arg}")
            kw[k.arg] = self.E(k.value, binds)
        for p in params[len(out):]:
            if p in kw:
                out.append(kw[p])
            elif defaults is not None and p in defaults:
                out.append(self.const(defaults[p]))
            else:
                raise Unsupported(f"missing argument {p}")
        return out

    def call_ext(self, name: str, args: list[str], binds: list) -> str:
        if len(args) != self.arity(name):
            raise Unsupported(f"external {name} called with {len(args)} arguments, declared {self.arity(name)}")
        t = self.fresh()
        binds.append((t, "(" + " ".join([self.ext(name)] + args) + ")" if args else self.ext(name)))
        return t

    def E(self, e: ast.expr, binds: list) -> str:
        if isinstance(e, ast.Constant):
            return self.const(e.value)
        if isinstance(e, ast.Name):
            if e.id in self.exc_vars:
                raise Unsupported(f"exception object {e.id} used as a value")
            if e.id in self.locals or e.id in self.params:
                return self.var(e.id)
            if e.id in self.consts:
                return self.const(self.consts[e.id])
            raise Unsupported(f"unknown name {e.id}")
        if isinstance(e, (ast.Tuple, ast.List)):
            return "(PyVal.list [" + ", ".join(self.E(x, binds) for x in e.elts) + "])"
        if isinstance(e, ast.Dict):
            keys = []
            for k in e.keys:
                if not (isinstance(k, ast.Constant) and isinstance(k.value, str)) or k.value in keys:
                    raise Unsupported("dict display needs distinct constant string keys")
                keys.append(k.value)
            return "(PyVal.dict [" + ", ".join(f'({lean_str(k)}, {self.E(v, binds)})' for k, v in zip(keys, e.values)) + "])"
        if isinstance(e, ast.BoolOp):
            terms = [self.E(e.values[0], binds)]
            for v in e.values[1:]:
                b: list = []
                terms.append(self.E(v, b))
                if b:
                    raise Unsupported("a later operand of and/or that can raise")
            fn = "Rbacx.Py.pand" if isinstance(e.op, ast.And) else "PyVal.por"
            out = terms[-1]
            for t in reversed(terms[:-1]):
                out = f"({fn} {t} {out})"
            return out
        if isinstance(e, ast.UnaryOp) and isinstance(e.op, ast.Not):
            return f"(Rbacx.Py.pnot {self.E(e.operand, binds)})"
        if isinstance(e, ast.IfExp):
            c = self.E(e.test, binds)
            b1: list = []
            b2: list = []
            a, b = self.E(e.body, b1), self.E(e.orelse, b2)
            if b1 or b2:
                raise Unsupported("a branch of a conditional expression that can raise")
            return f"(if ({c}).truthy then {a} else {b})"
        if isinstance(e, ast.Compare) and len(e.ops) == 1:
            op, a, b = e.ops[0], e.left, e.comparators[0]
            if isinstance(op, (ast.Is, ast.IsNot)) and isinstance(b, ast.Constant) and b.value is None:
                return f"(Rbacx.Py.{'isNone' if isinstance(op, ast.Is) else 'isNotNone'} {self.E(a, binds)})"
            if isinstance(op, (ast.Eq, ast.NotEq)):
                x = self.E(a, binds)
                y = self.E(b, binds)
                return f"(Rbacx.Py.{'eq' if isinstance(op, ast.Eq) else 'ne'} {x} {y})"
            if isinstance(op, (ast.In, ast.NotIn)) and isinstance(b, (ast.Tuple, ast.List)) and all(isinstance(x, ast.Constant) for x in b.elts):
                x = self.E(a, binds)
                t = f"(Rbacx.Py.contains {self.E(b, binds)} {x})"
                return t if isinstance(op, ast.In) else f"(Rbacx.Py.pnot {t})"
            raise Unsupported("comparison " + ast.unparse(e))
        if isinstance(e, ast.Attribute):
            if isinstance(e.value, ast.Name) and e.value.id in self.exc_vars and e.attr == "code":
                return f"{self.var(e.value.id)}.code"
            if isinstance(e.value, ast.Name) and e.value.id in self.params:
                t = self.fresh()
                binds.append((t, f'(Rbacx.PyX.getattrE {self.var(e.value.id)} {lean_str(e.attr)})'))
                return t
            raise Unsupported("attribute " + ast.unparse(e))
        if isinstance(e, ast.Call):
            return self.call(e, binds)
        raise Unsupported("expression " + ast.unparse(e))

    def call(self, e: ast.Call, binds: list) -> str:
        f = e.func
        text = ast.unparse(f)
        c = self.cfg
        if text in c.dotted:
            return self.call_ext(c.dotted[text], self.args_of(e, binds), binds)
        if isinstance(f, ast.Name):
            n = f.id
            if n in self.locals or n in self.params:
                raise Unsupported(f"call of the local {n}")
            if n == "getattr" and len(e.args) in (2, 3) and isinstance(e.args[1], ast.Constant) and isinstance(e.args[1].value, str) \
                    and isinstance(e.args[0], ast.Name) and e.args[0].id in self.params and not e.keywords:
                o = self.var(e.args[0].id)
                if len(e.args) == 3:
                    return f'(Rbacx.PyX.getattrD {o} {lean_str(e.args[1].value)} {self.E(e.args[2], binds)})'
                t = self.fresh()
                binds.append((t, f'(Rbacx.PyX.getattrE {o} {lean_str(e.args[1].value)})'))
                return t
            if n == "hasattr" and len(e.args) == 2 and isinstance(e.args[1], ast.Constant) and isinstance(e.args[1].value, str) \
                    and isinstance(e.args[0], ast.Name) and e.args[0].id in (set(self.params) | self.locals):
                return f'(PyVal.bool (Rbacx.PyX.hasattr {self.var(e.args[0].id)} {lean_str(e.args[1].value)}))'
            if n == "bool" and len(e.args) == 1 and not e.keywords:
                return f"(PyVal.bool ({self.E(e.args[0], binds)}).truthy)"
            if n == "str" and len(e.args) == 1 and isinstance(e.args[0], ast.Name) and e.args[0].id in self.exc_vars:
                return f"(PyVal.str {self.var(e.args[0].id)}.msg)"
            if n == "isinstance" and len(e.args) == 2 and isinstance(e.args[1], ast.Name) and e.args[1].id in ("dict", "list", "str", "bool", "int", "float"):
                return f'(Rbacx.Py.isInstance {self.E(e.args[0], binds)} "{e.args[1].id}")'
            if n == "any" and len(e.args) == 1 and isinstance(e.args[0], ast.GeneratorExp) and len(e.args[0].generators) == 1:
                g = e.args[0].generators[0]
                if g.ifs or g.is_async or not isinstance(g.target, ast.Name) or not isinstance(g.iter, ast.Name):
                    raise Unsupported("generator " + ast.unparse(e))
                it = self.E(g.iter, binds)
                saved = set(self.locals)
                self.locals.add(g.target.id)
                inner: list = []
                body = self.E(e.args[0].elt, inner)
                self.locals = saved
                if inner:
                    raise Unsupported("an element of any(…) that can raise")
                # the iterable is a list of strings or falsy where the source asks (`argv and any(… for a in argv)`): no TypeError is represented
                return f"(Rbacx.Py.anyOf {it} fun {self.var(g.target.id)} => {body})"
            if n in ("list", "int") and len(e.args) == 1 and not e.keywords:
                x = self.E(e.args[0], binds)
                t = self.fresh()
                binds.append((t, f"(Rbacx.PyX.{n}E {x})"))
                return t
            if n in c.externals:
                return self.call_ext(n, self.args_of(e, binds), binds)
            if n in c.pure_externals:
                return "(" + " ".join([self.ext(n)] + self.args_of(e, binds, c.pure_externals[n], {})) + ")"
            if n in self.sigs:
                s = self.sigs[n]
                args = self.args_of(e, binds, s["params"], s["defaults"])
                t = self.fresh()
                binds.append((t, "(" + " ".join([s["lean"]] + args + [self.ext(x) for x in s["exts"]]) + ")"))
                return t
            raise Unsupported(f"call of {n}")
        if isinstance(f, ast.Attribute):
            if f.attr == "read" and isinstance(f.value, ast.Name) and f.value.id in self.file_vars and not e.args and not e.keywords:
                return self.file_vars[f.value.id]
            if f.attr == "get" and len(e.args) == 1 and not e.keywords and isinstance(e.args[0], ast.Constant) and isinstance(e.args[0].value, str):
                x = self.E(f.value, binds)
                t = self.fresh()
                binds.append((t, f'(Rbacx.PyX.getE {x} {lean_str(e.args[0].value)})'))
                return t
            if f.attr in c.methods:
                recv = self.E(f.value, binds)
                return self.call_ext(c.methods[f.attr], [recv] + self.args_of(e, binds), binds)
        raise Unsupported("call " + ast.unparse(e))

    # ------------------------------------------------------------------ statements
    @staticmethod
    def emit_binds(binds: list, ind: str) -> str:
        return "".join(f"{ind}Rbacx.PyX.bind {term} fun {t} =>\n" for t, term in binds)

    def output_only(self, st: ast.stmt, rest: list[ast.stmt], mode: Mode) -> bool:
        c = self.cfg
        calls_output = False
        for n in ast.walk(st):
            if isinstance(n, (ast.Return, ast.Raise, ast.Break, ast.Continue, ast.Try, ast.With, ast.Yield, ast.Await, ast.Import, ast.FunctionDef, ast.Lambda)):
                return False
            if isinstance(n, ast.Call):
                text = ast.unparse(n.func)
                if text in c.output_calls:
                    calls_output = True
                elif text in c.dotted or text in c.externals or text in c.pure_externals or text in self.sigs:
                    return False
                elif isinstance(n.func, ast.Attribute) and n.func.attr in c.methods:
                    return False
        if not calls_output:
            return False
        live = set(_names(rest, ast.Load)) | set(mode.vars)
        return not (set(_assigned([st])) & live)

    def B(self, stmts: list[ast.stmt], ind: str, mode: Mode) -> str:
        if not stmts:
            return ind + mode.fall() + "\n"
        st, rest = stmts[0], stmts[1:]
        if isinstance(st, ast.Expr) and isinstance(st.value, ast.Constant):
            return self.B(rest, ind, mode)
        if isinstance(st, ast.Pass):
            return self.B(rest, ind, mode)
        if self.output_only(st, rest, mode):
            self.dropped.append(ast.unparse(st).split("\n")[0][:80])
            return self.B(rest, ind, mode)
        binds: list = []
        if isinstance(st, ast.AnnAssign) and st.value is None:
            return self.B(rest, ind, mode)
        if isinstance(st, (ast.Assign, ast.AnnAssign)):
            targets = st.targets if isinstance(st, ast.Assign) else [st.target]
            if len(targets) != 1:
                raise Unsupported("chained assignment")
            tg = targets[0]
            if isinstance(tg, ast.Name):
                term = self.E(st.value, binds)
                self.locals.add(tg.id)
                if isinstance(st.value, ast.List):
                    self.fresh_lists.add(tg.id)
                else:
                    self.fresh_lists.discard(tg.id)
                return self.emit_binds(binds, ind) + f"{ind}let {self.var(tg.id)} := {term}\n" + self.B(rest, ind, mode)
            if isinstance(tg, ast.Tuple) and len(tg.elts) == 2 and all(isinstance(x, ast.Name) for x in tg.elts):
                term = self.E(st.value, binds)
                a, b = (x.id for x in tg.elts)
                self.locals |= {a, b}
                return (self.emit_binds(binds, ind) + f"{ind}match {term} with\n{ind}| PyVal.list [{self.var(a)}, {self.var(b)}] =>\n"
                        + self.B(rest, ind + "  ", mode) + f'{ind}| _ => .error {{ cls := "ValueError" }}\n')
            raise Unsupported("assignment target " + ast.unparse(tg))
        if isinstance(st, ast.Expr) and isinstance(st.value, ast.Call):
            f = st.value.func
            if isinstance(f, ast.Attribute) and f.attr == "append" and isinstance(f.value, ast.Name) and len(st.value.args) == 1:
                x = f.value.id
                if x not in self.fresh_lists:
                    raise Unsupported(f"append to {x}, which is not a local bound to a list display")
                term = self.E(st.value.args[0], binds)
                return self.emit_binds(binds, ind) + f"{ind}let {self.var(x)} := Rbacx.PyX.append {self.var(x)} {term}\n" + self.B(rest, ind, mode)
            self.E(st.value, binds)
            if not binds:
                raise Unsupported("expression statement without effect: " + ast.unparse(st))
            binds[-1] = ("_", binds[-1][1])
            return self.emit_binds(binds, ind) + self.B(rest, ind, mode)
        if isinstance(st, ast.Return):
            term = self.E(st.value, binds) if st.value is not None else "PyVal.none"
            if binds and term == binds[-1][0] and mode.kind == "fn":      # `return f(x)`: the outcome of the call is the outcome of the function
                return self.emit_binds(binds[:-1], ind) + ind + binds[-1][1] + "\n"
            return self.emit_binds(binds, ind) + ind + mode.ret(term) + "\n"
        if isinstance(st, ast.Raise):
            if st.exc is None:
                if not self.exc_vars:
                    raise Unsupported("bare raise outside a handler")
                return f"{ind}.error {self.var(self.exc_vars[-1])}\n"
            x = st.exc
            if isinstance(x, ast.Name) and x.id in self.exc_vars:
                return f"{ind}.error {self.var(x.id)}\n"
            if isinstance(x, ast.Call) and isinstance(x.func, ast.Name) and all(isinstance(a, ast.Constant) for a in x.args) and not x.keywords:
                # the message of a raised literal is not represented (`msg := ""`): the model speaks about exception classes
                return f'{ind}.error {{ cls := {lean_str(x.func.id)} }}\n'
            raise Unsupported("raise " + ast.unparse(st))
        if isinstance(st, ast.If):
            c = self.E(st.test, binds)
            saved = (set(self.locals), set(self.fresh_lists))
            a = self.B(st.body + ([] if _ends(st.body) else rest), ind + "  ", mode)
            self.locals, self.fresh_lists = set(saved[0]), set(saved[1])
            b = self.B(st.orelse + ([] if _ends(st.orelse) else rest), ind + "  ", mode)
            return self.emit_binds(binds, ind) + f"{ind}if ({c}).truthy then\n{a}{ind}else\n{b}"
        if isinstance(st, ast.Import):
            if len(st.names) != 1 or st.names[0].name not in self.cfg.imports or st.names[0].asname:
                raise Unsupported("import " + ast.unparse(st))
            self.call_ext(self.cfg.imports[st.names[0].name], [], binds)
            binds[-1] = ("_", binds[-1][1])
            return self.emit_binds(binds, ind) + self.B(rest, ind, mode)
        if isinstance(st, ast.With):
            return self.with_open(st, rest, ind, mode)
        if isinstance(st, ast.Try):
            return self.try_(st, rest, ind, mode)
        if isinstance(st, ast.For):
            return self.for_(st, rest, ind, mode)
        raise Unsupported("statement " + ast.unparse(st).split("\n")[0])

    def with_open(self, st: ast.With, rest: list[ast.stmt], ind: str, mode: Mode) -> str:
        if len(st.items) != 1 or not self.cfg.open_read:
            raise Unsupported("with")
        it = st.items[0]
        call = it.context_expr
        if not (isinstance(call, ast.Call) and isinstance(call.func, ast.Name) and call.func.id == "open" and isinstance(it.optional_vars, ast.Name)
                and 1 <= len(call.args) <= 2 and all(k.arg in ("encoding", "mode") for k in call.keywords)):
            raise Unsupported("with " + ast.unparse(call))
        modes = [a for a in call.args[1:]] + [k.value for k in call.keywords if k.arg == "mode"]
        if any(not (isinstance(m, ast.Constant) and m.value in ("r", "rt")) for m in modes):
            raise Unsupported("open for anything but reading text")
        f = it.optional_vars.id
        uses = [n for n in ast.walk(ast.Module(body=st.body + rest, type_ignores=[])) if isinstance(n, ast.Name) and n.id == f]
        reads = [n for n in ast.walk(ast.Module(body=st.body, type_ignores=[])) if isinstance(n, ast.Call) and isinstance(n.func, ast.Attribute)
                 and n.func.attr == "read" and isinstance(n.func.value, ast.Name) and n.func.value.id == f and not n.args]
        if len(uses) != 1 or len(reads) != 1:
            raise Unsupported(f"the file object {f} must be used as {f}.read() exactly once")
        binds: list = []
        p = self.E(call.args[0], binds)
        t = self.call_ext(self.cfg.open_read, [p], binds)
        self.file_vars[f] = t
        return self.emit_binds(binds, ind) + self.B(st.body + ([] if _ends(st.body) else rest), ind, mode)

    def handler_classes(self, h: ast.ExceptHandler) -> list[str]:
        t = h.type
        if t is None:
            return ["BaseException"]
        elts = t.elts if isinstance(t, ast.Tuple) else [t]
        if not all(isinstance(x, ast.Name) for x in elts):
            raise Unsupported("handler class " + ast.unparse(t))
        return [x.id for x in elts]

    def try_(self, st: ast.Try, rest: list[ast.stmt], ind: str, mode: Mode) -> str:
        if st.orelse or st.finalbody:
            raise Unsupported("try with else/finally")
        ends = _ends(st.body) and all(_ends(h.body) for h in st.handlers)
        if ends:
            inner, after = mode, None
        else:
            live = _names(rest, ast.Load) + [v for v in mode.vars]
            assigned = _assigned(st.body + [s for h in st.handlers for s in h.body])
            carried = [v for v in assigned if v in live and v not in [h.name for h in st.handlers]]
            inner, after = Mode("flow", [self.var(v) for v in carried]), carried
        saved = (set(self.locals), set(self.fresh_lists))
        body = self.B(st.body, ind + "    ", inner)
        after_locals = set(self.locals)
        hs = []
        for h in st.handlers:
            self.locals, self.fresh_lists = set(saved[0]), set(saved[1])
            name = h.name or self.fresh("e")
            self.exc_vars.append(name)
            hb = self.B(h.body, ind + "      ", inner)
            self.exc_vars.pop()
            after_locals |= self.locals
            cl = ", ".join(f'"{c}"' for c in self.handler_classes(h))
            hs.append(f"{ind}    ([{cl}], fun {self.var(name)} =>\n{hb}{ind}    )")
        self.locals, self.fresh_lists = after_locals, set(saved[1])
        core = f"(Rbacx.PyX.tryCatch (\n{body}{ind}  ) [\n" + ",\n".join(hs) + f"\n{ind}  ])"
        if ends:
            return f"{ind}{core}\n"
        b, pre = binder(inner.vars)
        return f"{ind}{mode.then()} {core} fun {b} => {pre}\n" + self.B(rest, ind, mode)

    def for_(self, st: ast.For, rest: list[ast.stmt], ind: str, mode: Mode) -> str:
        if st.orelse:
            raise Unsupported("for-else")
        for n in ast.walk(ast.Module(body=st.body, type_ignores=[])):
            if isinstance(n, (ast.Break, ast.Continue, ast.For, ast.While)):
                raise Unsupported("break/continue/nested loop in a for body")
        binds: list = []
        it = st.iter
        enum = isinstance(it, ast.Call) and isinstance(it.func, ast.Name) and it.func.id == "enumerate" and len(it.args) == 1 and not it.keywords
        if enum:
            if not (isinstance(st.target, ast.Tuple) and len(st.target.elts) == 2 and all(isinstance(x, ast.Name) for x in st.target.elts)):
                raise Unsupported("enumerate target")
            src = self.E(it.args[0], binds)
            lvars = [x.id for x in st.target.elts]
        else:
            if not isinstance(st.target, ast.Name):
                raise Unsupported("for target")
            src = self.E(it, binds)
            lvars = [st.target.id]
        items = self.fresh()
        binds.append((items, f"(Rbacx.PyX.iterE {src})"))
        carried = [v for v in _assigned(st.body) if (v in self.locals or v in self.params) and v not in lvars]
        inner = Mode("flow", [self.var(v) for v in carried])
        saved = (set(self.locals), set(self.fresh_lists))
        self.locals |= set(lvars)
        b, pre = binder(inner.vars)
        body = self.B(st.body, ind + "    ", inner)
        self.locals, self.fresh_lists = set(saved[0]), set(saved[1])
        fn = "Rbacx.PyX.forEnum" if enum else "Rbacx.PyX.forEach"
        head = (f"{ind}{mode.then()} ({fn} {items} {inner.tup()} fun {b} " + " ".join(self.var(v) for v in lvars) + f" => {pre}\n{body}{ind}  ) "
                f"fun {b} => {pre}\n")
        return self.emit_binds(binds, ind) + head + self.B(rest, ind, mode)

    # ------------------------------------------------------------------ functions
    def function(self, fn: ast.FunctionDef) -> dict:
        a = fn.args
        if a.vararg or a.kwarg or a.posonlyargs:
            raise Unsupported("star parameters")
        params = [x.arg for x in a.args] + [x.arg for x in a.kwonlyargs]
        dvals = [None] * (len(a.args) - len(a.defaults)) + list(a.defaults) + list(a.kw_defaults)
        defaults = {}
        for p, d in zip(params, dvals):
            if d is not None:
                if not isinstance(d, ast.Constant):
                    raise Unsupported("non-constant default")
                defaults[p] = d.value
        self.params, self.locals, self.exc_vars, self.file_vars, self.fresh_lists = params, set(), [], {}, set()
        self.used_exts, self.dropped, self.ntmp = [], [], 0
        body = self.B(fn.body, "  ", Mode("fn"))
        order = list(self.cfg.order)
        exts = sorted(self.used_exts, key=lambda x: order.index(x) if x in order else len(order))
        lean = self.lname(fn.name)

        def ty(x: str) -> str:
            if x in self.cfg.pure_externals:
                return " → ".join(["PyVal"] * (len(self.cfg.pure_externals[x]) + 1))
            return " → ".join(["PyVal"] * self.arity(x) + [RES])
        sig = " ".join(f"({self.var(p)} : PyVal)" for p in params) + "".join(f" ({ident(x)} : {ty(x)})" for x in exts)
        doc = [f"`{fn.name}`"]
        if defaults:
            doc.append("defaults (used where a caller omits the argument): " + ", ".join(f"{k}={v!r}" for k, v in defaults.items()))
        if exts:
            doc.append("externals: " + ", ".join(exts))
        if self.dropped:
            doc.append("output-only statements read as no-ops: " + "; ".join(f"`{d}`" for d in self.dropped))
        text = "/-- " + "; ".join(doc).replace("-/", "- /") + " -/\n" + f"def {lean} {sig} : {RES} :=\n{body}"
        self.sigs[fn.name] = {"lean": lean, "params": params, "defaults": defaults, "exts": exts}
        return {"lean": text, "lean_name": lean, "params": params, "defaults": defaults, "exts": exts, "dropped": list(self.dropped)}


def module_consts(tree: ast.Module) -> dict:
    out = {}
    for st in tree.body:
        if isinstance(st, ast.Assign) and len(st.targets) == 1 and isinstance(st.targets[0], ast.Name) and isinstance(st.value, ast.Constant) \
                and isinstance(st.value.value, (int, str, bool, type(None))):
            out[st.targets[0].id] = st.value.value
    return out


def translate(sources: list[tuple[str, list[str], Cfg]]) -> dict:
    """`sources`: (source text, function names — callees first, configuration) per file, in dependency order; a later file may call
    the functions translated from an earlier one by their bare name (the plugin checks the `import`)."""
    out: dict = {}
    sigs: dict = {}
    for src, names, cfg in sources:
        tree = ast.parse(src)
        tr = CliTranslator(cfg, module_consts(tree))
        tr.sigs = sigs
        fns = {n.name: n for n in tree.body if isinstance(n, ast.FunctionDef)}
        for name in names:
            if name not in fns:
                raise Unsupported(f"function {name} not found")
            out[name] = tr.function(fns[name])
        out.setdefault("__consts__", {}).update({k: v for k, v in tr.consts.items() if k.startswith("EXIT_")})
    return out


def translate_main(src: str, cfg: Cfg, sigs: dict | None = None) -> dict:
    """`main` of cli.py, a stage of its own (the plugin keeps the command functions translated when `main` leaves the subset)"""
    tree = ast.parse(src)
    tr = CliTranslator(cfg, module_consts(tree))
    tr.sigs = dict(sigs or {})
    fns = {n.name: n for n in tree.body if isinstance(n, ast.FunctionDef)}
    if "main" not in fns:
        raise Unsupported("function main not found")
    return {"main": tr.function(fns["main"])}
