"""Extension of harness/pytolean_except.py: a function that BUILDS AN INDEX AND RETURNS A CLOSURE OVER IT (C03: `compile(policy)` of
core/compiler.py and the `decide(env)` it returns), translated as ONE exception-passing definition `<name> <params of the function>
<the parameter of the closure>` = "call the function, then call what it returned".  Meanings of the new operations:
lean/Rbacx/Model/PyIdent.lean.  Everything is syntax-directed; anything outside the shapes below raises `Unsupported`.

CLOSURES.  A nested `def g(p): …` (top level of the function body) is not a value: it is recorded, and `return g` inlines its body at
the return (the compile-time variables it reads are the `let`-bound values at that point — a closure captures variables, and nothing
rebinds them between the `def` and the `return`: checked; the closure may not perform an in-place operation on a captured variable,
so that calls of the returned function are independent of one another: checked).  `return lambda p: e` is `e`.  Every returned
closure takes ONE positional parameter; the definition's last value parameter carries it.  A variable the closure assigns may not be
a variable of the enclosing function.

OBJECT IDENTITY (`id(x)`).  A shape inference finds the variables that hold objects observed by identity: `id(x)` makes `x` an OBJECT
(`O`); `for x in E`, `E.append(x)`, `E[i]`, `E.get(k, [])`, `E.setdefault(k, []).append(x)`, `E.sort(key=lambda r: …)`, `v = E` propagate
(`L s` = list of, `D s` = string-keyed dict of).  An object is the pair `Rbacx.PyI.tag i v`; `id(x)` = `PyI.idOf x`.  Where a PLAIN
expression flows into a variable of shape `L O` (`rules = policy.get("rules") or []`) the objects ENTER: `PyI.tagList` — identity =
POSITION in that list.  Where an object / a list of objects is used as a plain value (`rule.get(…)`, `_actions(rule)`, a dict display
`{"rules": selected}`, a truth test) it is `PyI.untag` / `PyI.untagList`.  Reading trusted: the elements of the entering list are
pairwise distinct objects (a document loaded from JSON / YAML never holds one dict object twice).

IN-PLACE OPERATIONS on a FRESH LOCAL — a variable every assignment of which binds a fresh display (`[]`, `{}`, `set()`, a list display
of constants / fresh displays) — rebind the variable (value semantics = CPython's reference semantics while nobody else holds the
object: a bare use of the variable, or of one of its items, that could create an alias is accepted only when no in-place operation on
the variable can follow it):  `xs.append(e)` (`PyI.appendE`), `s.add(e)` on a `set()` (`PyI.addE`), `xs[i].append(e)`
(`PyI.appendAtE`), `xs[i] = e` (`PyI.setIdxE`), `d.setdefault(k, []).append(e)` (`PyI.setdefaultAppendE`), `xs.sort(key=lambda r: K)`
with a key `K` that cannot raise (`PyI.sortBy`: stable, keys are ints), and on a dict ALL of whose keys are `id(…)` values
(represented as the list of its entries): `d.setdefault(id(x), e)` as a statement (`PyI.idSetdefault`), `d.get(id(x), e)`
(`PyI.idGet`), `len(d)`.  `d.get(k, default)` on a string-keyed dict: `PyI.getDE`.  `range(<int constants>)`, `reversed(range(…))`:
the literal list CPython's own `range` gives at translation time.

LOOPS.  `for x in e: <body>` anywhere (nested too), with `break` / `continue`: `PyE.forLoop items (v1, …, vn) …` on the tuple of the
CARRIED variables = the variables the body assigns or operates on in place that are DEFINITELY ASSIGNED before the loop (definite
assignment analysis), in order of first occurrence in the body.  The other variables of the body are local to one iteration and may
not be read after the loop.
IF-JOINS.  `if T: <A> [else: <B>]` followed by more statements, when neither branch contains `return` / `break` / `continue` / `raise`:
`bind (if T then <A; ok (v…)> else <B; ok (v…)>) fun (v…) => <rest>` on the variables the branches assign / operate on that are
definitely assigned before the `if` (instead of duplicating the rest into both branches).
NAMED LITERALS.  A string constant designated by the caller is emitted as a definition of its own and referred to by name (C03: the
default algorithm of the compiler, so that the obligation holds for whatever literal the source carries)."""
from __future__ import annotations

import ast
import copy

import pytolean
from pytolean import Unsupported, ident, lean_str
from pytolean_except import ExceptTranslator, _ends, _loads

O = "O"
K = "K"          # a dict keyed by identities


def L(s):
    return ("L", s)


def D(s):
    return ("D", s)


def _is_call(e, attr: str, nargs: int | None = None) -> bool:
    return isinstance(e, ast.Call) and isinstance(e.func, ast.Attribute) and e.func.attr == attr and not e.keywords \
        and (nargs is None or len(e.args) == nargs)


def _empty_list(e) -> bool:
    return isinstance(e, ast.List) and not e.elts


def _fresh(e) -> bool:
    """a display that builds a new object nobody else holds"""
    if isinstance(e, ast.Dict) and not e.keys:
        return True
    if isinstance(e, ast.Call) and isinstance(e.func, ast.Name) and e.func.id == "set" and not e.args and not e.keywords:
        return True
    if isinstance(e, ast.List):
        return all(isinstance(x, ast.Constant) or _fresh(x) for x in e.elts)
    return False


def _live(stmts: list[ast.stmt], v: str) -> str:
    """may the variable be READ before it is assigned in the statement list?  "read" / "written" (assigned first on every path) / "no" """
    def loads(n, bound=frozenset()) -> bool:
        if n is None:
            return False
        if isinstance(n, ast.Lambda):
            return loads(n.body, bound | {a.arg for a in n.args.args})
        if isinstance(n, ast.Name):
            return n.id == v and isinstance(n.ctx, ast.Load) and v not in bound
        return any(loads(c, bound) for c in ast.iter_child_nodes(n))
    for st in stmts:
        if isinstance(st, (ast.Assign, ast.AnnAssign)):
            if loads(getattr(st, "value", None)):
                return "read"
            tgts = st.targets if isinstance(st, ast.Assign) else [st.target]
            if any(loads(t) for t in tgts if not isinstance(t, ast.Name)):
                return "read"
            if getattr(st, "value", None) is not None and any(isinstance(t, ast.Name) and t.id == v for t in tgts):
                return "written"
        elif isinstance(st, ast.For):
            if loads(st.iter):
                return "read"
            if not (isinstance(st.target, ast.Name) and st.target.id == v) and _live(st.body, v) == "read":
                return "read"
            if _live(st.orelse, v) == "read":
                return "read"
        elif isinstance(st, ast.If):
            if loads(st.test):
                return "read"
            a, b = _live(st.body, v), _live(st.orelse, v)
            if "read" in (a, b):
                return "read"
            if a == b == "written":
                return "written"
        elif isinstance(st, ast.FunctionDef):
            continue
        elif loads(st):
            return "read"
    return "no"


def _escapes(stmts: list[ast.stmt]) -> bool:
    return any(isinstance(n, (ast.Return, ast.Break, ast.Continue, ast.Raise)) for st in stmts for n in ast.walk(st))


class ClosureTranslator(ExceptTranslator):
    def __init__(self, *a, named=None, **k):
        super().__init__(*a, **k)
        self.find_named = named            # fn ast → {id(Constant node): lean name}
        self.named: dict[int, str] = {}
        self.sh: dict[str, object] = {}
        self.entry: dict[int, object] = {}
        self.closures: dict[str, ast.FunctionDef] = {}
        self.da_entry: dict[int, set] = {}
        self.set_vars: set[str] = set()
        self.cparam = ""
        self.closure_notes: list[str] = []

    # ------------------------------------------------------------------ analyses
    def receiver(self, call: ast.Call):
        """(variable, kind) of an in-place operation, or None"""
        f = call.func
        if not isinstance(f, ast.Attribute) or call.keywords and f.attr != "sort":
            return None
        v = f.value
        if f.attr in ("append", "add") and len(call.args) == 1:
            if isinstance(v, ast.Name):
                return v.id, f.attr
            if f.attr == "append" and isinstance(v, ast.Subscript) and isinstance(v.value, ast.Name):
                return v.value.id, "append_at"
            if f.attr == "append" and _is_call(v, "setdefault", 2) and isinstance(v.func.value, ast.Name) and _empty_list(v.args[1]):
                return v.func.value.id, "setdefault_append"
        if f.attr == "setdefault" and len(call.args) == 2 and isinstance(v, ast.Name):
            return v.id, "setdefault"
        if f.attr == "sort" and isinstance(v, ast.Name) and not call.args and len(call.keywords) == 1 and call.keywords[0].arg == "key" \
                and isinstance(call.keywords[0].value, ast.Lambda):
            return v.id, "sort"
        return None

    def touched(self, stmts: list[ast.stmt]) -> list[str]:
        """the variables a statement list assigns or operates on in place, in order of first occurrence (source order)"""
        out: list[str] = []

        def add(v):
            if v not in out:
                out.append(v)

        def walk(n):
            if isinstance(n, (ast.Lambda, ast.ListComp, ast.SetComp, ast.GeneratorExp, ast.DictComp, ast.FunctionDef)):
                return
            if isinstance(n, ast.Expr) and isinstance(n.value, ast.Call):
                r = self.receiver(n.value)
                if r:
                    add(r[0])
            if isinstance(n, ast.Assign):
                for t in n.targets:
                    if isinstance(t, ast.Subscript) and isinstance(t.value, ast.Name):
                        add(t.value.id)
            if isinstance(n, ast.Name) and isinstance(n.ctx, ast.Store):
                add(n.id)
            for c in ast.iter_child_nodes(n):
                walk(c)
        for st in stmts:
            walk(st)
        return out

    def da(self, stmts: list[ast.stmt], d: set) -> set | None:
        d = set(d)
        for st in stmts:
            if isinstance(st, (ast.Assign, ast.AnnAssign)):
                if getattr(st, "value", None) is not None:
                    d |= set(pytolean.Translator._stores([st]))
            elif isinstance(st, ast.For):
                self.da_entry[id(st)] = set(d)
                self.da(st.body, d | set(pytolean.Translator._stores([st.target])))
            elif isinstance(st, ast.If):
                self.da_entry[id(st)] = set(d)
                outs = [x for x in (self.da(st.body, d), self.da(st.orelse, d)) if x is not None]
                if not outs:
                    return None
                d = set.intersection(*outs)
            elif isinstance(st, ast.Return):
                if isinstance(st.value, ast.Name) and st.value.id in self.closures:
                    cl = self.closures[st.value.id]
                    self.da(cl.body, d | {cl.args.args[0].arg, self.cparam})
                return None
            elif isinstance(st, (ast.Break, ast.Continue, ast.Raise)):
                return None
            elif isinstance(st, ast.FunctionDef):
                self.closures[st.name] = st
        return d

    # shapes
    def shape_of(self, e):
        if isinstance(e, ast.Name):
            return self.sh.get(e.id)
        if isinstance(e, ast.Subscript) and not isinstance(e.slice, ast.Slice):
            s = self.shape_of(e.value)
            return s[1] if isinstance(s, tuple) and s[0] == "L" else None
        if (_is_call(e, "get", 2) or _is_call(e, "setdefault", 2)) and _empty_list(e.args[1]):
            s = self.shape_of(e.func.value)
            return s[1] if isinstance(s, tuple) and s[0] == "D" else None
        return None

    def set_shape(self, e, s) -> None:
        if isinstance(e, ast.Name):
            old = self.sh.get(e.id)
            if old is None:
                self.sh[e.id] = s
                self.changed = True
            elif old != s:
                raise Unsupported(f"variable {e.id} is used with two shapes ({old} / {s})")
        elif isinstance(e, ast.Subscript) and not isinstance(e.slice, ast.Slice):
            self.set_shape(e.value, L(s))
        elif (_is_call(e, "get", 2) or _is_call(e, "setdefault", 2)) and _empty_list(e.args[1]):
            self.set_shape(e.func.value, D(s))
        elif isinstance(e, ast.List):
            if not (isinstance(s, tuple) and s[0] == "L"):
                raise Unsupported(f"a list display where a value of shape {s} is expected")
            for x in e.elts:
                self.set_shape(x, s[1])
        elif isinstance(e, ast.Dict) and not e.keys:
            pass
        else:
            if s != L(O):
                raise Unsupported(f"a plain value flows where shape {s} is expected: {ast.unparse(e)[:60]}")
            self.entry[id(e)] = s

    def link(self, a, b) -> None:
        sa, sb = self.shape_of(a), self.shape_of(b)
        if sa is not None and sb is None:
            self.set_shape(b, sa)
        elif sb is not None and sa is None:
            self.set_shape(a, sb)
        elif sa != sb:
            raise Unsupported(f"shapes of {ast.unparse(a)[:40]} and {ast.unparse(b)[:40]} differ")

    def elem_link(self, container, x) -> None:
        """`x` is an element of `container`"""
        sx, sc = self.shape_of(x), self.shape_of(container)
        if sx is not None:
            self.set_shape(container, L(sx))
        elif isinstance(sc, tuple) and sc[0] == "L":
            self.set_shape(x, sc[1])

    def infer_shapes(self, fn: ast.FunctionDef) -> None:
        nodes = list(ast.walk(fn))
        # dicts keyed by identities: every keyed use has an `id(…)` key
        uses: dict[str, list[bool]] = {}
        for n in nodes:
            if isinstance(n, ast.Call) and isinstance(n.func, ast.Attribute) and n.func.attr in ("get", "setdefault") \
                    and isinstance(n.func.value, ast.Name) and n.args:
                k = n.args[0]
                uses.setdefault(n.func.value.id, []).append(isinstance(k, ast.Call) and isinstance(k.func, ast.Name) and k.func.id == "id")
        for v, us in uses.items():
            if any(us):
                if not all(us):
                    raise Unsupported(f"dict {v} is keyed by identities and by other values")
                self.sh[v] = K
        self.changed = True
        rounds = 0
        while self.changed:
            self.changed = False
            rounds += 1
            if rounds > 50:
                raise Unsupported("shape inference does not converge")
            for n in nodes:
                if isinstance(n, ast.Call) and isinstance(n.func, ast.Name) and n.func.id == "id" and len(n.args) == 1 and "id" not in self.locals:
                    self.set_shape(n.args[0], O)
                elif isinstance(n, ast.For):
                    self.elem_link(n.iter, n.target)
                elif isinstance(n, ast.Expr) and isinstance(n.value, ast.Call) and self.receiver(n.value):
                    var, kind = self.receiver(n.value)
                    c = n.value
                    if kind in ("append", "append_at", "setdefault_append") and self.sh.get(var) != K:
                        self.elem_link(c.func.value, c.args[0])
                    elif kind == "sort":
                        lam = c.keywords[0].value
                        if len(lam.args.args) != 1:
                            raise Unsupported("sort key with other than one parameter")
                        self.elem_link(c.func.value, ast.Name(lam.args.args[0].arg, ast.Load()))
                elif isinstance(n, ast.Assign) and len(n.targets) == 1 and isinstance(n.targets[0], ast.Name):
                    self.link(n.targets[0], n.value) if self.sh.get(n.targets[0].id) != K else None
                elif isinstance(n, ast.AnnAssign) and n.value is not None and isinstance(n.target, ast.Name):
                    self.link(n.target, n.value) if self.sh.get(n.target.id) != K else None

    def check_mutation(self, fn: ast.FunctionDef) -> None:
        parents = {id(c): n for n in ast.walk(fn) for c in ast.iter_child_nodes(n)}

        def loops_of(n):
            out = []
            while id(n) in parents:
                n = parents[id(n)]
                if isinstance(n, (ast.For, ast.While)):
                    out.append(id(n))
            return out

        def in_closure(n):
            while id(n) in parents:
                n = parents[id(n)]
                if isinstance(n, (ast.FunctionDef, ast.Lambda)) and n is not fn:
                    return n
            return None
        muts: dict[str, list[ast.AST]] = {}
        for n in ast.walk(fn):
            if isinstance(n, ast.Expr) and isinstance(n.value, ast.Call) and self.receiver(n.value):
                muts.setdefault(self.receiver(n.value)[0], []).append(n)
            if isinstance(n, ast.Assign):
                for t in n.targets:
                    if isinstance(t, ast.Subscript) and isinstance(t.value, ast.Name):
                        muts.setdefault(t.value.id, []).append(n)
        params = {a.arg for f in ast.walk(fn) if isinstance(f, (ast.FunctionDef, ast.Lambda)) for a in f.args.args}
        for v, ms in muts.items():
            if v in params:
                raise Unsupported(f"in-place operation on the parameter {v}")
            owner = None
            for n in ast.walk(fn):
                tg = None
                if isinstance(n, ast.Assign) and len(n.targets) == 1:
                    tg = n.targets[0]
                elif isinstance(n, ast.AnnAssign) and n.value is not None:
                    tg = n.target
                elif isinstance(n, ast.For):
                    if any(isinstance(x, ast.Name) and x.id == v for x in ast.walk(n.target)):
                        raise Unsupported(f"in-place operation on the loop variable {v}")
                if isinstance(tg, ast.Name) and tg.id == v:
                    if not _fresh(n.value):
                        raise Unsupported(f"in-place operation on {v}, which is not bound to a fresh display everywhere ({ast.unparse(n.value)[:40]})")
                    owner = in_closure(n)
                    if isinstance(n.value, ast.Call):
                        self.set_vars.add(v)
            for m in ms:
                if in_closure(m) is not owner:
                    raise Unsupported(f"the closure operates in place on the captured variable {v}: its calls would not be independent")
            # bare uses that could create an alias
            for n in ast.walk(fn):
                if not (isinstance(n, ast.Name) and n.id == v and isinstance(n.ctx, ast.Load)):
                    continue
                node, par = n, parents.get(id(n))
                if isinstance(par, ast.Subscript) and par.value is node:
                    if isinstance(par.ctx, ast.Store):
                        continue
                    node, par = par, parents.get(id(par))
                ok = (isinstance(par, ast.Attribute) and par.value is node and par.attr in ("append", "add", "sort", "setdefault", "get")) \
                    or (isinstance(par, ast.For) and par.iter is node) \
                    or (isinstance(par, (ast.If, ast.IfExp)) and par.test is node) or isinstance(par, (ast.BoolOp, ast.UnaryOp)) \
                    or (isinstance(par, ast.Compare) and node in par.comparators and all(isinstance(o_, (ast.In, ast.NotIn)) for o_ in par.ops)) \
                    or (isinstance(par, ast.Call) and isinstance(par.func, ast.Name) and par.func.id == "len")
                if isinstance(par, ast.BoolOp):
                    # the value of `a and b` is one of the operands: fine only as a test
                    pp = parents.get(id(par))
                    ok = (isinstance(pp, (ast.If, ast.IfExp)) and pp.test is par) or isinstance(pp, ast.UnaryOp)
                if ok:
                    continue
                for m in ms:
                    if m.lineno >= n.lineno or set(loops_of(m)) & set(loops_of(n)):
                        raise Unsupported(f"{v} (or an item of it) is used as a bare value at line {n.lineno} and operated on in place at line "
                                          f"{m.lineno}: an alias could observe the operation")
        # captured variables are not rebound after the closure is defined, nor inside it
        for cl in [n for n in fn.body if isinstance(n, ast.FunctionDef)]:
            own = set(pytolean.Translator._stores(cl.body)) | {a.arg for a in cl.args.args}
            outer = set(pytolean.Translator._stores([s for s in fn.body if s is not cl])) | {a.arg for a in fn.args.args}
            if own & outer:
                raise Unsupported(f"the closure {cl.name} assigns variables of the enclosing function: {sorted(own & outer)}")
            after = fn.body[fn.body.index(cl) + 1:]
            free = [v for v in _loads(list(cl.body)) if v in outer]
            if set(self.touched(after)) & set(free):
                raise Unsupported(f"variables captured by {cl.name} are rebound or operated on after its definition")
            if any(isinstance(n, (ast.Nonlocal, ast.Global)) for n in ast.walk(cl)):
                raise Unsupported("nonlocal / global")

    # ------------------------------------------------------------------ expressions
    def EX(self, e: ast.expr):
        s = self.shape_of(e)
        if s is None:
            return self.EX_plain(e)
        if s == K:
            raise Unsupported(f"the identity-keyed dict {ast.unparse(e)} used as a value")
        b, a = self.EXraw(e)
        if s == O:
            return b, f"(Rbacx.PyI.untag {a})"
        if s == L(O):
            return b, f"(Rbacx.PyI.untagList {a})"
        raise Unsupported(f"a value of shape {s} used as a plain value: {ast.unparse(e)[:60]}")

    def EXraw(self, e: ast.expr):
        if isinstance(e, ast.Name):
            if e.id not in self.locals:
                raise Unsupported(f"name {e.id}")
            return [], ident(e.id)
        if isinstance(e, ast.Subscript):
            b1, a1 = self.EXraw(e.value)
            b2, a2 = self.EX(e.slice)
            return self.exc(b1 + b2, f"(Rbacx.PyE.itemE {a1} {a2})")
        if _is_call(e, "get", 2):
            b1, a1 = self.EXraw(e.func.value)
            b2, a2 = self.EX(e.args[0])
            return self.exc(b1 + b2, f"(Rbacx.PyI.getDE {a1} {a2} (PyVal.list []))")
        raise Unsupported(f"expression {ast.unparse(e)[:60]} of an identity-carrying shape")

    def EXshaped(self, e: ast.expr, s):
        """the term of `e` where a value of shape `s` is expected"""
        if s is None:
            return self.EX(e)
        if isinstance(e, ast.Dict) and not e.keys:
            return [], "(PyVal.list [])" if s == K else "(PyVal.dict [])"
        if s == K:
            raise Unsupported(f"an identity-keyed dict bound to {ast.unparse(e)[:40]}")
        if isinstance(e, ast.List):
            if not (isinstance(s, tuple) and s[0] == "L"):
                raise Unsupported("list display")
            binds, atoms = [], []
            for x in e.elts:
                b, a = self.EXshaped(x, s[1])
                binds += b
                atoms.append(a)
            return binds, "(PyVal.list [" + ", ".join(atoms) + "])"
        se = self.shape_of(e)
        if se == s:
            return self.EXraw(e)
        if se is None and s == L(O) and id(e) in self.entry:
            b, a = self.EX_plain(e)
            return b, f"(Rbacx.PyI.tagList {a})"
        raise Unsupported(f"{ast.unparse(e)[:60]}: shape {se} where {s} is expected")

    def EX_plain(self, e: ast.expr):
        if isinstance(e, ast.Constant) and id(e) in self.named:
            return [], f"(PyVal.str {self.named[id(e)]})"
        if isinstance(e, ast.Call) and isinstance(e.func, ast.Name) and e.func.id not in self.locals and not e.keywords:
            f = e.func.id
            if f == "id" and len(e.args) == 1:
                if self.shape_of(e.args[0]) != O:
                    raise Unsupported("id() of something that is not an identified object")
                b, a = self.EXraw(e.args[0])
                return b, f"(Rbacx.PyI.idOf {a})"
            if f == "set" and not e.args:
                return [], "(PyVal.list [])"
            if f == "len" and len(e.args) == 1 and isinstance(e.args[0], ast.Name) and self.sh.get(e.args[0].id) is not None:
                return self.exc([], f"(Rbacx.PyE.lenE {ident(e.args[0].id)})")
            rng = self.const_range(e)
            if rng is not None:
                return [], "(PyVal.list [" + ", ".join(f"(PyVal.int {v})" if v >= 0 else f"(PyVal.int ({v}))" for v in rng) + "])"
        if _is_call(e, "get", 2) and isinstance(e.func.value, ast.Name) and self.sh.get(e.func.value.id) == K:
            b1, k = self.EX(e.args[0])
            b2, d = self.EX(e.args[1])
            return b1 + b2, f"(Rbacx.PyI.idGet {ident(e.func.value.id)} {k} {d})"
        if _is_call(e, "get", 2):
            b0, recv = self.EX(e.func.value)
            b1, k = self.EX(e.args[0])
            b2, d = self.EX(e.args[1])
            return self.exc(b0 + b1 + b2, f"(Rbacx.PyI.getDE {recv} {k} {d})")
        return super().EX(e)

    def const_range(self, e: ast.Call):
        f = e.func.id
        if f == "reversed" and len(e.args) == 1 and isinstance(e.args[0], ast.Call) and isinstance(e.args[0].func, ast.Name) and not e.args[0].keywords:
            inner = self.const_range(e.args[0])
            return None if inner is None else list(reversed(inner))
        if f == "range" and "range" not in self.locals and 1 <= len(e.args) <= 3:
            vals = []
            for a in e.args:
                if isinstance(a, ast.UnaryOp) and isinstance(a.op, ast.USub) and isinstance(a.operand, ast.Constant) and type(a.operand.value) is int:
                    vals.append(-a.operand.value)
                elif isinstance(a, ast.Constant) and type(a.value) is int:
                    vals.append(a.value)
                else:
                    raise Unsupported("range() of something other than int constants")
            out = list(range(*vals))
            if len(out) > 64:
                raise Unsupported("range() of more than 64 items")
            return out
        return None

    # ------------------------------------------------------------------ statements
    def tuple_of(self, vs: list[str]) -> str:
        return "(" + ", ".join(ident(v) for v in vs) + ")"

    def state_name(self) -> str:
        s_ = "s"
        while s_ in self.locals or s_ in self.externals or s_ in ("o", "fuel"):
            s_ += "'"
        return s_

    def for_gen(self, st: ast.For, rest, ind, tail, ret) -> str:
        if st.orelse or not isinstance(st.target, ast.Name):
            raise Unsupported("for/else or tuple target")
        for b_ in st.body:
            for n in ast.walk(b_):
                if isinstance(n, (ast.Return, ast.While, ast.With, ast.Raise, ast.Try, ast.FunctionDef)):
                    raise Unsupported(f"{type(n).__name__} inside a for loop")
        x = st.target.id
        entry = self.da_entry.get(id(st))
        if entry is None:
            raise Unsupported("for loop outside the analysed statements")
        touched = self.touched(st.body)
        if x in touched or x in entry:
            raise Unsupported("the loop target is assigned elsewhere")
        carried = [v for v in touched if v in entry]
        local = [v for v in touched if v not in entry]
        if not carried:
            raise Unsupported("a for loop that carries no variable")
        if any(_live(list(rest), v) == "read" for v in [x] + local):
            raise Unsupported("a loop-local variable is read after the loop")
        tup = self.tuple_of(carried)
        s_ = self.state_name()
        if self.shape_of(st.iter) is not None:
            b, it = self.EXraw(st.iter)
        else:
            b, it = self.EX(st.iter)
        b, items = self.exc(b, f"(Rbacx.PyE.iterE {it})")
        self.loop_stack.append(tup)
        body = self.SX(st.body, ind + "      ", f"(Except.ok (Rbacx.PyE.Ctl.next {tup}))", self.no_ret)
        self.loop_stack.pop()
        k = self.SX(rest, ind + "    ", tail, ret)
        NL = chr(10)
        return self.wrap(b, f"Rbacx.PyE.bind (Rbacx.PyE.forLoop {items} {tup} fun {s_} ({ident(x)} : PyVal) => match {s_} with{NL}"
                            f"{ind}    | {tup} =>{NL}{ind}      {body}) fun {s_} => match {s_} with{NL}{ind}  | {tup} =>{NL}{ind}    {k}", ind)

    def inplace(self, st: ast.Expr, rest, ind, tail, ret) -> str:
        c = st.value
        var, kind = self.receiver(c)
        if var not in self.locals:
            raise Unsupported(f"in-place operation on {var}")
        v = ident(var)
        s = self.sh.get(var)
        k = lambda: self.SX(rest, ind, tail, ret)  # noqa: E731
        if kind == "sort":
            lam = c.keywords[0].value
            r = lam.args.args[0].arg
            self.locals.add(r)
            b, a = self.EX(lam.body)
            if b:
                raise Unsupported("a sort key that can raise")
            return f"let {v} := Rbacx.PyI.sortBy {v} (fun ({ident(r)} : PyVal) => {a})\n{ind}{k()}"
        if kind == "setdefault":
            if s != K:
                raise Unsupported("setdefault as a statement on a dict that is not keyed by identities")
            b1, key = self.EX(c.args[0])
            b2, val = self.EX(c.args[1])
            return self.wrap(b1 + b2, f"let {v} := Rbacx.PyI.idSetdefault {v} {key} {val}\n{ind}{k()}", ind)
        if s == K:
            raise Unsupported(f"operation {kind} on an identity-keyed dict")
        if kind == "append":
            b, a = self.EXshaped(c.args[0], s[1] if isinstance(s, tuple) and s[0] == "L" else None)
            term = f"(Rbacx.PyI.appendE {v} {a})"
        elif kind == "add":
            if var not in self.set_vars:
                raise Unsupported(f".add on {var}, which is not bound to set()")
            b, a = self.EX(c.args[0])
            term = f"(Rbacx.PyI.addE {v} {a})"
        elif kind == "append_at":
            es = s[1][1] if isinstance(s, tuple) and s[0] == "L" and isinstance(s[1], tuple) and s[1][0] == "L" else None
            b1, i = self.EX(c.func.value.slice)
            b2, a = self.EXshaped(c.args[0], es)
            b = b1 + b2
            term = f"(Rbacx.PyI.appendAtE {v} {i} {a})"
        else:   # setdefault_append
            es = s[1][1] if isinstance(s, tuple) and s[0] == "D" and isinstance(s[1], tuple) and s[1][0] == "L" else None
            b1, key = self.EX(c.func.value.args[0])
            b2, a = self.EXshaped(c.args[0], es)
            b = b1 + b2
            term = f"(Rbacx.PyI.setdefaultAppendE {v} {key} {a})"
        return self.wrap(b, f"Rbacx.PyE.bind {term} fun {v} =>\n{ind}{k()}", ind)

    def SX(self, stmts, ind, tail, ret) -> str:
        if not stmts:
            return super().SX(stmts, ind, tail, ret)
        st, rest = stmts[0], stmts[1:]
        if isinstance(st, ast.FunctionDef):
            if st.name not in self.closures or self.loop_stack:
                raise Unsupported("nested function definition")
            a = st.args
            if len(a.args) != 1 or a.vararg or a.kwarg or a.kwonlyargs or a.posonlyargs or a.defaults or st.decorator_list:
                raise Unsupported(f"signature of the closure {st.name}")
            return self.SX(rest, ind, tail, ret)
        if isinstance(st, ast.Return) and isinstance(st.value, ast.Name) and st.value.id in self.closures:
            cl = self.closures[st.value.id]
            p = cl.args.args[0].arg
            pre = "" if p == self.cparam else f"let {ident(p)} := {ident(self.cparam)}\n{ind}"
            self.closure_notes.append(f"`return {cl.name}`: the body of the nested `def {cl.name}({p})` inlined, `{p}` = the argument of the returned function")
            return pre + self.SX(list(cl.body), ind, None, ret)
        if isinstance(st, ast.Return) and isinstance(st.value, ast.Lambda):
            lam = st.value
            a = lam.args
            if len(a.args) != 1 or a.vararg or a.kwarg or a.kwonlyargs or a.posonlyargs or a.defaults:
                raise Unsupported("signature of the returned lambda")
            p = a.args[0].arg
            pre = "" if p == self.cparam else f"let {ident(p)} := {ident(self.cparam)}\n{ind}"
            self.closure_notes.append(f"`return lambda {p}: …`: its body, `{p}` = the argument of the returned function")
            b, at = self.EX(lam.body)
            return pre + ret(b, at, ind)
        if isinstance(st, ast.For):
            return self.for_gen(st, rest, ind, tail, ret)
        if isinstance(st, ast.Expr) and isinstance(st.value, ast.Call) and self.receiver(st.value):
            return self.inplace(st, rest, ind, tail, ret)
        if isinstance(st, ast.Assign) and len(st.targets) == 1 and isinstance(st.targets[0], ast.Subscript) \
                and isinstance(st.targets[0].value, ast.Name) and not isinstance(st.targets[0].slice, ast.Constant):
            t = st.targets[0]
            var = t.value.id
            s = self.sh.get(var)
            if s == K or var not in self.locals:
                raise Unsupported(f"item assignment to {var}")
            b1, i = self.EX(t.slice)
            b2, a = self.EXshaped(st.value, s[1] if isinstance(s, tuple) and s[0] == "L" else None)
            return self.wrap(b1 + b2, f"Rbacx.PyE.bind (Rbacx.PyI.setIdxE {ident(var)} {i} {a}) fun {ident(var)} =>\n{ind}{self.SX(rest, ind, tail, ret)}", ind)
        if isinstance(st, (ast.Assign, ast.AnnAssign)) and getattr(st, "value", None) is not None:
            tgt = st.targets[0] if isinstance(st, ast.Assign) and len(st.targets) == 1 else getattr(st, "target", None)
            if isinstance(tgt, ast.Name) and (self.sh.get(tgt.id) is not None):
                b, a = self.EXshaped(st.value, self.sh[tgt.id])
                return self.wrap(b, f"let {ident(tgt.id)} := {a}\n{ind}{self.SX(rest, ind, tail, ret)}", ind)
        if isinstance(st, ast.If) and rest and not _escapes(st.body) and not _escapes(st.orelse) \
                and not any(isinstance(n, (ast.For, ast.FunctionDef)) for b_ in st.body + st.orelse for n in ast.walk(b_)):
            entry = self.da_entry.get(id(st))
            if entry is None:
                raise Unsupported("if statement outside the analysed statements")
            touched = self.touched(st.body + st.orelse)
            vs = [v for v in touched if v in entry]
            if any(_live(list(rest), v) == "read" for v in touched if v not in entry):
                raise Unsupported("a variable first assigned inside an `if` is read after it")
            if vs:
                tup = self.tuple_of(vs)
                b, a = self.EX(st.test)
                t1 = self.SX(st.body, ind + "    ", f"(Except.ok {tup})", self.no_ret)
                t2 = self.SX(st.orelse, ind + "    ", f"(Except.ok {tup})", self.no_ret)
                s_ = self.state_name()
                k = self.SX(rest, ind + "    ", tail, ret)
                return self.wrap(b, f"Rbacx.PyE.bind (if ({a}).truthy then\n{ind}    ({t1})\n{ind}  else\n{ind}    ({t2})) fun {s_} => match {s_} with\n"
                                    f"{ind}  | {tup} =>\n{ind}    {k}", ind)
        return super().SX(stmts, ind, tail, ret)

    # ------------------------------------------------------------------ the function
    def function_c(self, fn: ast.FunctionDef, fns: dict, lean_name: str) -> dict:
        a = fn.args
        if a.vararg or a.kwarg or a.defaults or a.posonlyargs or a.kwonlyargs:
            raise Unsupported(f"signature of {fn.name}")
        self.closures = {n.name: n for n in fn.body if isinstance(n, ast.FunctionDef)}
        returned = [n.value for n in ast.walk(fn) if isinstance(n, ast.Return)]
        inner_returns = {id(n.value) for cl in self.closures.values() for n in ast.walk(cl) if isinstance(n, ast.Return)}
        outer = [r for r in returned if id(r) not in inner_returns]
        if not outer or not all(isinstance(r, ast.Lambda) or (isinstance(r, ast.Name) and r.id in self.closures) for r in outer):
            raise Unsupported(f"{fn.name} must return a nested function or a lambda on every path")
        names = [self.closures[r.id].args.args[0].arg for r in outer if isinstance(r, ast.Name) and len(self.closures[r.id].args.args) == 1] \
            + [r.args.args[0].arg for r in outer if isinstance(r, ast.Lambda) and len(r.args.args) == 1]
        if not names:
            raise Unsupported("the returned closures take no parameter")
        self.cparam = names[0]
        params = [x.arg for x in a.args]
        if self.cparam in params:
            raise Unsupported("the closure's parameter has the name of a parameter of the function")
        all_params = params + [self.cparam]
        self.locals = set(all_params) | {n.id for n in ast.walk(fn) if isinstance(n, ast.Name) and isinstance(n.ctx, ast.Store)} \
            | {x.arg for n in ast.walk(fn) if isinstance(n, (ast.FunctionDef, ast.Lambda)) for x in n.args.args} | set(self.closures)
        self.cur_fn, self.cur_name, self.ntmp, self.fns = fn, fn.name, 0, fns
        self.loop_stack, self.fresh_dicts, self.ranges, self.fragments = [], set(), [], []
        self.cur_group, self.cur_dec = [], False
        self.named = self.find_named(fn) if self.find_named else {}
        self.sh, self.entry, self.da_entry, self.set_vars, self.closure_notes = {}, {}, {}, set(), []
        self.infer_shapes(fn)
        self.check_mutation(fn)
        self.da(fn.body, set(all_params))
        self.cur_oracle = self.str_uses(fn, fns, {fn.name})
        uses = self.ext_uses(fn, fns, {fn.name})
        self.cur_exts = [x for x in self.externals if x in uses]
        self.cur_fuel = self.fuel_uses(fn, fns)
        taken = {"o", "fuel"} | {ident(x) for x in self.externals} | {self.lname(k) for k in self.known} | set(self.named.values()) \
            | {pc["lean"] for pc in self.pure_callees.values()} | {ps["lean"] for ps in self.presigs.values()}
        real_locals = self.locals - set(self.closures)
        clash = sorted(v for v in real_locals if ident(v) in taken or ident(v) == lean_name or ident(v).startswith("t") and ident(v)[1:].isdigit())
        if clash or len({ident(v) for v in real_locals}) != len(real_locals):
            raise Unsupported(f"{fn.name}: variable names clash with names the translation uses: {clash}")
        body = self.SX(list(fn.body), "  ", None, self.plain_ret)
        consts = ""
        for n in ast.walk(fn):
            if isinstance(n, ast.Constant) and id(n) in self.named:
                consts += (f"/-- the string literal `{n.value!r}` of `{fn.name}` (line {n.lineno} of the source), emitted under a name of its own -/\n"
                           f"def {self.named[id(n)]} : String := {lean_str(n.value)}\n\n")
        shapes = ", ".join(f"{v}: {self.show(s)}" for v, s in sorted(self.sh.items()))
        notes = [f"the function `{fn.name}` AND the closure it returns, as one definition: `{self.cparam}` is the argument the returned function is called with",
                 *self.closure_notes,
                 f"objects observed by identity are pairs `Rbacx.PyI.tag i v`, identity = position in the list they enter with (`Rbacx.PyI.tagList`); shapes: {shapes}"]
        if self.cur_oracle:
            notes.append("`o`: the oracle that supplies CPython's `str()` of floats, containers and datetimes")
        for x in self.cur_exts:
            via = [ps["lean"] for f, ps in self.presigs.items() if any(x == y for y, _ in ps["exts"])]
            notes.append(f"`{ident(x)}`: an external parameter of the translated `{via[0] if via else x}`, handed on")
        if self.cur_fuel:
            notes.append("`fuel`: the budget handed on, unchanged, to the recursive functions this one calls")
        doc = "/-- exception-passing translation of " + "; ".join(notes).replace("-/", "- /") + " -/\n"
        head = [lean_name] + (["(o : Oracle)"] if self.cur_oracle else []) + [self.ext_param(x) for x in self.cur_exts] \
            + [f"({ident(p)} : PyVal)" for p in all_params] + (["(fuel : Nat)"] if self.cur_fuel else [])
        text = f"{consts}{doc}def {' '.join(head)} : Except CondErr PyVal :=\n  {body}\n"
        return {"lean": text, "oracle": self.cur_oracle, "externals": [[x, self.ext_arity[x]] for x in self.cur_exts], "fuel": self.cur_fuel,
                "params": all_params, "lean_name": lean_name, "shapes": {v: self.show(s) for v, s in self.sh.items()},
                "named": {nm: next(n.value for n in ast.walk(fn) if id(n) == k_) for k_, nm in self.named.items()}}

    def show(self, s) -> str:
        if isinstance(s, tuple):
            return ("list of " if s[0] == "L" else "dict of ") + self.show(s[1])
        return {"O": "object", "K": "dict keyed by identities"}.get(s, str(s))


def translate(source: str, name: str, lean_name: str, externals: list[str], pure_callees: dict, presigs: dict, named=None) -> dict:
    """the function `name` of `source` and the closure it returns as ONE definition `lean_name` (module docstring)"""
    tree = ast.parse(source)
    fns = {n.name: n for n in tree.body if isinstance(n, ast.FunctionDef)}
    if name not in fns:
        raise Unsupported(f"function {name} not found")
    tr = ClosureTranslator([], pytolean._module_consts(tree), externals, None, pure_callees, presigs, None, named=named)
    try:
        return tr.function_c(copy.deepcopy(fns[name]), fns, lean_name)
    except Unsupported as e:
        raise Unsupported(f"{name}: {e}") from e
