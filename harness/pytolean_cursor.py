"""Extension of harness/pytolean.py for functions that MUTATE A NESTED STRUCTURE THROUGH AN ALIAS (C19: `_ensure_list_size`,
`_set_by_path`, `apply_obligations` of obligations/enforcer.py).  Meanings: `lean/Rbacx/Model/PyCursor.lean` (namespace `Rbacx.PyC`).

THE CURSOR READING.  One variable of a function is THE STATE, a `PyVal` tree, always called `st` in the emitted text.  A CURSOR is a
local that is bound once to the state (`cur = obj`) and afterwards re-bound only by subscripting itself (`cur = cur[p]`,
`cur = cur[key][idx]`): at every moment it denotes a node inside the state and is represented by the ACCESS PATH of that node
(`Rbacx.PyC.Path`, the list of subscripts taken).  Reading through it is `atPath st (cur ++ [subscripts…])`, a store through it
(`cur[k] = v`, `cur[k][i] = v`) is `setAt st (cur ++ […]) k v`, `X.append(v)` is `appendAt st <path of X> v`: functional updates of
the state, each binding a NEW `st`.  Everything that can raise in CPython (a subscript load or store, unpacking, `int()`) is
`Option`-valued and bound in CPython's evaluation order, so every translated function has type `… → Option PyVal` — `none` = an
exception escaped (or a `while` budget ran out) — and its result is the state when it returns.

Function kinds (`FnCfg.kind`); anything outside the stated shapes raises `Unsupported` (reported as a failed extraction):

* `"state_param"` (`_set_by_path(obj, path, value) -> None`): the FIRST parameter is the state; the function returns None (`return`
  / `return None` / running off the end), its translation returns the final state.  It may declare ONE cursor (`cur = <state>`,
  top level) and end in `for i, p in enumerate(<name>): …` carrying state and cursor: `forEnum`, whose body ends in
  `Step.ret st` (`return`: stop, keep the state) or `Step.next st cur` (`continue` / end of the body).  `cur = cur[a][b]` first
  CHECKS the load (`atPath … ≠ none`), then extends the path.
* `"ref_param"` (`_ensure_list_size(lst, idx) -> None`): the first parameter is a REFERENCE into the caller's state — an access path;
  the translation takes `(st) (lst : Path) …` and returns the state.  Called as `f(<cursor chain>, args…)`.
  `while T: body` → `whileO (budget <measure>) st (fun st => T) (fun st => body)`: the MEASURE (a Python expression over the
  function's variables, evaluated before the loop; supplied by the plugin) is the iteration budget; it is not trusted — out of budget
  is `none`, and the obligation proves `some`.
* `"state_local"` (`apply_obligations(payload, obligations, *, in_place) -> dict`): the local `FnCfg.state` is bound ONCE, at top level,
  by `out = <pure expression>` (`copy.deepcopy(x)` is `deepcopy x` = `x`: a value is its own deep copy; a name that occurs in that
  expression may BE the state object afterwards — `payload` with `in_place` — and must not be read again), is used only as the first
  argument of `state_param` calls (`_set_by_path(out, …)`: threads the state) and in the final `return out`.  `for x in E: body`
  without `return`/`break` → `forState (iter E) st (fun x st => body)`.

Statements: assignments of pure expressions to locals; `a, b = E` (`unpack2`); `try: X = int(E) except Exception: <handler>` →
`match intOf E with | none => handler… | some X => …`; `if` (continuation style; an `if` without `else` whose body only stores
through the cursor / calls a helper is `(if c then <stores> else some st).bind fun st => rest` — no duplication);
`return`, `continue`.  Expressions (on top of pytolean's): `len(x)` as a value, `a + b`, `a - b`, `-a` on ints, `s.split("c")`,
`s.split("c", 1)`, `x[:n]`, `copy.deepcopy(x)`, and CURSOR CHAINS `cur`, `cur[a]`, `cur[a][b]` — only inside `if`/`while` tests, the
measure and as the reference argument of a helper; a chain is loaded (bound to a temporary `rdN`) where CPython evaluates it, the
later operands of `and`/`or` lazily (`orE`/`andE`).  A stored value (`cur[k] = v`) must not mention a cursor or the state
(storing a node of the tree a second time would create sharing: outside the tree domain)."""
from __future__ import annotations

import ast
from dataclasses import dataclass, field

import pytolean
from pytolean import Unsupported, ident, lean_str


@dataclass
class FnCfg:
    kind: str                      # "state_param" | "ref_param" | "state_local"
    lean_name: str
    state: str | None = None       # state_local: the local that is the state
    measure: str | None = None     # ref_param / any function with ONE while loop: the budget expression
    notes: list[str] = field(default_factory=list)


def lean_char(c: str) -> str:
    if len(c) != 1 or ord(c) < 32 or ord(c) > 126 or c in "'\\":
        raise Unsupported(f"separator {c!r}")
    return f"'{c}'"


class CursorTranslator(pytolean.Translator):
    def __init__(self, consts: dict, cfgs: dict[str, FnCfg]):
        super().__init__(set(), consts)
        self.cfgs = cfgs
        self.done: dict[str, FnCfg] = {}       # functions already translated (callable)
        self.cursors: set[str] = set()          # python names represented by a Path
        self.state_name: str | None = None
        self.ntmp = 0
        self.loop: str | None = None            # None | "enum" | "state" | "while"
        self.state_aliases: set[str] = set()    # state_local: names that may denote the state object once it is bound
        self.tmp_names: set[str] = set()
        self.cursor_declared = False

    # ------------------------------------------------------------------ cursor chains
    def chain(self, e: ast.expr) -> tuple[str, list[ast.expr]] | None:
        """(root cursor, [subscripts…]) when `e` is `cur`, `cur[a]`, `cur[a][b]`, …"""
        subs: list[ast.expr] = []
        while isinstance(e, ast.Subscript) and not isinstance(e.slice, ast.Slice):
            subs.append(e.slice)
            e = e.value
        if isinstance(e, ast.Name) and e.id in self.cursors:
            return e.id, list(reversed(subs))
        return None

    def has_chain(self, e: ast.AST) -> bool:
        return any(isinstance(n, ast.Name) and n.id in self.cursors for n in ast.walk(e))

    def pure(self, e: ast.expr, what: str) -> str:
        """an expression that mentions neither a cursor nor the state"""
        for n in ast.walk(e):
            if isinstance(n, ast.Name) and (n.id in self.cursors or n.id == self.state_name):
                raise Unsupported(f"{what} mentions the cursor/state variable {n.id}: {ast.unparse(e)[:60]}")
        return self.E(e)

    def path_of(self, root: str, subs: list[ast.expr]) -> str:
        if not subs:
            return ident(root)
        return f"({ident(root)} ++ [" + ", ".join(self.pure(s, "a subscript") for s in subs) + "])"

    def fresh(self) -> str:
        self.ntmp += 1
        name = f"rd{self.ntmp}"
        if name in self.locals:
            raise Unsupported(f"the source uses the name {name}")
        return name

    def lift(self, e: ast.expr, binds: list[tuple[str, str]]) -> ast.expr:
        """`e` with every cursor chain replaced by a temporary; the loads go to `binds` in evaluation order"""
        ch = self.chain(e)
        if ch is not None:
            t = self.fresh()
            binds.append((t, f"Rbacx.PyC.atPath st {self.path_of(*ch)}"))
            self.tmp_names.add(t)
            return ast.Name(t, ast.Load())
        if isinstance(e, ast.BoolOp) and any(self.has_chain(v) for v in e.values[1:]):
            first = self.lift(e.values[0], binds)
            rest = e.values[1] if len(e.values) == 2 else ast.BoolOp(e.op, e.values[1:])
            op = "orE" if isinstance(e.op, ast.Or) else "andE"
            t = self.fresh()
            binds.append((t, f"Rbacx.PyC.{op} {self.E(first)} fun _ =>\n          {self.EO(rest, '          ')}"))
            self.tmp_names.add(t)
            return ast.Name(t, ast.Load())
        if isinstance(e, (ast.Name, ast.Constant)):
            return e
        if isinstance(e, (ast.ListComp, ast.SetComp, ast.GeneratorExp, ast.DictComp, ast.Lambda)):
            if self.has_chain(e):
                raise Unsupported("a cursor inside a comprehension")
            return e
        new = type(e)(**{k: v for k, v in ast.iter_fields(e)})
        for k, v in ast.iter_fields(e):
            if isinstance(v, ast.expr):
                setattr(new, k, self.lift(v, binds))
            elif isinstance(v, list):
                setattr(new, k, [self.lift(x, binds) if isinstance(x, ast.expr) else x for x in v])
        return ast.copy_location(new, e)

    def EO(self, e: ast.expr, ind: str) -> str:
        """`e` as a term of type `Option PyVal` (loads bound first)"""
        binds: list[tuple[str, str]] = []
        term = self.E(self.lift(e, binds))
        return self.binds(binds, ind) + f"some {term}"

    @staticmethod
    def binds(binds: list[tuple[str, str]], ind: str) -> str:
        return "".join(f"({x}).bind fun ({t} : PyVal) =>\n{ind}" for t, x in binds)

    # ------------------------------------------------------------------ expressions
    def E(self, e: ast.expr) -> str:
        if isinstance(e, ast.Name):
            if e.id in self.cursors or (e.id == self.state_name):
                raise Unsupported(f"the cursor/state variable {e.id} used as a value")
            if e.id in self.state_aliases:
                raise Unsupported(f"{e.id} may alias the state (it occurs in the expression the state was bound to) and is read afterwards")
            if e.id in self.tmp_names:
                return e.id
            return super().E(e)
        if isinstance(e, ast.UnaryOp) and isinstance(e.op, ast.USub):
            if isinstance(e.operand, ast.Constant) and isinstance(e.operand.value, int) and not isinstance(e.operand.value, bool):
                return f"(PyVal.int (-{e.operand.value}))"
            return f"(Rbacx.PyC.neg {self.E(e.operand)})"
        if isinstance(e, ast.BinOp) and isinstance(e.op, (ast.Add, ast.Sub)):
            return f"(Rbacx.PyC.{'add' if isinstance(e.op, ast.Add) else 'sub'} {self.E(e.left)} {self.E(e.right)})"
        if isinstance(e, ast.Subscript) and isinstance(e.slice, ast.Slice):
            s = e.slice
            n = s.upper
            if s.lower is not None or s.step is not None or n is None:
                raise Unsupported(f"slice {ast.unparse(e)}")
            if isinstance(n, ast.UnaryOp) and isinstance(n.op, ast.USub) and isinstance(n.operand, ast.Constant) and type(n.operand.value) is int:
                k = -n.operand.value
            elif isinstance(n, ast.Constant) and type(n.value) is int:
                k = n.value
            else:
                raise Unsupported(f"slice {ast.unparse(e)}")
            return f"(Rbacx.PyC.sliceTo {self.E(e.value)} ({k}))"
        if isinstance(e, ast.Call) and not e.keywords:
            f = e.func
            if isinstance(f, ast.Name) and f.id == "len" and f.id not in self.locals and len(e.args) == 1:
                return f"(Rbacx.PyC.lenV {self.E(e.args[0])})"
            if isinstance(f, ast.Attribute) and f.attr == "split" and e.args and isinstance(e.args[0], ast.Constant) \
                    and isinstance(e.args[0].value, str):
                if len(e.args) == 1:
                    return f"(Rbacx.PyC.splitChar {self.E(f.value)} {lean_char(e.args[0].value)})"
                if len(e.args) == 2 and isinstance(e.args[1], ast.Constant) and e.args[1].value == 1 and type(e.args[1].value) is int:
                    return f"(Rbacx.PyC.splitChar1 {self.E(f.value)} {lean_char(e.args[0].value)})"
            if isinstance(f, ast.Attribute) and f.attr == "deepcopy" and isinstance(f.value, ast.Name) and f.value.id == "copy" \
                    and "copy" not in self.locals and len(e.args) == 1:
                return f"(Rbacx.PyC.deepcopy {self.E(e.args[0])})"
        return super().E(e)

    # ------------------------------------------------------------------ statements
    def tail(self) -> str:
        return "some (Rbacx.PyC.Step.next st cur)".replace("cur", ident(self.the_cursor)) if self.loop == "enum" else "some st"

    def is_store(self, st: ast.stmt) -> bool:
        """a statement that only changes the state: a store through a cursor, `.append` through one, a helper / state-function call"""
        if isinstance(st, ast.Assign) and len(st.targets) == 1 and isinstance(st.targets[0], ast.Subscript):
            return self.chain(st.targets[0].value) is not None
        if isinstance(st, ast.Expr) and isinstance(st.value, ast.Call):
            c = st.value
            if isinstance(c.func, ast.Attribute) and c.func.attr == "append" and self.chain(c.func.value) is not None:
                return True
            if isinstance(c.func, ast.Name) and c.func.id in self.done:
                return True
        return False

    def store(self, st: ast.stmt) -> str:
        """the `Option PyVal` term of a state-changing statement (the new state)"""
        if isinstance(st, ast.Assign):
            tgt = st.targets[0]
            root, subs = self.chain(tgt.value)
            if isinstance(tgt.slice, ast.Slice):
                raise Unsupported("slice assignment")
            return f"Rbacx.PyC.setAt st {self.path_of(root, subs)} {self.pure(tgt.slice, 'a subscript')} {self.pure(st.value, 'a stored value')}"
        c = st.value
        if isinstance(c.func, ast.Attribute):
            if len(c.args) != 1 or c.keywords:
                raise Unsupported(ast.unparse(c)[:60])
            root, subs = self.chain(c.func.value)
            return f"Rbacx.PyC.appendAt st {self.path_of(root, subs)} {self.pure(c.args[0], 'an appended value')}"
        cfg = self.done[c.func.id]
        if c.keywords or not c.args or any(isinstance(a, ast.Starred) for a in c.args):
            raise Unsupported(f"call {ast.unparse(c)[:60]}")
        rest = " ".join(self.pure(a, "an argument") for a in c.args[1:])
        if cfg.kind == "ref_param":
            ch = self.chain(c.args[0])
            if ch is None:
                raise Unsupported(f"{c.func.id}: the reference argument must be a cursor or a subscript of one: {ast.unparse(c.args[0])}")
            path = self.path_of(*ch)
            # CPython evaluates the argument (a load that can raise) before the call
            return f"(Rbacx.PyC.atPath st {path}).bind fun (_ : PyVal) =>\n          {ident(cfg.lean_name)} st {path} {rest}"
        if cfg.kind == "state_param":
            if not (isinstance(c.args[0], ast.Name) and c.args[0].id == self.state_name):
                raise Unsupported(f"{c.func.id}: the first argument must be the state variable")
            return f"{ident(cfg.lean_name)} st {rest}"
        raise Unsupported(f"call of {c.func.id} as a statement")

    def block(self, stmts: list[ast.stmt], ind: str) -> str:
        out = ""
        for s in stmts:
            out += f"({self.store(s)}).bind fun (st : PyVal) =>\n{ind}"
        return out + "some st"

    def SC(self, stmts: list[ast.stmt], ind: str) -> str:
        if not stmts:
            return self.tail()
        st, rest = stmts[0], stmts[1:]
        if isinstance(st, ast.Pass) or (isinstance(st, ast.Expr) and isinstance(st.value, ast.Constant) and isinstance(st.value.value, str)):
            return self.SC(rest, ind)
        if isinstance(st, ast.Continue):
            if self.loop not in ("enum", "state"):
                raise Unsupported("continue outside a for loop")
            return self.tail()
        if isinstance(st, ast.Return):
            v = st.value
            if self.loop == "enum":
                if not (v is None or (isinstance(v, ast.Constant) and v.value is None)):
                    raise Unsupported("return of a value inside the cursor loop")
                return "some (Rbacx.PyC.Step.ret st)"
            if self.loop is not None:
                raise Unsupported("return inside a loop")
            if self.kind == "state_local":
                if not (isinstance(v, ast.Name) and v.id == self.state_name):
                    raise Unsupported("a state_local function must return its state variable")
            elif not (v is None or (isinstance(v, ast.Constant) and v.value is None)):
                raise Unsupported("return of a value")
            return "some st"
        if self.is_store(st):
            return f"({self.store(st)}).bind fun (st : PyVal) =>\n{ind}{self.SC(rest, ind)}"
        if isinstance(st, ast.Assign) and len(st.targets) == 1:
            tgt, v = st.targets[0], st.value
            if isinstance(tgt, ast.Tuple) and len(tgt.elts) == 2 and all(isinstance(x, ast.Name) for x in tgt.elts):
                a, b = tgt.elts[0].id, tgt.elts[1].id
                if a == b or {a, b} & (self.cursors | {self.state_name}):
                    raise Unsupported("unpacking targets")
                return (f"(Rbacx.PyC.unpack2 {self.pure(v, 'an unpacked value')}).bind fun (({ident(a)}, {ident(b)}) : PyVal × PyVal) =>\n"
                        f"{ind}{self.SC(rest, ind)}")
            if isinstance(tgt, ast.Name):
                if tgt.id in self.cursors:
                    ch = self.chain(v)
                    if isinstance(v, ast.Name) and v.id == self.state_name:
                        if self.loop is not None or self.cursor_declared:
                            raise Unsupported("the cursor must be bound to the state once, at top level")
                        self.cursor_declared = True
                        return f"let {ident(tgt.id)} : Rbacx.PyC.Path := []\n{ind}{self.SC(rest, ind)}"
                    if ch is None or ch[0] != tgt.id or not ch[1] or not self.cursor_declared:
                        raise Unsupported(f"a cursor may only be re-bound by subscripting itself: {ast.unparse(st)[:60]}")
                    path = self.path_of(*ch)
                    return (f"(Rbacx.PyC.atPath st {path}).bind fun (_ : PyVal) =>\n{ind}let {ident(tgt.id)} : Rbacx.PyC.Path := {path}\n"
                            f"{ind}{self.SC(rest, ind)}")
                if tgt.id == self.state_name:
                    if self.kind != "state_local" or self.loop is not None or self.state_bound:
                        raise Unsupported("the state variable is bound more than once / inside a loop")
                    saved, self.state_name = self.state_name, None      # the defining expression may not mention it anyway
                    try:
                        val = self.E(v)
                    finally:
                        self.state_name = saved
                    self.state_bound = True
                    # whatever the defining expression mentions may BE the state object from here on (`out = payload if in_place …`)
                    self.state_aliases = {n.id for n in ast.walk(v) if isinstance(n, ast.Name) and n.id in self.locals}
                    return f"let st := {val}\n{ind}{self.SC(rest, ind)}"
                return f"let {ident(tgt.id)} := {self.pure(v, 'an assigned value')}\n{ind}{self.SC(rest, ind)}"
            raise Unsupported(f"assignment {ast.unparse(st)[:60]}")
        if isinstance(st, ast.Try):
            ok = (len(st.body) == 1 and not st.orelse and not st.finalbody and len(st.handlers) == 1
                  and isinstance(st.handlers[0].type, ast.Name) and st.handlers[0].type.id == "Exception" and st.handlers[0].name is None)
            a = st.body[0] if ok else None
            ok = ok and isinstance(a, ast.Assign) and len(a.targets) == 1 and isinstance(a.targets[0], ast.Name) \
                and isinstance(a.value, ast.Call) and isinstance(a.value.func, ast.Name) and a.value.func.id == "int" \
                and "int" not in self.locals and len(a.value.args) == 1 and not a.value.keywords
            if not ok:
                raise Unsupported("try statement: only `try: X = int(E) except Exception: <handler>` is translated")
            x = a.targets[0].id
            arg = a.value.args[0]
            for n in ast.walk(arg):
                # the argument must be total (so that the only thing the handler can catch is int()'s own error)
                if isinstance(n, ast.Call) or (isinstance(n, ast.Subscript) and not isinstance(n.slice, ast.Slice)):
                    raise Unsupported("try body: the argument of int() must be a name or a slice of one")
            for h in st.handlers[0].body:
                if any(isinstance(n, ast.Name) and n.id == x for n in ast.walk(h)):
                    raise Unsupported("the handler mentions the variable the try body assigns")
            hb = self.SC(st.handlers[0].body + rest, ind + "  ")
            return (f"match Rbacx.PyC.intOf {self.pure(arg, 'the argument of int()')} with\n{ind}| none =>\n{ind}  ({hb})\n"
                    f"{ind}| some {ident(x)} =>\n{ind}{self.SC(rest, ind)}")
        if isinstance(st, ast.If):
            binds: list[tuple[str, str]] = []
            test = self.E(self.lift(st.test, binds))
            head = self.binds(binds, ind)
            if st.body and all(self.is_store(s) for s in st.body) and all(self.is_store(s) for s in st.orelse):
                a = self.block(st.body, ind + "    ")
                b = self.block(st.orelse, ind + "    ")
                return (f"{head}(if ({test}).truthy then\n{ind}    {a}\n{ind}  else\n{ind}    {b}).bind fun (st : PyVal) =>\n"
                        f"{ind}{self.SC(rest, ind)}")
            a = self.SC(st.body + rest, ind + "  ")
            b = self.SC(st.orelse + rest, ind + "  ")
            return f"{head}if ({test}).truthy then\n{ind}  {a}\n{ind}else\n{ind}  {b}"
        if isinstance(st, ast.For):
            return self.for_loop(st, rest, ind)
        if isinstance(st, ast.While):
            return self.while_loop(st, rest, ind)
        raise Unsupported(f"statement {ast.unparse(st)[:60]}")

    def for_loop(self, st: ast.For, rest: list[ast.stmt], ind: str) -> str:
        if st.orelse:
            raise Unsupported("for/else")
        if any(isinstance(n, (ast.Break, ast.While)) for b in st.body for n in ast.walk(b)):
            raise Unsupported("break / while inside a for loop")
        it = st.iter
        i2 = ind + "  "
        if isinstance(it, ast.Call) and isinstance(it.func, ast.Name) and it.func.id == "enumerate" and "enumerate" not in self.locals:
            if self.kind != "state_param" or self.loop is not None or rest or not self.cursor_declared:
                raise Unsupported("the enumerate loop must be the last statement of a state_param function, after the cursor is bound")
            if len(it.args) != 1 or it.keywords or not isinstance(it.args[0], ast.Name) or not isinstance(st.target, ast.Tuple) \
                    or len(st.target.elts) != 2 or not all(isinstance(x, ast.Name) for x in st.target.elts):
                raise Unsupported("only `for i, x in enumerate(<name>):`")
            i, x = st.target.elts[0].id, st.target.elts[1].id
            assigned = set(self._stores(st.body))
            if i == x or {i, x} & (assigned | self.cursors | {self.state_name}):
                raise Unsupported("loop targets")
            cur = ident(self.the_cursor)
            self.loop = "enum"
            try:
                body = self.SC(st.body, i2)
            finally:
                self.loop = None
            return (f"Rbacx.PyC.forEnum (Rbacx.Py.iter {self.pure(it.args[0], 'the iterated list')}) st {cur} fun ({ident(i)} : PyVal) ({ident(x)} : PyVal) "
                    f"(st : PyVal) ({cur} : Rbacx.PyC.Path) =>\n{i2}{body}")
        if not isinstance(st.target, ast.Name) or st.target.id in self.cursors | {self.state_name}:
            raise Unsupported("for target")
        if self.cursor_declared or self.loop not in (None, "state"):
            raise Unsupported("a plain for loop in a function with a cursor / inside a cursor loop")
        if any(isinstance(n, ast.Return) for b in st.body for n in ast.walk(b)):
            raise Unsupported("return inside a for loop that carries the state")
        if st.target.id in self._stores(st.body):
            raise Unsupported("the loop body assigns the loop target")
        seq = self.pure(it, "the iterated expression")
        saved, self.loop = self.loop, "state"
        try:
            body = self.SC(st.body, i2)
        finally:
            self.loop = saved
        return (f"(Rbacx.PyC.forState (Rbacx.Py.iter {seq}) st fun ({ident(st.target.id)} : PyVal) (st : PyVal) =>\n{i2}{body}).bind fun (st : PyVal) =>\n"
                f"{ind}{self.SC(rest, ind)}")

    def while_loop(self, st: ast.While, rest: list[ast.stmt], ind: str) -> str:
        if st.orelse or self.loop is not None:
            raise Unsupported("while/else or a nested loop")
        if self.cfg.measure is None:
            raise Unsupported("a while loop needs a measure expression (FnCfg.measure)")
        if not st.body or not all(self.is_store(s) for s in st.body):
            raise Unsupported("the body of a while loop may only store through the reference / cursor")
        if sum(isinstance(n, ast.While) for n in ast.walk(self.cur_fn)) != 1:
            raise Unsupported("more than one while loop")
        m = ast.parse(self.cfg.measure, mode="eval").body
        binds: list[tuple[str, str]] = []
        measure = self.E(self.lift(m, binds))
        head = self.binds(binds, ind)
        i2 = ind + "    "
        cond = self.EO(st.test, i2)
        self.loop = "while"
        try:
            body = self.block(st.body, i2)
        finally:
            self.loop = None
        self.notes.append(f"`while {ast.unparse(st.test)}`: iteration budget `{self.cfg.measure}` (evaluated before the loop; not trusted: "
                          f"out of budget is `none`)")
        return (f"{head}(Rbacx.PyC.whileO (Rbacx.PyC.budget {measure}) st\n{ind}  (fun (st : PyVal) =>\n{i2}{cond})\n{ind}  (fun (st : PyVal) =>\n{i2}{body})"
                f").bind fun (st : PyVal) =>\n{ind}{self.SC(rest, ind)}")

    # ------------------------------------------------------------------ functions
    def function(self, fn: ast.FunctionDef, cfg: FnCfg) -> str:
        a = fn.args
        if a.vararg or a.kwarg or a.posonlyargs or a.defaults or fn.decorator_list:
            raise Unsupported(f"signature of {fn.name}")
        allargs = [x.arg for x in a.args + a.kwonlyargs]
        self.cfg, self.kind, self.cur_fn = cfg, cfg.kind, fn
        self.locals = set(allargs) | {n.id for n in ast.walk(fn) if isinstance(n, ast.Name) and isinstance(n.ctx, ast.Store)}
        self.tmp_names: set[str] = set()
        self.ntmp, self.loop, self.notes = 0, None, []
        self.cursor_declared, self.state_bound = False, False
        self.state_aliases: set[str] = set()
        notes = list(cfg.notes)
        for x, d in zip(a.kwonlyargs, a.kw_defaults):
            if d is not None:
                if not isinstance(d, ast.Constant):
                    raise Unsupported(f"default of keyword-only parameter {x.arg}")
                notes.append(f"keyword-only parameter `{x.arg}` (default `{d.value!r}`) is an ordinary parameter here: callers pass it")
        if cfg.kind in ("state_param", "ref_param"):
            if not a.args:
                raise Unsupported(f"{fn.name} has no first parameter")
            first, others = allargs[0], allargs[1:]
        else:
            first, others = None, allargs
        self.cursors, self.state_name, self.the_cursor = set(), None, None
        if cfg.kind == "state_param":
            self.state_name = first
            # the cursor: a local assigned from the state
            cands = [n.targets[0].id for n in ast.walk(fn) if isinstance(n, ast.Assign) and len(n.targets) == 1 and isinstance(n.targets[0], ast.Name)
                     and isinstance(n.value, ast.Name) and n.value.id == first]
            if len(set(cands)) > 1:
                raise Unsupported("more than one cursor")
            if cands:
                self.the_cursor = cands[0]
                self.cursors = {cands[0]}
            for n in ast.walk(fn):
                if isinstance(n, ast.Name) and n.id == first and isinstance(n.ctx, ast.Store):
                    raise Unsupported("the state parameter is re-bound")
        elif cfg.kind == "ref_param":
            self.cursors = {first}
            for n in ast.walk(fn):
                if isinstance(n, ast.Name) and n.id == first and isinstance(n.ctx, ast.Store):
                    raise Unsupported("the reference parameter is re-bound")
        elif cfg.kind == "state_local":
            if cfg.state is None or cfg.state in allargs or cfg.state not in self.locals:
                raise Unsupported(f"state variable {cfg.state} of {fn.name}")
            self.state_name = cfg.state
        else:
            raise Unsupported(f"function kind {cfg.kind}")
        taken = [ident(v) for v in self.locals]
        if "st" in taken or len(set(taken)) != len(taken) or ident(cfg.lean_name) in taken or any(t.startswith("rd") and t[2:].isdigit() for t in taken):
            raise Unsupported("variable names clash after renaming (st, rdN are reserved)")
        if any(isinstance(n, (ast.Global, ast.Nonlocal, ast.Lambda, ast.FunctionDef, ast.AsyncFunctionDef, ast.With, ast.Raise, ast.AugAssign, ast.Delete,
                              ast.NamedExpr, ast.Break, ast.Yield, ast.YieldFrom, ast.Await))
               for b in fn.body for n in ast.walk(b)):
            raise Unsupported(f"{fn.name}: a statement kind outside the cursor subset")
        body = self.SC(fn.body, "  ")
        if cfg.kind == "state_local" and not self.state_bound:
            raise Unsupported("the state variable is never bound")
        if cfg.kind == "state_param":
            params = ["(st : PyVal)"] + [f"({ident(x)} : PyVal)" for x in others]
            notes.insert(0, f"`st`: the state = the tree the parameter `{first}` refers to; result: the state when the function returns "
                            f"(`none` = an exception escaped)" + (f"; `{self.the_cursor}`: a cursor = access path into the state" if self.the_cursor else ""))
        elif cfg.kind == "ref_param":
            params = ["(st : PyVal)", f"({ident(first)} : Rbacx.PyC.Path)"] + [f"({ident(x)} : PyVal)" for x in others]
            notes.insert(0, f"`{first}` is a REFERENCE into the caller's state `st`: its access path; result: the state when the function returns")
        else:
            params = [f"({ident(x)} : PyVal)" for x in others]
            notes.insert(0, f"`st`: the local `{cfg.state}` (the state); result: the value returned (`none` = an exception escaped)")
        notes += self.notes
        doc = "/-- " + "; ".join(notes).replace("-/", "- /") + " -/\n"
        self.done[fn.name] = cfg
        return f"{doc}def {ident(cfg.lean_name)} {' '.join(params)} : Option PyVal :=\n  {body}\n"


def translate(source: str, cfgs: dict[str, FnCfg]) -> dict[str, str]:
    """{python function name: Lean definition} in the order of `cfgs` (callees first)"""
    tree = ast.parse(source)
    fns = {n.name: n for n in tree.body if isinstance(n, ast.FunctionDef)}
    tr = CursorTranslator(pytolean._module_consts(tree), cfgs)
    out: dict[str, str] = {}
    for name, cfg in cfgs.items():
        if name not in fns:
            raise Unsupported(f"function {name} not found")
        out[name] = tr.function(fns[name], cfg)
    return out


if __name__ == "__main__":
    import sys
    src = open(sys.argv[1], encoding="utf-8").read()
    cfgs = {"_ensure_list_size": FnCfg("ref_param", "ensure_list_size", measure="idx + 1 - len(lst)"),
            "_set_by_path": FnCfg("state_param", "set_by_path"),
            "apply_obligations": FnCfg("state_local", "apply_obligations", state="out")}
    for k, v in translate(src, cfgs).items():
        print(v)
