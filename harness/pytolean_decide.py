"""The DECISION DISPATCH and the CONSTRUCTOR of `Guard` → Lean (on top of harness/pytolean_proto.py, whose emitted text is unchanged).

Made for `Guard._decide_async` and `Guard.__init__` (core/engine.py; C09, C01, C03): "compiled function if there is one; if it raises,
fall back; `"policies" in self.policy` ⇒ policy-set evaluator, else single-policy evaluator", and the initial values of the fields with the
first `_recompute_etag()`.

Everything pytolean_proto reads is read the same way here (CPS over the block stack, externals as OUTCOME parameters split at the point
of the call, `try/except Exception/finally`, `Res` = (out, trace), `self.<attr>` occurrence inputs, spliced methods).  ADDED readings, all
syntax-directed (anything else raises `Unsupported`):

* `await asyncio.to_thread(F, a₁ … aₙ)` is an external call of arity n (`DCfg.threads`): for a module-level name `F` the parameter
  configured for it (`decide_policyset`, `decide_policy` — the function run on a worker thread; the parameter is its OUTCOME on the
  arguments: `some v` returned, `none` raised — `to_thread` re-raises the function's exception in the awaiting coroutine); for a LOCAL
  variable `F` the parameter configured under `"<local>"`, applied to the VALUE of `F` and the arguments (`run_compiled fn env`: the callable
  is opaque, the parameter says what calling it does).
* `X = asyncio.get_running_loop()` (`DCfg.loop_calls`) is left out: inside a running coroutine it returns the running loop and does not
  raise; `X` is a token: it may be used only as the argument of `<ContextVar>.set(X)` (pytolean_proto's reading of context variables).
* `if "<str literal>" in E:` with `E` a total expression is a RAISING point: `Rbacx.PyD.strIn k E` is `some b` on the containers of the
  value universe (dict: key present; list: an equal element; str: substring) and `none` = `TypeError` elsewhere (`None`, numbers) — the
  `none` branch unwinds like a raising external.
* `V = X or C()` with `C()` an arity-0 external (`BasicObligationChecker()`): `X` when truthy, else the outcome of the constructor call.
* a top-level `try` statement of the method that mentions neither `self` nor any variable used elsewhere in the method and calls only
  `asyncio.<f>(…)` / `logger.<m>(…)` (`DCfg.provisioning`; the event-loop provisioning of `__init__`) is left out: it assigns no field and
  its innermost handler is `except Exception:`; an exception of another class escaping `asyncio.get_event_loop()` is outside the reading.
* a method with keyword-only parameters and defaults (`__init__`): the parameters are the inputs, in signature order; the DEFAULTS are not
  part of the translation (callers pass every argument; the defaults are listed in the doc comment).

`as_python` is pytolean_proto's, with the same preparation."""
from __future__ import annotations

import ast
import copy

import pytolean_async as pa
import pytolean_proto as pp
from pytolean import Unsupported, ident, lean_str

Ext, Target, MethodRef = pp.Ext, pp.Target, pp.MethodRef


class DCfg(pp.Cfg):
    def __init__(self, threads: dict | None = None, loop_calls: tuple = ("asyncio.get_running_loop",), provisioning: bool = False,
                 str_in: bool = True, **kw):
        super().__init__(**kw)
        self.threads = dict(threads or {})          # module-level function name | "<local>" → Ext
        self.loop_calls = tuple(loop_calls)
        self.provisioning = provisioning
        self.str_in = str_in
        # the thread externals take part in the signature like any other external (parameter order = configuration order)
        for name, x in self.threads.items():
            self.externals[f"asyncio.to_thread:{name}"] = x


def _find_method_any(tree: ast.Module, designator: str):
    """like pytolean_proto.find_method, but keyword-only parameters and defaults are accepted: the parameters become plain ones"""
    cls, name = designator.split(".", 1)
    hits = [n for n in tree.body if isinstance(n, ast.ClassDef) and n.name == cls]
    if len(hits) != 1:
        raise Unsupported(f"class {cls} not found")
    fns = [n for n in hits[0].body if isinstance(n, (ast.FunctionDef, ast.AsyncFunctionDef)) and n.name == name]
    if len(fns) != 1:
        raise Unsupported(f"method {designator} not found")
    fn = fns[0]
    a = fn.args
    if a.vararg or a.kwarg or a.posonlyargs or not a.args or a.args[0].arg != "self" or fn.decorator_list:
        raise Unsupported(f"signature of {designator}")
    return fn


def defaults_of(fn) -> dict:
    a = fn.args
    out = {}
    for arg, d in zip(a.args[len(a.args) - len(a.defaults):], a.defaults):
        out[arg.arg] = ast.unparse(d)
    for arg, d in zip(a.kwonlyargs, a.kw_defaults):
        if d is not None:
            out[arg.arg] = ast.unparse(d)
    return out


def prepare(source: str, target: Target, cfg):
    """pytolean_proto._prepare for a whole method whose signature may have keyword-only parameters / defaults"""
    if target.kind == "range":
        return pp._prepare(source, target, cfg)
    tree = ast.parse(source)
    fn = _find_method_any(tree, target.designator)
    flat = copy.copy(fn)
    flat.args = ast.arguments(posonlyargs=[], args=list(fn.args.args) + list(fn.args.kwonlyargs), vararg=None, kwonlyargs=[], kw_defaults=[],
                              kwarg=None, defaults=[])
    cls = target.designator.split(".", 1)[0]
    spliced = {}
    for m in target.splice:
        callee, cstatic = pp.find_method(tree, f"{cls}.{m}")
        if cstatic or len(callee.args.args) != 1 or any(isinstance(n, (ast.Return, ast.Yield, ast.YieldFrom, ast.Await)) for n in ast.walk(callee)):
            raise Unsupported(f"{cls}.{m} cannot be spliced (parameters, return or await)")
        own = set(pp._stored_names([flat])) | {a.arg for a in flat.args.args}
        mapping = {v: f"{m}__{v}" for v in pp._stored_names(callee.body) if v in own}
        spliced[m] = [pp._Rename(mapping).visit(copy.deepcopy(st)) for st in callee.body]
    return tree, flat, False, list(flat.body), [], [], spliced


class _SigOrdered(list):
    """the plain inputs of a whole method, kept in SIGNATURE order whatever the order of first read (a harmless reordering of
    statements does not permute the parameters of the Lean definition)"""

    def __init__(self, order: list[str]):
        super().__init__()
        self.order = list(order)

    def append(self, v):
        super().append(v)
        self.sort(key=lambda x: self.order.index(x) if x in self.order else len(self.order))


class DecideTranslator(pp.ProtoTranslator):
    def __init__(self, tree, cfg, target, fn, static, spliced):
        super().__init__(tree, cfg, target, fn, static, spliced)
        if target.kind != "range":
            self.plain_inputs = _SigOrdered([a.arg for a in fn.args.args])

    # the assigned attributes (= the components of `out` of a `method` target): those the configuration declares (`Target.attrs`) first, in
    # the DECLARED order, then the others in order of first assignment — a harmless reordering of assignments does not permute `out`
    @property
    def out_attrs(self):
        return self._out_attrs

    @out_attrs.setter
    def out_attrs(self, v):
        declared = [a for a in self.target.attrs if a in v]
        self._out_attrs = declared + [a for a in v if a not in declared]

    # ------------------------------------------------------------------ expressions
    def _str_in(self, e: ast.expr):
        if self.pcfg.str_in and isinstance(e, ast.Compare) and len(e.ops) == 1 and isinstance(e.ops[0], ast.In) \
                and isinstance(e.left, ast.Constant) and isinstance(e.left.value, str) and self.total(e.comparators[0]):
            return e.left.value, e.comparators[0]
        return None

    def _ctor0(self, e: ast.expr):
        if isinstance(e, ast.Call) and not e.args and not e.keywords:
            x = self.pcfg.externals.get(ast.unparse(e.func))
            if x is not None and x.arity == 0:
                return x
        return None

    def external(self, e: ast.AST):
        inner = e.value if isinstance(e, ast.Await) else None
        if isinstance(inner, ast.Call) and ast.unparse(inner.func) == "asyncio.to_thread":
            if inner.keywords or not inner.args or any(isinstance(a, ast.Starred) for a in inner.args) or not isinstance(inner.args[0], ast.Name):
                raise Unsupported(f"{ast.unparse(inner)[:80]}: only `await asyncio.to_thread(<name>, positional arguments…)`")
            f = inner.args[0].id
            rest = inner.args[1:]
            if f in self.locals:
                x = self.pcfg.threads.get("<local>")
                if x is None:
                    raise Unsupported(f"{ast.unparse(inner)[:80]}: no parameter is configured for running a local callable on a thread")
                args = [self.P(inner.args[0])] + [self.P(a) for a in rest]
                self.note(f"`await asyncio.to_thread({f}, …)` with the local `{f}`: `{x.param} <value of {f}> args` = the OUTCOME of calling that value on a worker thread")
            else:
                x = self.pcfg.threads.get(f)
                if x is None:
                    raise Unsupported(f"{ast.unparse(inner)[:80]}: {f} is not one of the functions configured for asyncio.to_thread ({sorted(self.pcfg.threads)})")
                args = [self.P(a) for a in rest]
                self.note(f"`await asyncio.to_thread({f}, …)`: `{x.param} args` = the OUTCOME of `{f}(args)` (to_thread re-raises the function's exception)")
            if len(args) != x.arity:
                raise Unsupported(f"{ast.unparse(inner)[:80]}: expected {x.arity} argument(s) for {x.param}")
            self.used.add(x.param)
            return "(" + " ".join([x.param] + args) + ")", x.effect, args
        if isinstance(e, ast.BoolOp) and isinstance(e.op, ast.Or) and len(e.values) == 2 and self._ctor0(e.values[1]) is not None \
                and self.total(e.values[0]):
            x = self._ctor0(e.values[1])
            left = self.P(e.values[0])
            self.used.add(x.param)
            self.note(f"`X or {ast.unparse(e.values[1])}`: `X` when truthy, else the outcome of the constructor call `{x.param}`")
            return f"(if ({left}).truthy then Option.some {left} else {x.param})", None, []
        return super().external(e)

    # ------------------------------------------------------------------ statements
    def _is_provisioning(self, st: ast.stmt) -> bool:
        if not (self.pcfg.provisioning and isinstance(st, ast.Try) and any(st is s for s in self.fn.body)):
            return False
        inside = {id(n) for n in ast.walk(st)}
        names_in = {n.id for n in ast.walk(st) if isinstance(n, ast.Name)}
        if "self" in names_in:
            return False
        stored = set(pp._stored_names([st]))
        elsewhere = {n.id for n in ast.walk(self.fn) if isinstance(n, ast.Name) and id(n) not in inside}
        if stored & elsewhere:
            return False
        for n in ast.walk(st):
            if isinstance(n, ast.Call):
                f = n.func
                if not (isinstance(f, ast.Attribute) and isinstance(f.value, ast.Name) and f.value.id in ("asyncio",) + tuple(self.pcfg.silent)
                        and f.value.id not in self.locals):
                    return False
            if isinstance(n, (ast.Return, ast.Raise, ast.Await, ast.Attribute)) and not (isinstance(n, ast.Attribute) and isinstance(n.value, ast.Name)):
                return False

        def innermost_ok(t: ast.Try) -> bool:
            # every handler body is either another such `try` or ends the chain with `except Exception:`
            for h in t.handlers:
                if h.name is not None:
                    return False
            return True
        return all(innermost_ok(t) for t in ast.walk(st) if isinstance(t, ast.Try))

    def stmt(self, st: ast.stmt, stack: list) -> str:
        ind = self.cx.ind
        # ---- X = asyncio.get_running_loop()
        if isinstance(st, ast.Assign) and len(st.targets) == 1 and isinstance(st.targets[0], ast.Name) and isinstance(st.value, ast.Call) \
                and ast.unparse(st.value.func) in self.pcfg.loop_calls and not st.value.args and not st.value.keywords:
            if not isinstance(self.fn, ast.AsyncFunctionDef):
                raise Unsupported(f"{ast.unparse(st)[:60]} outside an `async def` (it could raise)")
            self.note(f"`{ast.unparse(st)}` is left out: inside a running coroutine it returns the running loop and does not raise; the variable "
                      "may only be handed to `<ContextVar>.set`")
            return self.with_cx(self.cx.token(st.targets[0].id), lambda: self.normal(stack))
        if self._is_provisioning(st):
            self.note("a top-level `try` that mentions neither `self` nor a variable used elsewhere and calls only `asyncio.<f>` / `logger.<m>` "
                      "(event-loop provisioning) is left out: it assigns no field")
            return self.normal(stack)
        # ---- if "<k>" in E:
        if isinstance(st, ast.If) and self._str_in(st.test) is not None:
            k, container = self._str_in(st.test)
            pre = self.tr_reads(st.test)
            c = self.P(container)
            self.note("`\"<k>\" in E` is a raising point: `Rbacx.PyD.strIn k E` = `some b` on dict (key) / list (equal element) / str (substring), "
                      "`none` = TypeError on anything else")
            inner = self.cx.deeper(4)
            a = self.with_cx(inner.deeper(2), lambda: self.normal([("seq", list(st.body))] + stack))
            b = self.with_cx(inner.deeper(2), lambda: self.normal([("seq", list(st.orelse))] + stack))
            bad = self.with_cx(inner, lambda: self.raised(stack))
            return (f"{pre}(match Rbacx.PyD.strIn {lean_str(k)} {c} with\n{ind}  | Option.some t_in =>\n{ind}    if t_in then\n{ind}      {a}\n"
                    f"{ind}    else\n{ind}      {b}\n{ind}  | Option.none =>\n{ind}    {bad})")
        return super().stmt(st, stack)


def translate(source: str, target: Target, cfg: DCfg) -> dict:
    res = pp.translate(source, target, cfg, translator_cls=DecideTranslator, prepare=prepare)
    if target.kind == "method" and res["outputs"] == []:
        res["lean"] = (res["lean"].replace(" as a state transformer", " (whole method)", 1)
                       .replace("out = the final values of [] (none: an exception escaped)", "out = the RETURNED value (none: an exception escaped)", 1))
    if target.kind != "range":
        fn = _find_method_any(ast.parse(source), target.designator)
        d = defaults_of(fn)
        res["defaults"] = d
        if d:
            note = "; defaults of the signature (NOT part of the translation: callers pass every argument): " + ", ".join(f"{k}={v}" for k, v in d.items())
            res["lean"] = res["lean"].replace(" -/\ndef ", note.replace("-/", "- /") + " -/\ndef ", 1)
    return res


def as_python(source: str, target: Target, cfg: DCfg, globs: dict, overrides: dict | None = None):
    """the target method (and the spliced ones) — verbatim, signature included — compiled from the source text in the module's own
    globals (logger silent, `overrides` on top): {name: function}"""
    tree = ast.parse(source)
    ns = dict(globs)
    for name in cfg.silent:
        ns[name] = pp._Silent()
    ns.update(overrides or {})
    cls = target.designator.split(".", 1)[0]
    out = {}
    for name in (target.designator.split(".", 1)[1],) + tuple(target.splice):
        f = copy.deepcopy(_find_method_any(tree, f"{cls}.{name}"))
        mod = ast.Module(body=[f], type_ignores=[])
        ast.fix_missing_locations(mod)
        exec(compile(mod, f"<{cls}.{name}>", "exec"), ns)  # noqa: S102
        out[name] = ns[name]
    return out


__all__ = ["DCfg", "Ext", "Target", "translate", "as_python", "prepare", "ident", "pa"]
