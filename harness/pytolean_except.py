"""Extension of harness/pytolean.py: translation in EXCEPTION-PASSING STYLE (C04/C06: the condition evaluator `eval_condition` of
core/policy.py and its helpers `resolve`, `_ensure_numeric_strict`, `_ensure_str`, `_as_collection`, `_is_strict`).

Every translated function has type `… → Except CondErr PyVal` (`Rbacx.PyE.Res`, lean/Rbacx/Model/PyExcept.lean): `.ok v` = the call
returned `v`, `.error .typeMismatch` = it raised `ConditionTypeError`, `.error (.raised cls)` = it raised the builtin class `cls`.
The translation is syntax-directed; anything outside the shapes below raises `Unsupported` (reported as a failed extraction).

EXPRESSIONS are put into A-normal form in CPython's evaluation order (left to right): an operation that can raise on JSON-shaped
values is bound to a fresh temporary `t<n>` by `PyE.bind` (the first exception ends the computation), operations that cannot raise
stay ordinary `PyVal` terms.
  can raise (→ `PyE.<op>`):  `x[k]` (`itemE`: KeyError/IndexError/TypeError), `x in y` / `x not in y` (`containsE`: TypeError for a
    non-container, a non-str left of a str, an unhashable key of a dict), `<` `<=` `>` `>=` incl. chains `a <= b <= c` (`ltE`…:
    TypeError for unordered kinds), `d.get(k)` (`getE`: AttributeError on a non-dict), `len(x)` (`lenE`), `float(x)` (`floatE`:
    OverflowError), `list(x)` (`listE`), `s.split("c")` with a one-character constant (`splitE`), `s.startswith(p)` / `s.endswith(p)`,
    `all(<genexp>)` / `any(<genexp>)` (`iterE` + `allE`/`anyE`: left to right, short-circuit, exceptions propagate), calls of
    translated functions, calls of EXTERNAL functions (function parameters of type `PyVal → … → Except CondErr PyVal`; keyword
    arguments are appended in call order and every call site must use the same shape), `a and b` / `a or b` when a later operand can
    raise (that operand is evaluated only when Python evaluates it).
  cannot raise (plain terms, meanings in Model/PyLib.lean):  names, constants, displays, `==` `!=` (`Py.eq`/`Py.ne`; `==` on JSON
    values never raises), `is [not] None`, `not`, `isinstance(x, T)` / `isinstance(x, (T1, …))` (`PyE.isInstance`), `bool(x)`,
    `str(x)` (`Py.strO o x`: the oracle parameter `o`), `and`/`or` of such.
STATEMENTS (continuation style, every function one Lean term):  `x = e`; `x: T = e`; bare `x: T`; `a, b = e` (`PyE.unpack2`: TypeError
  when `e` is not iterable, ValueError when it does not yield two items) and `a, b = e1, e2` (both evaluated, then bound; the targets
  may not occur in `e1`, `e2`); `if`/`elif`/`else`; `return e`; `raise Cls(<constants>) [from e]` (`PyE.raise "Cls"`:
  `ConditionTypeError` is `.typeMismatch`); `try: <body> except C | (C1, …) [as e]: <handler>` where body and handler end in
  `return`/`raise` on every path (`PyE.tryExcept`: `Exception` catches everything, otherwise by class name; the handler classes must be
  `Exception`, `ConditionTypeError` or builtin leaf classes); `for x in e: <body>` whose body has no `break`/`continue`/`return`/loop
  and carries exactly ONE variable (`PyE.forFold`; the other variables the body assigns must be assigned before they are read and
  may not be read after the loop, nor may `x`).
RECURSION: a function that calls itself gets an extra LAST parameter `fuel : Nat`, is defined by structural recursion on it
  (`0` ⇒ `PyE.outOfFuel`) and passes `fuel` on at every self-call; the per-run obligation proves that the size of the document suffices.
STATEMENT RANGES of a function (`ranges=[…]`, designated by the `ast.unparse` text of the test of their first and last `if`):
  * `("external", name)` — ONE statement `if T: <body>` whose body never falls through: the body is NOT translated; it becomes a call
    of the function parameter `name`, applied to the function's variables the body reads (first-read order).  The variables the
    body assigns may occur nowhere else in the function.
  * `("fragment", lean_name)` — consecutive statements, translated as a definition of their own, `lean_name <free variables> :
    Except CondErr PyE.Flow` (`.ret v` = the range executed `return v`, `.next` = it ran off its end), and used in the function as
    `PyE.afterRange (lean_name …) <rest>`.  The variables the range assigns may occur nowhere else in the function.

WHOLE-EVALUATOR EXTENSIONS (C02: `policy.evaluate`, `policyset._decide_single` / `decide` translated whole; plugin
`extractors/src_translation_evaluators.py`).  All syntax-directed, anything else still `Unsupported`:
  * `for x in e: <body>` at the top level of a function, whose body contains `break` / `continue` / the `try` shape below (no `return`,
    no nested loop): `PyE.forLoop items (v1, …, vn) fun s x => match s with | (v1, …, vn) => <body>` — the CARRIED variables are the
    variables the body assigns that a top-level assignment before the loop (or a parameter) has defined, as a tuple in order of first
    assignment in the body; `continue` / running off the end = `.ok (Ctl.next (v1, …, vn))`, `break` = `.ok (Ctl.brk (v1, …, vn))`, the
    statements after the loop are bound on the tuple the loop ends with.  The other variables the body assigns are local to one
    iteration: they may not be read after the loop, and a read before the iteration has assigned them is an unbound identifier in the
    generated Lean (the obligation fails).
  * `try: if T: <simple> [else: <simple>] except C: <handler>` where <simple> = assignments of constants to names, `continue`,
    `break`, `pass` — so that only the test `T` can raise inside the `try`: `PyE.tryBind <T> [C…] <handler; rest> fun t => if t then
    <simple; rest> else <rest>`; the statements after the `try` are OUTSIDE its protection, as in Python.
  * `x.lower()` (`PyE.lowerE`: AttributeError on a non-str), `dict(x)` (`PyE.dictE`), dict displays with constant string keys
    (`Py.dictOf`, operands in order), `a if c else b` (a branch that can raise is evaluated only when Python evaluates it),
    `x["k"] = e` on a local that was bound by `x = dict(…)` and is otherwise only used as `x.get(…)` / `return x` (`Py.setItem`:
    value semantics = reference semantics when nobody else holds the dict).
  * keyword-only parameters with constant defaults are ordinary parameters (the default is used at a call that omits the argument
    and recorded in the doc comment).
  * `pure_callees`: functions translated by harness/pytolean.py (total, `PyVal`-valued: `match_actions`, `match_resource`, `_is_strict`,
    `_is_applicable`) are called as plain terms, keyword arguments put in parameter order.  `presigs`: exception-passing functions
    translated by ANOTHER call of `translate` (`eval_condition` from the condition plugin, `evaluate` seen from policyset.py under its
    import alias) with their oracle / externals / fuel signature.  A function that calls a function with a `fuel` parameter takes
    `fuel` itself and passes it on unchanged; the functions of a `mutual` group (`_decide_single` ↔ `decide`) are defined in one
    `mutual` block by structural recursion on `fuel`, every call out of the `fuel + 1` branch passing the smaller budget."""
from __future__ import annotations

import ast

import pytolean
from pytolean import Unsupported, ident, lean_str

ISINSTANCE_TYPES = {"str", "list", "dict", "bool", "int", "float", "tuple", "set", "frozenset", "Iterable", "datetime"}
HANDLER_CLASSES = {"Exception", "ConditionTypeError", "OverflowError", "ValueError", "TypeError", "KeyError", "IndexError",
                   "AttributeError", "OSError", "ZeroDivisionError"}
PURE_BUILTINS = ("isinstance", "bool", "str")


def _ends(stmts: list[ast.stmt]) -> bool:
    """does every path through the statement list end in `return` / `raise`?  (syntactic)"""
    for st in stmts:
        if isinstance(st, (ast.Return, ast.Raise, ast.Break, ast.Continue)):
            return True
        if isinstance(st, ast.If) and _ends(st.body) and _ends(st.orelse):
            return True
        if isinstance(st, ast.Try) and not st.orelse and not st.finalbody and _ends(st.body) and all(_ends(h.body) for h in st.handlers):
            return True
    return False


def _loads(nodes: list[ast.AST]) -> list[str]:
    out: list[str] = []
    for n0 in nodes:
        got: list[str] = []
        pytolean._reads(n0, _ALL, got)
        for v in got:
            if v not in out:
                out.append(v)
    return out


class _All(set):
    def __contains__(self, item) -> bool:   # every name counts as local for `_reads`
        return True


_ALL = _All()


class ExceptTranslator(pytolean.Translator):
    def __init__(self, known: list[str], consts: dict | None, externals: list[str], lean_names: dict[str, str] | None = None,
                 pure_callees: dict[str, dict] | None = None, presigs: dict[str, dict] | None = None, mutual: list[list[str]] | None = None):
        super().__init__(set(known), consts, oracle=True, externals=externals)
        self.lean_names = lean_names or {}
        self.pure_callees = pure_callees or {}    # python name → {"lean", "oracle", "params", "defaults"}: total PyVal-valued translations
        self.presigs = presigs or {}              # python name → {"lean", "oracle", "exts": [[x, arity]…], "fuel", "params", "defaults"}
        self.mutual = mutual or []
        self.loop_stack: list[str] = []           # the carried tuple of the enclosing `forLoop` bodies
        self.fresh_dicts: set[str] = set()        # locals bound by `x = dict(…)`
        self.pre_loop: dict[int, tuple[set, set]] = {}
        self.cur_group: list[str] = []
        self.cur_dec = False
        self.ntmp = 0
        self.sig: dict[str, dict] = {}          # translated function → {"oracle", "exts", "fuel"}
        self.ext_shape: dict[str, tuple] = {}   # external → (number of positional arguments, keyword names)
        self.cur_name = ""
        self.cur_fuel = False
        self.cur_exts: list[str] = []
        self.ranges: list[dict] = []
        self.fragments: list[str] = []          # definitions of `fragment` ranges, emitted before the function
        self.in_range = False

    def lname(self, py: str) -> str:
        return self.lean_names.get(py, ident(py))

    # ------------------------------------------------------------------ helpers
    def fresh(self) -> str:
        while True:
            self.ntmp += 1
            t = f"t{self.ntmp}"
            if t not in self.locals and t not in self.known and t not in self.externals:
                return t

    @staticmethod
    def wrap(binds: list[tuple[str, str]], final: str, ind: str) -> str:
        out = ""
        for t, x in binds:
            out += f"Rbacx.PyE.bind {x} fun {t} =>\n{ind}"
        return out + final

    def value(self, binds: list[tuple[str, str]], atom: str, ind: str) -> str:
        """the Res term of an expression in ANF"""
        if binds and binds[-1][0] == atom:
            return self.wrap(binds[:-1], binds[-1][1], ind)
        return self.wrap(binds, f"(Except.ok {atom})", ind)

    def exc(self, binds: list, term: str) -> tuple[list, str]:
        t = self.fresh()
        binds.append((t, term))
        return binds, t

    # ------------------------------------------------------------------ expressions: (binds, atom)
    def EX(self, e: ast.expr) -> tuple[list[tuple[str, str]], str]:
        if isinstance(e, ast.Name):
            if e.id not in self.locals and e.id in self.consts:
                return self.EX(self.consts[e.id])
            if e.id not in self.locals:
                raise Unsupported(f"name {e.id} is neither a local variable nor an inlinable module constant")
            return [], ident(e.id)
        if isinstance(e, ast.Constant) or (isinstance(e, ast.Dict) and not e.keys):
            return [], self.E(e)
        if isinstance(e, (ast.List, ast.Tuple)):
            binds: list = []
            atoms = []
            for x in e.elts:
                if isinstance(x, ast.Starred):
                    raise Unsupported("starred display")
                b, a = self.EX(x)
                binds += b
                atoms.append(a)
            return binds, "(PyVal.list [" + ", ".join(atoms) + "])"
        if isinstance(e, ast.Dict):
            if not all(isinstance(k, ast.Constant) and isinstance(k.value, str) for k in e.keys):
                raise Unsupported("dict display with a key that is not a string constant")
            binds = []
            items = []
            for k, v in zip(e.keys, e.values):
                b, a = self.EX(v)
                binds += b
                items.append(f"({lean_str(k.value)}, {a})")
            return binds, "(Rbacx.Py.dictOf [" + ", ".join(items) + "])"
        if isinstance(e, ast.IfExp):
            bt, at = self.EX(e.test)
            b1, a1 = self.EX(e.body)
            b2, a2 = self.EX(e.orelse)
            if not b1 and not b2:
                return bt, f"(if ({at}).truthy then {a1} else {a2})"
            return self.exc(bt, f"(if ({at}).truthy then ({self.value(b1, a1, '  ')}) else ({self.value(b2, a2, '  ')}))")
        if isinstance(e, ast.BoolOp):
            parts = [self.EX(v) for v in e.values]
            pure = "PyVal.por" if isinstance(e.op, ast.Or) else "Rbacx.Py.pand"
            # right to left: `sub` is the ANF of `v_i op … op v_n`; an operand that can raise is evaluated only when Python evaluates it
            sub_b, sub_a = parts[-1]
            for b, a in reversed(parts[:-1]):
                if not sub_b:
                    sub_b, sub_a = b, f"({pure} {a} {sub_a})"
                    continue
                later = "(" + self.value(sub_b, sub_a, "  ") + ")"
                keep = f"(Except.ok {a})"
                term = (f"(if ({a}).truthy then {keep} else {later})" if isinstance(e.op, ast.Or)
                        else f"(if ({a}).truthy then {later} else {keep})")
                sub_b, sub_a = self.exc(list(b), term)
            return sub_b, sub_a
        if isinstance(e, ast.UnaryOp) and isinstance(e.op, ast.Not):
            b, a = self.EX(e.operand)
            return b, f"(Rbacx.Py.pnot {a})"
        if isinstance(e, ast.Subscript) and isinstance(e.ctx, ast.Load):
            if isinstance(e.slice, ast.Slice):
                raise Unsupported("slice")
            b1, a1 = self.EX(e.value)
            b2, a2 = self.EX(e.slice)
            return self.exc(b1 + b2, f"(Rbacx.PyE.itemE {a1} {a2})")
        if isinstance(e, ast.Compare):
            return self.compare(e)
        if isinstance(e, ast.Call):
            return self.call(e)
        raise Unsupported(f"expression {ast.unparse(e)}")

    def compare(self, e: ast.Compare) -> tuple[list, str]:
        ords = {ast.Lt: "ltE", ast.Gt: "gtE", ast.LtE: "leE", ast.GtE: "geE"}
        if len(e.ops) > 1:
            if not all(type(op) in ords for op in e.ops):
                raise Unsupported("chained comparison other than < <= > >=")
            operands = [e.left] + list(e.comparators)
            if not all(isinstance(x, (ast.Name, ast.Constant)) for x in operands):
                raise Unsupported("chained comparison of something other than names and constants")
            atoms = [self.EX(x)[1] for x in operands]
            # a OP1 b OP2 c  =  (a OP1 b) and (b OP2 c), `b` evaluated once (it is a name/constant here)
            term = f"(Rbacx.PyE.{ords[type(e.ops[-1])]} {atoms[-2]} {atoms[-1]})"
            for i in range(len(e.ops) - 2, -1, -1):
                t = self.fresh()
                term = (f"(Rbacx.PyE.bind (Rbacx.PyE.{ords[type(e.ops[i])]} {atoms[i]} {atoms[i + 1]}) fun {t} => "
                        f"if ({t}).truthy then {term} else (Except.ok {t}))")
            return self.exc([], term)
        op, a, b = e.ops[0], e.left, e.comparators[0]
        if isinstance(op, (ast.Is, ast.IsNot)):
            if not (isinstance(b, ast.Constant) and b.value is None):
                raise Unsupported("`is` with something other than None")
            bs, at = self.EX(a)
            return bs, f"(Rbacx.Py.{'isNone' if isinstance(op, ast.Is) else 'isNotNone'} {at})"
        b1, a1 = self.EX(a)
        b2, a2 = self.EX(b)
        binds = b1 + b2
        if isinstance(op, ast.Eq):
            return binds, f"(Rbacx.Py.eq {a1} {a2})"
        if isinstance(op, ast.NotEq):
            return binds, f"(Rbacx.Py.ne {a1} {a2})"
        if isinstance(op, (ast.In, ast.NotIn)):
            binds, t = self.exc(binds, f"(Rbacx.PyE.containsE {a2} {a1})")
            return binds, t if isinstance(op, ast.In) else f"(Rbacx.Py.pnot {t})"
        if type(op) in ords:
            return self.exc(binds, f"(Rbacx.PyE.{ords[type(op)]} {a1} {a2})")
        raise Unsupported(f"comparison {ast.dump(op)}")

    def lam(self, g: ast.comprehension, elt: ast.expr) -> str:
        if g.is_async or g.ifs or not isinstance(g.target, ast.Name):
            raise Unsupported("generator shape")
        self.locals.add(g.target.id)
        b, a = self.EX(elt)
        return f"(fun ({ident(g.target.id)} : PyVal) => {self.value(b, a, '  ')})"

    def call(self, e: ast.Call) -> tuple[list, str]:
        f = e.func
        if any(isinstance(a, ast.Starred) for a in e.args) or any(k.arg is None for k in e.keywords):
            raise Unsupported(f"call {ast.unparse(e)}")
        if isinstance(f, ast.Attribute) and not e.keywords:
            b0, recv = self.EX(f.value)
            if f.attr == "get" and len(e.args) == 1:
                b1, k = self.EX(e.args[0])
                return self.exc(b0 + b1, f"(Rbacx.PyE.getE {recv} {k})")
            if f.attr in ("startswith", "endswith") and len(e.args) == 1:
                b1, p = self.EX(e.args[0])
                return self.exc(b0 + b1, f"(Rbacx.PyE.{f.attr}E {recv} {p})")
            if f.attr == "lower" and not e.args:
                return self.exc(b0, f"(Rbacx.PyE.lowerE {recv})")
            if f.attr == "split" and len(e.args) == 1 and isinstance(e.args[0], ast.Constant) and isinstance(e.args[0].value, str) \
                    and len(e.args[0].value) == 1 and 32 < ord(e.args[0].value) < 127 and e.args[0].value not in "'\\":
                return self.exc(b0, f"(Rbacx.PyE.splitE '{e.args[0].value}' {recv})")
            raise Unsupported(f"method call {ast.unparse(e)}")
        if not isinstance(f, ast.Name) or f.id in self.locals:
            raise Unsupported(f"call {ast.unparse(e)}")
        if f.id in self.pure_callees and f.id not in self.known:
            pc = self.pure_callees[f.id]
            binds, atoms = self.call_args(e, pc["params"], pc.get("defaults") or {}, f.id)
            return binds, "(" + " ".join([pc["lean"]] + (["o"] if pc.get("oracle") else []) + atoms) + ")"
        if f.id in self.presigs and f.id not in self.known:
            ps = self.presigs[f.id]
            binds, atoms = self.call_args(e, ps["params"], ps.get("defaults") or {}, f.id)
            head = [ps["lean"]] + (["o"] if ps["oracle"] else []) + [ident(x) for x, _ in ps["exts"]]
            return self.exc(binds, "(" + " ".join(head + atoms + (["fuel"] if ps["fuel"] else [])) + ")")
        if f.id in self.externals and f.id not in self.known:
            shape = (len(e.args), tuple(k.arg for k in e.keywords))
            if self.ext_shape.setdefault(f.id, shape) != shape:
                raise Unsupported(f"external function {f.id} is called with different argument shapes")
            self.ext_arity[f.id] = len(e.args) + len(e.keywords)
            binds, atoms = [], []
            for a in list(e.args) + [k.value for k in e.keywords]:
                b, at = self.EX(a)
                binds += b
                atoms.append(at)
            return self.exc(binds, "(" + " ".join([ident(f.id)] + atoms) + ")")
        if f.id in self.known:
            if e.keywords:
                raise Unsupported(f"keyword arguments in a call of the translated function {f.id}")
            binds, atoms = [], []
            for a in e.args:
                b, at = self.EX(a)
                binds += b
                atoms.append(at)
            if f.id == self.cur_name or f.id in self.cur_group:
                head = [self.lname(f.id)] + (["o"] if self.cur_oracle else []) + [ident(x) for x in self.cur_exts]
                return self.exc(binds, "(" + " ".join(head + atoms + ["fuel"]) + ")")
            if f.id not in self.sig:
                raise Unsupported(f"call of {f.id} before its translation (callees first)")
            s = self.sig[f.id]
            if s["fuel"] and not self.cur_fuel:
                raise Unsupported(f"call of the recursive function {f.id} from a function without a budget")
            head = [self.lname(f.id)] + (["o"] if s["oracle"] else []) + [ident(x) for x in s["exts"]]
            return self.exc(binds, "(" + " ".join(head + atoms + (["fuel"] if s["fuel"] else [])) + ")")
        if e.keywords:
            raise Unsupported(f"call {ast.unparse(e)}")
        if f.id == "isinstance" and len(e.args) == 2:
            tys = e.args[1].elts if isinstance(e.args[1], ast.Tuple) else [e.args[1]]
            if not all(isinstance(t, ast.Name) and t.id in ISINSTANCE_TYPES and t.id not in self.locals for t in tys):
                raise Unsupported(f"isinstance against {ast.unparse(e.args[1])}")
            b, a = self.EX(e.args[0])
            return b, f"(Rbacx.PyE.isInstance {a} [" + ", ".join(lean_str(t.id) for t in tys) + "])"
        if f.id in ("bool", "str") and len(e.args) == 1:
            b, a = self.EX(e.args[0])
            return b, (f"(Rbacx.Py.boolOf {a})" if f.id == "bool" else f"(Rbacx.Py.strO o {a})")
        if f.id in ("len", "float", "list", "dict") and len(e.args) == 1:
            b, a = self.EX(e.args[0])
            return self.exc(b, f"(Rbacx.PyE.{f.id}E {a})")
        if f.id in ("all", "any") and len(e.args) == 1 and isinstance(e.args[0], ast.GeneratorExp) and len(e.args[0].generators) == 1:
            g = e.args[0].generators[0]
            b, it = self.EX(g.iter)
            b, items = self.exc(b, f"(Rbacx.PyE.iterE {it})")
            return self.exc(b, f"(Rbacx.PyE.{f.id}E {items} {self.lam(g, e.args[0].elt)})")
        raise Unsupported(f"call {ast.unparse(e)}")

    def call_args(self, e: ast.Call, params: list[str], defaults: dict, name: str) -> tuple[list, list[str]]:
        """the arguments of a call put in the callee's parameter order (evaluated in the order they are written); an omitted
        parameter takes its constant default"""
        if len(e.args) > len(params):
            raise Unsupported(f"call of {name} with too many arguments")
        binds: list = []
        got: dict[str, str] = {}
        for p_, a in zip(params, e.args):
            b, at = self.EX(a)
            binds += b
            got[p_] = at
        for k in e.keywords:
            if k.arg not in params or k.arg in got:
                raise Unsupported(f"call of {name}: keyword {k.arg}")
            b, at = self.EX(k.value)
            binds += b
            got[k.arg] = at
        atoms = []
        for p_ in params:
            if p_ in got:
                atoms.append(got[p_])
            elif p_ in defaults:
                atoms.append(self.E(ast.Constant(defaults[p_])))
            else:
                raise Unsupported(f"call of {name}: no argument for {p_}")
        return binds, atoms

    def only_get_or_return(self, x: str) -> bool:
        """is every read of the local `x` in the current function `x.get(…)` or `return x`?"""
        parents = {id(c): n for n in ast.walk(self.cur_fn) for c in ast.iter_child_nodes(n)}
        for n in ast.walk(self.cur_fn):
            if isinstance(n, ast.Name) and n.id == x and isinstance(n.ctx, ast.Load):
                par = parents.get(id(n))
                if isinstance(par, ast.Return):
                    continue
                if isinstance(par, ast.Attribute) and par.attr == "get" and isinstance(parents.get(id(par)), ast.Call):
                    continue
                if isinstance(par, ast.Subscript) and isinstance(par.ctx, ast.Store) and par.value is n:
                    continue
                return False
        return True

    @staticmethod
    def simple_stmts(stmts: list[ast.stmt]) -> bool:
        """statements that cannot raise: constants assigned to names, `continue`, `break`, `pass`"""
        return all(isinstance(st, (ast.Continue, ast.Break, ast.Pass))
                   or (isinstance(st, ast.Assign) and len(st.targets) == 1 and isinstance(st.targets[0], ast.Name) and isinstance(st.value, ast.Constant))
                   for st in stmts)

    def handler_classes(self, h: ast.ExceptHandler) -> list[str]:
        tys = h.type.elts if isinstance(h.type, ast.Tuple) else [h.type]
        if not all(isinstance(t, ast.Name) and t.id in HANDLER_CLASSES and t.id not in self.locals for t in tys):
            raise Unsupported(f"except clause {ast.unparse(h.type) if h.type else '(bare)'}")
        return [t.id for t in tys]

    def for_ctl(self, st: ast.For, rest: list[ast.stmt], ind: str, tail: str | None, ret) -> str:
        """a top-level `for` whose body may `break` / `continue` and carries several variables (module docstring)"""
        if st.orelse or not isinstance(st.target, ast.Name):
            raise Unsupported("for/else or tuple target")
        for b_ in st.body:
            for n in ast.walk(b_):
                if isinstance(n, (ast.Return, ast.For, ast.While, ast.With, ast.Raise)):
                    raise Unsupported(f"{type(n).__name__} inside a for loop with break/continue")
        if id(st) not in self.pre_loop or self.loop_stack:
            raise Unsupported("a for loop with break/continue must be a top-level statement of the function")
        top, nested = self.pre_loop[id(st)]
        x = st.target.id
        assigned = self._stores(st.body)
        if x in assigned or x in top or x in nested:
            raise Unsupported("the loop target is assigned elsewhere")
        unsure = [v for v in assigned if v in nested and v not in top]
        if unsure:
            raise Unsupported(f"variables {unsure} are assigned in the loop and only conditionally before it")
        carried = [v for v in assigned if v in top]
        if not carried:
            raise Unsupported("a for loop with break/continue that carries no variable")
        after = _loads(list(rest))
        if x in after or any(v in after for v in assigned if v not in carried):
            raise Unsupported("a loop-local variable is read after the loop")
        tup = "(" + ", ".join(ident(v) for v in carried) + ")"
        s_ = "s"
        while s_ in self.locals or s_ in self.externals or s_ in ("o", "fuel"):
            s_ += "'"
        b, it = self.EX(st.iter)
        b, items = self.exc(b, f"(Rbacx.PyE.iterE {it})")
        self.loop_stack.append(tup)
        body = self.SX(st.body, ind + "      ", f"(Except.ok (Rbacx.PyE.Ctl.next {tup}))", self.no_ret)
        self.loop_stack.pop()
        k = self.SX(rest, ind + "    ", tail, ret)
        NL = chr(10)
        return self.wrap(b, f"Rbacx.PyE.bind (Rbacx.PyE.forLoop {items} {tup} fun {s_} ({ident(x)} : PyVal) => match {s_} with{NL}"
                            f"{ind}    | {tup} =>{NL}{ind}      {body}) fun {s_} => match {s_} with{NL}{ind}  | {tup} =>{NL}{ind}    {k}", ind)

    # ------------------------------------------------------------------ statements
    def find_range(self, stmts: list[ast.stmt]) -> tuple[dict, int] | None:
        st = stmts[0]
        if not isinstance(st, ast.If):
            return None
        text = ast.unparse(st.test)
        for r in self.ranges:
            if r["first"] == text and not r.get("done"):
                for j, s2 in enumerate(stmts):
                    if isinstance(s2, ast.If) and ast.unparse(s2.test) == r["last"]:
                        return r, j
                raise Unsupported(f"range {r['as']}: no statement `if {r['last']}:` after `if {r['first']}:`")
        return None

    def range_vars(self, rng: list[ast.stmt], what: str) -> list[str]:
        """the function's variables a statement range reads; the variables it assigns may occur nowhere else in the function"""
        stored = pytolean.Translator._stores(rng) + [h.name for st in rng for n in ast.walk(st) if isinstance(n, ast.Try) for h in n.handlers if h.name]
        inside = {id(n) for st in rng for n in ast.walk(st)}
        params = {a.arg for a in self.cur_fn.args.args + self.cur_fn.args.kwonlyargs}
        for n in ast.walk(self.cur_fn):
            if isinstance(n, ast.Name) and id(n) not in inside and n.id in stored:
                raise Unsupported(f"{what}: variable {n.id} is assigned inside the range and used outside it")
        if params & set(stored):
            raise Unsupported(f"{what}: the range assigns a parameter")
        return [v for v in _loads(rng) if v in self.locals and v not in stored]

    def SX(self, stmts: list[ast.stmt], ind: str, tail: str | None, ret) -> str:
        """`tail`: the Res term control reaches when it runs off the end (None: it must not); `ret(binds, atom, ind)`: `return`"""
        if not stmts:
            if tail is None:
                raise Unsupported("control can run off the end of the function without a return")
            return tail
        found = self.find_range(stmts) if self.ranges else None
        if found is not None:
            r, j = found
            r["done"] = True
            rng, rest = stmts[:j + 1], stmts[j + 1:]
            kind, name = r["as"]
            if kind == "external":
                st = rng[0]
                if len(rng) != 1 or st.orelse or not _ends(st.body):
                    raise Unsupported(f"external range {name}: must be one `if T: <body>` whose body never falls through")
                args = self.range_vars(st.body, f"external range {name}")
                if name not in self.externals:
                    raise Unsupported(f"external range {name} is not listed in the externals")
                self.ext_arity[name] = len(args)
                self.ext_shape[name] = (len(args), ())
                r["args"] = args
                b, a = self.EX(st.test)
                call = "(" + " ".join([ident(name)] + [ident(v) for v in args]) + ")"
                retv = ret([("_r", call)], "_r", ind + "  ")
                k = self.SX(rest, ind + "  ", tail, ret)
                return self.wrap(b, f"if ({a}).truthy then\n{ind}  ({retv})\n{ind}else\n{ind}  ({k})", ind)
            args = self.range_vars(rng, f"fragment range {name}")
            r["args"] = args
            if self.in_range:
                raise Unsupported("a fragment range inside a range")
            flow_ret = lambda bs, at, i: self.wrap(bs, f"(Except.ok (Rbacx.PyE.Flow.ret {at}))", i)  # noqa: E731
            self.in_range = True
            body = self.SX(rng, "  ", "(Except.ok Rbacx.PyE.Flow.next)", flow_ret)
            self.in_range = False
            used = self.ext_uses(ast.Module(rng, []), self.fns, {self.cur_name})
            exts = [x for x in self.externals if x in used]
            r["exts"] = exts
            head = [name] + (["(o : Oracle)"] if self.cur_oracle else []) + [self.ext_param(x) for x in exts] \
                + [f"({ident(v)} : PyVal)" for v in args]
            doc = (f"/-- statement range of `{self.cur_name}` from `if {r['first']}:` to the end of `if {r['last']}:`; inputs: "
                   f"{', '.join(args)}; result: .ret v = the range executed `return v`, .next = control ran off its end -/\n")
            self.fragments.append(f"{doc}def {' '.join(head)} : Except CondErr Rbacx.PyE.Flow :=\n  {body}\n")
            call = "(" + " ".join([name] + (["o"] if self.cur_oracle else []) + [ident(x) for x in exts] + [ident(v) for v in args]) + ")"
            if tail is None and not rest:
                raise Unsupported("control can run off the end of the function without a return")
            k = self.SX(rest, ind + "  ", tail, ret)
            return f"Rbacx.PyE.afterRange {call} (\n{ind}  {k})"
        st, rest = stmts[0], stmts[1:]
        if isinstance(st, ast.Pass) or (isinstance(st, ast.Expr) and isinstance(st.value, ast.Constant) and isinstance(st.value.value, str)):
            return self.SX(rest, ind, tail, ret)
        if isinstance(st, (ast.Break, ast.Continue)):
            if not self.loop_stack:
                raise Unsupported("break / continue outside a translated loop")
            return f"(Except.ok (Rbacx.PyE.Ctl.{'brk' if isinstance(st, ast.Break) else 'next'} {self.loop_stack[-1]}))"
        if isinstance(st, ast.Return):
            if st.value is None:
                return ret([], "PyVal.none", ind)
            b, a = self.EX(st.value)
            return ret(b, a, ind)
        if isinstance(st, ast.Raise):
            exc = st.exc
            if isinstance(exc, ast.Call) and isinstance(exc.func, ast.Name) and not exc.keywords \
                    and all(isinstance(a, ast.Constant) for a in exc.args):
                cls = exc.func.id
            elif isinstance(exc, ast.Name):
                cls = exc.id
            else:
                raise Unsupported(f"statement {ast.unparse(st)[:60]}")
            if cls in self.locals or (st.cause is not None and not isinstance(st.cause, ast.Name)):
                raise Unsupported(f"statement {ast.unparse(st)[:60]}")
            return f"Rbacx.PyE.raise {lean_str(cls)}"
        if isinstance(st, ast.AnnAssign) and st.value is None and isinstance(st.target, ast.Name) and st.simple:
            return self.SX(rest, ind, tail, ret)
        if isinstance(st, (ast.Assign, ast.AnnAssign)):
            tgt = st.targets[0] if isinstance(st, ast.Assign) else st.target
            if (isinstance(st, ast.Assign) and len(st.targets) != 1) or st.value is None:
                raise Unsupported(f"assignment {ast.unparse(st)[:60]}")
            if isinstance(tgt, ast.Name):
                b, a = self.EX(st.value)
                if isinstance(st.value, ast.Call) and isinstance(st.value.func, ast.Name) and st.value.func.id == "dict" and "dict" not in self.locals:
                    self.fresh_dicts.add(tgt.id)
                else:
                    self.fresh_dicts.discard(tgt.id)
                return self.wrap(b, f"let {ident(tgt.id)} := {a}\n{ind}{self.SX(rest, ind, tail, ret)}", ind)
            if isinstance(tgt, ast.Subscript) and isinstance(tgt.value, ast.Name) and isinstance(tgt.slice, ast.Constant) \
                    and isinstance(tgt.slice.value, str) and isinstance(st, ast.Assign):
                x = tgt.value.id
                if x not in self.fresh_dicts or not self.only_get_or_return(x):
                    raise Unsupported(f"item assignment to {x}, which is not provably an unaliased dict built by `{x} = dict(…)`")
                b, a = self.EX(st.value)
                return self.wrap(b, f"let {ident(x)} := Rbacx.Py.setItem {ident(x)} {lean_str(tgt.slice.value)} {a}\n{ind}{self.SX(rest, ind, tail, ret)}", ind)
            if isinstance(tgt, ast.Tuple) and len(tgt.elts) == 2 and all(isinstance(x, ast.Name) for x in tgt.elts) \
                    and tgt.elts[0].id != tgt.elts[1].id:
                x, y = tgt.elts[0].id, tgt.elts[1].id
                if isinstance(st.value, ast.Tuple) and len(st.value.elts) == 2:
                    if {x, y} & set(_loads([st.value])):
                        raise Unsupported(f"assignment {ast.unparse(st)[:60]}: a target occurs on the right")
                    b1, a1 = self.EX(st.value.elts[0])
                    b2, a2 = self.EX(st.value.elts[1])
                    return self.wrap(b1 + b2, f"let {ident(x)} := {a1}\n{ind}let {ident(y)} := {a2}\n{ind}{self.SX(rest, ind, tail, ret)}", ind)
                b, a = self.EX(st.value)
                return self.wrap(b, f"Rbacx.PyE.unpack2 {a} fun ({ident(x)} : PyVal) ({ident(y)} : PyVal) =>\n{ind}{self.SX(rest, ind, tail, ret)}", ind)
            raise Unsupported(f"assignment {ast.unparse(st)[:60]}")
        if isinstance(st, ast.If):
            b, a = self.EX(st.test)
            # statements after an `if` whose branch falls through are duplicated into that branch (continuation style)
            t1 = self.SX(st.body + rest, ind + "  ", tail, ret) if not _ends(st.body) else self.SX(st.body, ind + "  ", tail, ret)
            t2 = self.SX(st.orelse + rest, ind + "  ", tail, ret) if not _ends(st.orelse) else self.SX(st.orelse, ind + "  ", tail, ret)
            return self.wrap(b, f"if ({a}).truthy then\n{ind}  ({t1})\n{ind}else\n{ind}  ({t2})", ind)
        if isinstance(st, ast.Try) and not st.orelse and not st.finalbody and len(st.handlers) == 1 \
                and not (_ends(st.body) and _ends(st.handlers[0].body)) and len(st.body) == 1 and isinstance(st.body[0], ast.If) \
                and self.simple_stmts(st.body[0].body) and self.simple_stmts(st.body[0].orelse) and not st.handlers[0].name:
            # only the test of the `if` can raise inside the try; what follows the statement is outside its protection
            if self.in_range:
                raise Unsupported("try statement inside a fragment range")
            h, iff = st.handlers[0], st.body[0]
            classes = self.handler_classes(h)
            b, a = self.EX(iff.test)
            i2 = ind + "    "
            test = self.value(b, a, i2)
            t = self.fresh()
            hd = self.SX(h.body if _ends(h.body) else h.body + rest, i2, tail, ret)
            t1 = self.SX(iff.body if _ends(iff.body) else iff.body + rest, i2, tail, ret)
            t2 = self.SX(iff.orelse if _ends(iff.orelse) else iff.orelse + rest, i2, tail, ret)
            return (f"Rbacx.PyE.tryBind (\n{i2}{test})\n{ind}  [" + ", ".join(lean_str(c) for c in classes) + f"] (\n{i2}{hd}) fun {t} =>\n"
                    f"{ind}  if ({t}).truthy then\n{i2}({t1})\n{ind}  else\n{i2}({t2})")
        if isinstance(st, ast.Try):
            if st.orelse or st.finalbody or len(st.handlers) != 1 or not _ends(st.body) or not _ends(st.handlers[0].body):
                raise Unsupported("try statement: only `try: <returns/raises> except C [as e]: <returns/raises>` or "
                                  "`try: if T: <constants, continue, break> except C: …`")
            h = st.handlers[0]
            tys = h.type.elts if isinstance(h.type, ast.Tuple) else [h.type]
            if not all(isinstance(t, ast.Name) and t.id in HANDLER_CLASSES and t.id not in self.locals for t in tys):
                raise Unsupported(f"except clause {ast.unparse(h.type) if h.type else '(bare)'}")
            if h.name:
                for n in ast.walk(ast.Module(h.body, [])):
                    if isinstance(n, ast.Name) and n.id == h.name and not any(isinstance(r_, ast.Raise) and r_.cause is n for r_ in ast.walk(ast.Module(h.body, []))):
                        raise Unsupported(f"the exception variable {h.name} is used other than as a cause (`raise … from {h.name}`)")
            body = self.SX(st.body, ind + "    ", None, ret)
            handler = self.SX(h.body, ind + "    ", None, ret)
            if self.in_range:
                raise Unsupported("try statement inside a fragment range")
            return (f"Rbacx.PyE.tryExcept (\n{ind}    {body})\n{ind}  [" + ", ".join(lean_str(t.id) for t in tys) + f"] (\n{ind}    {handler})")
        if isinstance(st, ast.For) and any(isinstance(n, (ast.Break, ast.Continue, ast.Try)) for b_ in st.body for n in ast.walk(b_)):
            return self.for_ctl(st, rest, ind, tail, ret)
        if isinstance(st, ast.For):
            if st.orelse or not isinstance(st.target, ast.Name):
                raise Unsupported("for/else or tuple target")
            for b_ in st.body:
                for n in ast.walk(b_):
                    if isinstance(n, (ast.Break, ast.Continue, ast.Return, ast.For, ast.While, ast.Try, ast.With, ast.Raise)):
                        raise Unsupported(f"{type(n).__name__} inside a for loop")
            x = st.target.id
            assigned = self._stores(st.body)
            if x in assigned:
                raise Unsupported("the loop body assigns the loop target")
            free: list[str] = []
            pytolean._flow(st.body, set(assigned), set(), free, [])
            after = _loads(list(rest))
            carried = [v for v in assigned if v in free or v in after]
            if len(carried) != 1:
                raise Unsupported(f"a for loop must carry exactly one variable (this one carries {carried})")
            if x in after or any(v in after for v in assigned if v not in carried):
                raise Unsupported("a loop-local variable is read after the loop")
            c = carried[0]
            b, it = self.EX(st.iter)
            b, items = self.exc(b, f"(Rbacx.PyE.iterE {it})")
            body = self.SX(st.body, ind + "    ", f"(Except.ok {ident(c)})", self.no_ret)
            k = self.SX(rest, ind, tail, ret)
            return self.wrap(b, f"Rbacx.PyE.bind (Rbacx.PyE.forFold {items} {ident(c)} fun ({ident(c)} : PyVal) ({ident(x)} : PyVal) =>\n"
                                f"{ind}    {body}) fun {ident(c)} =>\n{ind}{k}", ind)
        raise Unsupported(f"statement {ast.unparse(st)[:60]}")

    def plain_ret(self, binds, atom, ind):
        return self.value(binds, atom, ind)

    @staticmethod
    def no_ret(binds, atom, ind):
        raise Unsupported("return inside a for loop")

    def ext_param(self, x: str) -> str:
        return f"({ident(x)} : {' → '.join(['PyVal'] * self.ext_arity[x])} → Except CondErr PyVal)"

    # ------------------------------------------------------------------ functions
    def ext_uses(self, fn: ast.FunctionDef, fns: dict[str, ast.FunctionDef], seen: set[str]) -> set[str]:
        out: set[str] = set()
        for n in ast.walk(fn):
            if isinstance(n, ast.Call) and isinstance(n.func, ast.Name):
                if n.func.id in self.externals:
                    out.add(n.func.id)
                elif n.func.id in self.known and n.func.id not in seen and n.func.id in fns:
                    out |= self.ext_uses(fns[n.func.id], fns, seen | {n.func.id})
                elif n.func.id in self.presigs and n.func.id not in self.known:
                    for x, arity in self.presigs[n.func.id]["exts"]:
                        out.add(x)
                        self.ext_arity.setdefault(x, arity)
        return out

    def str_uses(self, fn: ast.FunctionDef, fns: dict[str, ast.FunctionDef], seen: set[str]) -> bool:
        for n in ast.walk(fn):
            if isinstance(n, ast.Call) and isinstance(n.func, ast.Name):
                if n.func.id == "str":
                    return True
                if n.func.id not in self.known and ((self.pure_callees.get(n.func.id) or {}).get("oracle") or (self.presigs.get(n.func.id) or {}).get("oracle")):
                    return True
                if n.func.id in self.known and n.func.id not in seen and n.func.id in fns and self.str_uses(fns[n.func.id], fns, seen | {n.func.id}):
                    return True
        return False

    def fuel_uses(self, fn: ast.FunctionDef, fns: dict[str, ast.FunctionDef]) -> bool:
        """does the function call a function that takes a budget (itself, a member of its mutual group, a translated recursive function)?"""
        group = next((g for g in self.mutual if fn.name in g), [])
        for n in ast.walk(fn):
            if isinstance(n, ast.Call) and isinstance(n.func, ast.Name):
                f = n.func.id
                if f == fn.name or f in group:
                    return True
                if f in self.known and f in self.sig and self.sig[f]["fuel"]:
                    return True
                if f not in self.known and f in self.presigs and self.presigs[f]["fuel"]:
                    return True
        return False

    def function_e(self, fn: ast.FunctionDef, fns: dict[str, ast.FunctionDef], ranges: list[dict]) -> dict:
        kwdefaults = {}
        for a, d in zip(fn.args.kwonlyargs, fn.args.kw_defaults):
            if d is None or not isinstance(d, ast.Constant):
                raise Unsupported(f"signature of {fn.name}: keyword-only parameter {a.arg} without a constant default")
            kwdefaults[a.arg] = d.value
        if fn.args.vararg or fn.args.kwarg or fn.args.defaults or fn.args.posonlyargs:
            raise Unsupported(f"signature of {fn.name}")
        all_params = [a.arg for a in fn.args.args + fn.args.kwonlyargs]
        self.loop_stack, self.fresh_dicts = [], set()
        self.pre_loop = {}
        for i, st in enumerate(fn.body):
            if isinstance(st, ast.For):
                top = set(all_params)
                for s0 in fn.body[:i]:
                    if isinstance(s0, (ast.Assign, ast.AnnAssign)) and getattr(s0, "value", None) is not None:
                        tg = s0.targets[0] if isinstance(s0, ast.Assign) and len(s0.targets) == 1 else getattr(s0, "target", None)
                        if isinstance(tg, ast.Name):
                            top.add(tg.id)
                self.pre_loop[id(st)] = (top, set(self._stores(fn.body[:i])) - top)
        self.cur_group = next((g for g in self.mutual if fn.name in g), [])
        self.locals = {a.arg for a in fn.args.args + fn.args.kwonlyargs} | {n.id for n in ast.walk(fn) if isinstance(n, ast.Name) and isinstance(n.ctx, ast.Store)} \
            | {h.name for n in ast.walk(fn) if isinstance(n, ast.Try) for h in n.handlers if h.name}
        self.cur_fn, self.cur_name, self.ntmp, self.fns = fn, fn.name, 0, fns
        self.ranges = [dict(r) for r in ranges]
        self.fragments = []
        self.cur_oracle = self.str_uses(fn, fns, {fn.name})
        uses = self.ext_uses(fn, fns, {fn.name}) | {r["as"][1] for r in self.ranges if r["as"][0] == "external"}
        self.cur_exts = [x for x in self.externals if x in uses]
        self.cur_dec = bool(self.cur_group) or any(isinstance(n, ast.Call) and isinstance(n.func, ast.Name) and n.func.id == fn.name for n in ast.walk(fn))
        self.cur_fuel = self.cur_dec or self.fuel_uses(fn, fns)
        taken = {"o", "fuel"} | {ident(x) for x in self.externals} | {self.lname(k) for k in self.known}
        clash = sorted(v for v in self.locals if ident(v) in taken or ident(v).startswith("t") and ident(v)[1:].isdigit())
        if clash or len({ident(v) for v in self.locals}) != len(self.locals):
            raise Unsupported(f"{fn.name}: variable names clash with names the translation uses: {clash}")
        body = self.SX(list(fn.body), "    " if self.cur_dec else "  ", None, self.plain_ret)
        missing = [r["as"][1] for r in self.ranges if not r.get("done")]
        if missing:
            raise Unsupported(f"{fn.name}: designated statement range(s) not found: {missing}")
        self.sig[fn.name] = {"oracle": self.cur_oracle, "exts": list(self.cur_exts), "fuel": self.cur_fuel}
        notes = []
        if self.cur_oracle:
            notes.append("`o`: the oracle that supplies CPython's `str()` of floats, containers and datetimes")
        for x in self.cur_exts:
            rng = [r for r in self.ranges if r["as"] == ("external", x)]
            if rng:
                notes.append(f"`{ident(x)}`: the statements `if {rng[0]['first']}: …` ({len(rng[0]['args'])} inputs: {', '.join(rng[0]['args'])}), NOT "
                             f"translated — a function parameter whose assumed behaviour is the hand-written model of that branch")
            elif not any(isinstance(n, ast.Call) and isinstance(n.func, ast.Name) and n.func.id == x for n in ast.walk(fn)) and \
                    [f for f, ps in self.presigs.items() if any(x == y for y, _ in ps["exts"])]:
                via = [ps["lean"] for f, ps in self.presigs.items() if any(x == y for y, _ in ps["exts"])]
                notes.append(f"`{ident(x)}`: an external parameter of the translated `{via[0]}`, handed on")
            else:
                notes.append(f"`{ident(x)}`: the function `{x}`, NOT translated — a parameter (the obligation instantiates it with the model's "
                             f"counterpart, the differential run with CPython's results)")
        notes += [f"`{ident(k_)}`: keyword-only in the source, default {v_!r}" for k_, v_ in kwdefaults.items()]
        if self.cur_dec:
            notes.append("`fuel`: budget of nested self-calls (0 ⇒ OutOfFuel); the obligation proves that the size of the document suffices")
        elif self.cur_fuel:
            notes.append("`fuel`: the budget handed on, unchanged, to the recursive functions this one calls")
        doc = "/-- exception-passing translation of `" + fn.name + "`" + "".join("; " + n for n in notes).replace("-/", "- /") + " -/\n"
        head = [self.lname(fn.name)] + (["(o : Oracle)"] if self.cur_oracle else []) + [self.ext_param(x) for x in self.cur_exts] \
            + [f"({ident(a)} : PyVal)" for a in all_params]
        if self.cur_dec:
            text = (f"{doc}def {' '.join(head)} (fuel : Nat) : Except CondErr PyVal :=\n  match fuel with\n  | 0 => Rbacx.PyE.outOfFuel\n"
                    f"  | fuel + 1 =>\n    {body}\n")
        elif self.cur_fuel:
            text = f"{doc}def {' '.join(head)} (fuel : Nat) : Except CondErr PyVal :=\n  {body}\n"
        else:
            text = f"{doc}def {' '.join(head)} : Except CondErr PyVal :=\n  {body}\n"
        return {"lean": "".join(f + "\n" for f in self.fragments) + text, "oracle": self.cur_oracle,
                "externals": [[x, self.ext_arity[x]] for x in self.cur_exts], "fuel": self.cur_fuel,
                "params": all_params, "defaults": kwdefaults, "lean_name": self.lname(fn.name),
                "ranges": [{"as": list(r["as"]), "args": r.get("args"), "first": r["first"], "last": r["last"]} for r in self.ranges]}


def translate(source: str, names: list[str], externals: list[str], ranges: dict[str, list[dict]] | None = None,
              lean_names: dict[str, str] | None = None, pure_callees: dict[str, dict] | None = None, presigs: dict[str, dict] | None = None,
              mutual: list[list[str]] | None = None) -> dict[str, dict]:
    """{python function name: {"lean": text, "oracle", "externals": [[name, arity]…], "fuel", "params", "ranges"}} in the order given
    (callees first).  `ranges[fn]` = designated statement ranges of `fn` (module docstring): `{"first": test text, "last": test text,
    "as": ("external" | "fragment", name)}`."""
    tree = ast.parse(source)
    fns = {n.name: n for n in tree.body if isinstance(n, ast.FunctionDef)}
    tr = ExceptTranslator(names, pytolean._module_consts(tree), externals, lean_names, pure_callees, presigs, mutual)
    out = {}
    for name in names:
        if name not in fns:
            raise Unsupported(f"function {name} not found")
    for g in mutual or []:
        # the members of a mutual group call one another before they are translated: their common signature first
        if [n for n in names if n in g] != list(g) or names.index(g[-1]) - names.index(g[0]) != len(g) - 1:
            raise Unsupported(f"the functions of the mutual group {g} must be listed together, in this order")
        oracle = any(tr.str_uses(fns[n], fns, {n}) for n in g)
        uses: set[str] = set()
        for n in g:
            uses |= tr.ext_uses(fns[n], fns, {n})
        for n in g:
            tr.sig[n] = {"oracle": oracle, "exts": [x for x in externals if x in uses], "fuel": True}
    for name in names:
        try:
            group = next((g for g in mutual or [] if name in g), None)
            pre = dict(tr.sig[name]) if group else None
            out[name] = tr.function_e(fns[name], fns, (ranges or {}).get(name, []))
            if pre is not None and (pre["oracle"], pre["exts"]) != (tr.sig[name]["oracle"], tr.sig[name]["exts"]):
                raise Unsupported(f"mutual group {group}: the members do not agree on oracle / externals ({pre} vs {tr.sig[name]})")
        except Unsupported as e:
            raise Unsupported(f"{name}: {e}") from e
    for g in mutual or []:
        out[g[0]]["lean"] = "mutual\n" + out[g[0]]["lean"]
        out[g[-1]]["lean"] = out[g[-1]]["lean"] + "end\n"
    return out


if __name__ == "__main__":
    import sys
    src = open(sys.argv[1], encoding="utf-8").read()
    for k, v in translate(src, sys.argv[2:], ["getattr", "_parse_dt"]).items():
        print(v["lean"])
