"""Syntax-directed translation of a class whose methods TALK TO A RESPONSE OBJECT and keep a little state (C10 / C17:
`HTTPPolicySource.load`, `etag`, the state-creating statements of `__init__`; store/http_store.py) into Lean.
Meanings: lean/Rbacx/Model/PyHttp.lean (namespace `Rbacx.PyH`); exception objects and the class table are `Rbacx.PyX`'s
(harness/pytolean_cli.py).  A sibling of pytolean_cli.py (exception objects, collaborators as outcome parameters) and pytolean_state.py
(fields as a record passed in and out); it shares no code with them, so nothing other plugins emit can change.

READING
* STATE AND EXCEPTION PASSING.  `self.<state field> = e` rebinds `st`; a statement list is a term `σ × Except Exc (Flow τ)`: the fields
  after it ran — ALSO when an exception escaped: what was assigned before the raise stays assigned —, and how it ended (`.error e` /
  `.ok (.ret v)` / `.ok (.next <live locals the statement assigned>)`).  `if` and `try` statements are joined with what follows by
  `PyH.thenFlow`, whose payload is computed by a backward liveness analysis (locals assigned inside ∩ live afterwards).
* CONFIGURATION fields (`self.url`, …: assigned by `__init__` only) are parameters.
* COLLABORATORS are outcome parameters `… → Except Exc _`, bound with `PyH.bindE` where the call stands (statement level only:
  `x = f(…)`, `f(…)`, `x = f(…) if c else e` — the latter read as the `if` statement it abbreviates): the designated `externals`
  (`requests.get(url, headers=…, timeout=…)` answers THE RESPONSE OBJECT), `import <module>` for the designated modules; designated PURE
  externals (`_detect_format`) are total function parameters; keyword arguments are put in the declared parameter order, a parameter
  that is not passed is `None`.
* THE RESPONSE OBJECT `r` (the local bound to the outcome of the `resp` external) is a record of outcomes `PyH.Resp`: `hasattr(r, "k")` =
  `r.has k`; `getattr(r, "k", None)` = `r.attr k`; `isinstance(getattr(r, "headers", None), dict)` = `r.headersIsDict`;
  `r.headers.get("K")` = `r.hget K` (an outcome); `r.raise_for_status()` = `r.callRaise`; `r.json()` = `r.callJson i`, `i` = the number of the
  CALL SITE in source order; a local `x` bound by `x = getattr(r, "k", None)` and not rebound is a HANDLE: `isinstance(x, (bytes,
  bytearray))` = `r.isBytes k`, `x.decode("utf-8")` = the outcome `r.decode k`.
* SILENT statements: an expression statement that starts with one of `silent_prefixes` (the `logging` call) and `from <total module>
  import name` are dropped.
Everything else is `pytolean.Unsupported`."""
from __future__ import annotations

import ast
import json
from dataclasses import dataclass, field

from pytolean import Unsupported

KEYWORDS = {"from", "at", "end", "then", "else", "do", "fun", "let", "in", "open", "show", "have", "by", "match", "with", "if", "def",
            "st", "e"}


@dataclass
class Ext:
    lean: str
    params: list
    kind: str = "val"          # "val" | "resp"


@dataclass
class Cfg:
    state_fields: dict                      # python attribute → Lean field
    config_fields: list                     # python attributes read as configuration
    externals: dict                         # callee text → Ext  (may raise)
    pure_externals: dict                    # callee text → Ext  (total)
    imports: dict                           # module → Lean outcome parameter
    total_imports: tuple = ()
    silent_prefixes: tuple = ()
    signatures: dict = field(default_factory=dict)   # lean def → "full" | "state"


def lstr(s: str) -> str:
    return json.dumps(s, ensure_ascii=False)


def lname(n: str) -> str:
    return n + "_" if n in KEYWORDS else n


def pat(vs: list) -> str:
    return "_" if not vs else lname(vs[0]) if len(vs) == 1 else "(" + ", ".join(lname(v) for v in vs) + ")"


def tup(vs: list) -> str:
    return "()" if not vs else lname(vs[0]) if len(vs) == 1 else "(" + ", ".join(lname(v) for v in vs) + ")"


def _desugar(ss: list) -> list:
    """`x = A if C else B` → `if C: x = A else: x = B` (so that a collaborator call in a branch stands at statement level)"""
    out = []
    for s in ss:
        if isinstance(s, (ast.Assign, ast.AnnAssign)) and isinstance(s.value, ast.IfExp):
            tgt = s.targets[0] if isinstance(s, ast.Assign) else s.target
            mk = lambda v: ast.copy_location(ast.Assign(targets=[tgt], value=v), s)   # noqa: E731
            out.append(ast.copy_location(ast.If(test=s.value.test, body=[mk(s.value.body)], orelse=[mk(s.value.orelse)]), s))
        elif isinstance(s, ast.If):
            s.body, s.orelse = _desugar(s.body), _desugar(s.orelse)
            out.append(s)
        elif isinstance(s, ast.Try):
            s.body = _desugar(s.body)
            for h in s.handlers:
                h.body = _desugar(h.body)
            out.append(s)
        else:
            out.append(s)
    return out


class _Fn:
    def __init__(self, cfg: Cfg, fn: ast.FunctionDef, sig: str):
        self.cfg, self.fn, self.sig = cfg, fn, sig
        self.resp: set = set()
        self.handles: dict = {}
        self.dropped: list = []
        self.locals: set = {n.id for n in ast.walk(fn) if isinstance(n, ast.Name) and isinstance(n.ctx, ast.Store)}
        self.locals |= {h.name for h in ast.walk(fn) if isinstance(h, ast.ExceptHandler) and h.name}
        sites = sorted((n.lineno, n.col_offset) for n in ast.walk(fn)
                       if isinstance(n, ast.Call) and isinstance(n.func, ast.Attribute) and n.func.attr == "json" and not n.args)
        self.json_sites = {pos: i + 1 for i, pos in enumerate(sites)}

    # ------------------------------------------------------------------ liveness
    def uses(self, e) -> set:
        if e is None:
            return set()
        return {n.id for n in ast.walk(e) if isinstance(n, ast.Name) and isinstance(n.ctx, ast.Load) and n.id in self.locals}

    def _setdefault_recv(self, s):
        if (isinstance(s, ast.Expr) and isinstance(s.value, ast.Call) and isinstance(s.value.func, ast.Attribute)
                and s.value.func.attr == "setdefault" and isinstance(s.value.func.value, ast.Name)):
            return s.value.func.value.id
        return None

    def assigned(self, ss) -> list:
        out: list = []
        for s in ss:
            for n in ast.walk(s):
                if isinstance(n, ast.Name) and isinstance(n.ctx, ast.Store) and n.id not in out:
                    out.append(n.id)
            for n in ast.walk(s):
                if isinstance(n, ast.Expr):
                    r = self._setdefault_recv(n)
                    if r and r not in out:
                        out.append(r)
        return out

    def live(self, ss, after: set) -> set:
        L = set(after)
        for s in reversed(ss):
            if isinstance(s, (ast.Assign, ast.AnnAssign)):
                tgt = s.targets[0] if isinstance(s, ast.Assign) else s.target
                if isinstance(tgt, ast.Name):
                    L = (L - {tgt.id}) | self.uses(s.value)
                else:
                    L = L | self.uses(s.value)
            elif isinstance(s, ast.Expr):
                L = L | self.uses(s.value)
            elif isinstance(s, ast.Return):
                L = self.uses(s.value)
            elif isinstance(s, ast.Raise):
                L = self.uses(s.exc)
            elif isinstance(s, ast.If):
                L = self.uses(s.test) | self.live(s.body, L) | self.live(s.orelse, L)
            elif isinstance(s, ast.Try):
                Lh = set()
                for h in s.handlers:
                    Lh |= self.live(h.body, L) - ({h.name} if h.name else set())
                L = self.live(s.body, L | Lh) | Lh
            elif isinstance(s, (ast.Import, ast.ImportFrom, ast.Pass)):
                pass
            else:
                raise Unsupported(f"line {s.lineno}: statement {type(s).__name__}")
        return L

    # ------------------------------------------------------------------ expressions (pure, PyVal)
    def is_resp(self, e) -> bool:
        return isinstance(e, ast.Name) and e.id in self.resp

    def const_str(self, e) -> str:
        if isinstance(e, ast.Constant) and isinstance(e.value, str):
            return e.value
        raise Unsupported(f"line {e.lineno}: a constant string is expected, found `{ast.unparse(e)}`")

    def getattr_of_resp(self, e):
        """`getattr(r, "k", None)` → (r, k)"""
        if (isinstance(e, ast.Call) and isinstance(e.func, ast.Name) and e.func.id == "getattr" and len(e.args) == 3 and not e.keywords
                and self.is_resp(e.args[0]) and isinstance(e.args[2], ast.Constant) and e.args[2].value is None):
            return e.args[0].id, self.const_str(e.args[1])
        return None

    def self_attr(self, e):
        if isinstance(e, ast.Attribute) and isinstance(e.value, ast.Name) and e.value.id == "self":
            return e.attr
        return None

    def args_of(self, call: ast.Call, ext: Ext) -> list:
        vals = {}
        if len(call.args) > len(ext.params):
            raise Unsupported(f"line {call.lineno}: too many arguments for `{ast.unparse(call.func)}`")
        for p, a in zip(ext.params, call.args):
            vals[p] = self.expr(a)
        for kw in call.keywords:
            if kw.arg is None or kw.arg not in ext.params or kw.arg in vals:
                raise Unsupported(f"line {call.lineno}: argument `{kw.arg}` of `{ast.unparse(call.func)}`")
            vals[kw.arg] = self.expr(kw.value)
        return [vals.get(p, "PyVal.none") for p in ext.params]

    def expr(self, e) -> str:
        if isinstance(e, ast.Constant):
            v = e.value
            if v is None:
                return "PyVal.none"
            if isinstance(v, bool):
                return f"(PyVal.bool {'true' if v else 'false'})"
            if isinstance(v, int):
                return f"(PyVal.int {v})" if v >= 0 else f"(PyVal.int ({v}))"
            if isinstance(v, str):
                return f"(PyVal.str {lstr(v)})"
            raise Unsupported(f"line {e.lineno}: constant {v!r}")
        if isinstance(e, ast.Name):
            if e.id in self.resp:
                raise Unsupported(f"line {e.lineno}: the response object `{e.id}` used as a value")
            if e.id in self.locals:
                return lname(e.id)
            raise Unsupported(f"line {e.lineno}: name `{e.id}`")
        a = self.self_attr(e)
        if a is not None:
            if a in self.cfg.state_fields:
                return f"st.{self.cfg.state_fields[a]}"
            if a in self.cfg.config_fields:
                return a
            raise Unsupported(f"line {e.lineno}: attribute `self.{a}` is neither a state field nor configuration")
        if isinstance(e, ast.Dict) and not e.keys:
            return "(PyVal.dict [])"
        if isinstance(e, ast.BoolOp):
            op = "PyVal.por" if isinstance(e.op, ast.Or) else "Rbacx.Py.pand"
            vals = [self.expr(v) for v in e.values]
            acc = vals[-1]
            for v in reversed(vals[:-1]):
                acc = f"({op} {v} {acc})"
            return acc
        if isinstance(e, ast.UnaryOp) and isinstance(e.op, ast.Not):
            return f"(Rbacx.Py.pnot {self.expr(e.operand)})"
        if isinstance(e, ast.Compare) and len(e.ops) == 1:
            l, op, r = e.left, e.ops[0], e.comparators[0]
            if isinstance(op, (ast.Is, ast.IsNot)) and isinstance(r, ast.Constant) and r.value is None:
                return f"(Rbacx.Py.{'isNone' if isinstance(op, ast.Is) else 'isNotNone'} {self.expr(l)})"
            if isinstance(op, (ast.Eq, ast.NotEq)):
                return f"(Rbacx.Py.{'eq' if isinstance(op, ast.Eq) else 'ne'} {self.expr(l)} {self.expr(r)})"
            if isinstance(op, ast.In):
                return f"(Rbacx.Py.contains {self.expr(r)} {self.expr(l)})"
            raise Unsupported(f"line {e.lineno}: comparison `{ast.unparse(e)}`")
        if isinstance(e, ast.Call):
            f = ast.unparse(e.func)
            g = self.getattr_of_resp(e)
            if g:
                return f"({lname(g[0])}.attr {lstr(g[1])})"
            if f == "hasattr" and len(e.args) == 2 and self.is_resp(e.args[0]):
                return f"(PyH.b2v ({lname(e.args[0].id)}.has {lstr(self.const_str(e.args[1]))}))"
            if f == "isinstance" and len(e.args) == 2:
                x, ty = e.args
                tyt = ast.unparse(ty)
                gx = self.getattr_of_resp(x)
                if gx and gx[1] == "headers" and tyt == "dict":
                    return f"(PyH.b2v {lname(gx[0])}.headersIsDict)"
                if tyt in ("(bytes, bytearray)", "(bytearray, bytes)", "bytes"):
                    if isinstance(x, ast.Name) and x.id in self.handles:
                        r, k = self.handles[x.id]
                        return f"({lname(r)}.isBytes {lstr(k)})"
                    raise Unsupported(f"line {e.lineno}: `{ast.unparse(e)}`: not a handle of a response attribute")
                if tyt in ("str", "dict", "list", "bool", "int"):
                    return f"(Rbacx.Py.isInstance {self.expr(x)} {lstr(tyt)})"
                raise Unsupported(f"line {e.lineno}: `{ast.unparse(e)}`")
            if f == "dict" and len(e.args) == 1 and not e.keywords:
                return f"(Rbacx.Py.dictCopy {self.expr(e.args[0])})"
            if isinstance(e.func, ast.Attribute) and e.func.attr == "lower" and not e.args:
                return f"(Rbacx.Py.lower {self.expr(e.func.value)})"
            if f in self.cfg.pure_externals:
                ext = self.cfg.pure_externals[f]
                return f"({ext.lean} {' '.join(self.args_of(e, ext))})"
            raise Unsupported(f"line {e.lineno}: call `{ast.unparse(e)}` inside an expression")
        raise Unsupported(f"line {e.lineno}: expression `{ast.unparse(e)}`")

    def test(self, e) -> str:
        return f"({self.expr(e)}).truthy"

    # ------------------------------------------------------------------ calls that may raise
    def effect(self, e):
        """(Lean term : Except Exc _, kind) when `e` is a call of a collaborator, else None"""
        if not isinstance(e, ast.Call):
            return None
        f = ast.unparse(e.func)
        if f in self.cfg.externals:
            ext = self.cfg.externals[f]
            self._need(ext.lean, e)
            return f"{ext.lean} {' '.join(self.args_of(e, ext))}", ext.kind
        if isinstance(e.func, ast.Attribute):
            recv, m = e.func.value, e.func.attr
            if self.is_resp(recv) and m == "raise_for_status" and not e.args and not e.keywords:
                return f"{lname(recv.id)}.callRaise", "val"
            if self.is_resp(recv) and m == "json" and not e.args and not e.keywords:
                return f"{lname(recv.id)}.callJson {self.json_sites[(e.lineno, e.col_offset)]}", "val"
            if (m == "get" and isinstance(recv, ast.Attribute) and recv.attr == "headers" and self.is_resp(recv.value)
                    and len(e.args) == 1 and not e.keywords):
                return f"{lname(recv.value.id)}.hget {lstr(self.const_str(e.args[0]))}", "val"
            if m == "decode" and isinstance(recv, ast.Name) and recv.id in self.handles and len(e.args) == 1 \
                    and self.const_str(e.args[0]).lower().replace("-", "") == "utf8":
                r, k = self.handles[recv.id]
                return f"{lname(r)}.decode {lstr(k)}", "val"
        return None

    def _need(self, lean: str, at):
        if self.sig != "full":
            raise Unsupported(f"line {at.lineno}: collaborator `{lean}` is reached from a method that is declared not to reach any")

    # ------------------------------------------------------------------ statements
    def block(self, ss: list, carried: list, after: set) -> str:
        if not ss:
            return f"(st, .ok (.next {tup(carried)}))"
        s, rest = ss[0], ss[1:]
        cont = lambda: self.block(rest, carried, after)   # noqa: E731
        if isinstance(s, ast.Pass):
            return cont()
        if isinstance(s, ast.Import):
            out = None
            for al in s.names:
                if al.name in self.cfg.imports and al.asname is None:
                    self._need(self.cfg.imports[al.name], s)
                    out = self.cfg.imports[al.name]
                elif al.name not in self.cfg.total_imports:
                    raise Unsupported(f"line {s.lineno}: import of `{al.name}`")
            if out is None or len(s.names) != 1:
                if out is None:
                    return cont()
                raise Unsupported(f"line {s.lineno}: several modules in one import")
            return f"PyH.bindE st {out} fun _ =>\n{cont()}"
        if isinstance(s, ast.ImportFrom):
            if s.module not in self.cfg.total_imports:
                raise Unsupported(f"line {s.lineno}: `{ast.unparse(s)}`")
            self.dropped.append(ast.unparse(s))
            return cont()
        if isinstance(s, (ast.Assign, ast.AnnAssign)):
            if isinstance(s, ast.Assign) and len(s.targets) != 1 or s.value is None:
                raise Unsupported(f"line {s.lineno}: `{ast.unparse(s)}`")
            tgt = s.targets[0] if isinstance(s, ast.Assign) else s.target
            eff = self.effect(s.value)
            fld = self.self_attr(tgt)
            if fld is not None:
                if fld not in self.cfg.state_fields or eff:
                    raise Unsupported(f"line {s.lineno}: assignment to `self.{fld}`")
                return f"let st := {{ st with {self.cfg.state_fields[fld]} := {self.expr(s.value)} }}\n{cont()}"
            if not isinstance(tgt, ast.Name):
                raise Unsupported(f"line {s.lineno}: assignment target `{ast.unparse(tgt)}`")
            x = tgt.id
            if eff:
                term, kind = eff
                self.handles.pop(x, None)
                self.resp.discard(x)
                if kind == "resp":
                    self.resp.add(x)
                return f"PyH.bindE st ({term}) fun {lname(x)} =>\n{cont()}"
            g = self.getattr_of_resp(s.value)
            val = self.expr(s.value)
            self.handles.pop(x, None)
            self.resp.discard(x)
            if g:
                self.handles[x] = g
            return f"let {lname(x)} := {val}\n{cont()}"
        if isinstance(s, ast.Expr):
            txt = ast.unparse(s.value)
            if any(txt.startswith(p) for p in self.cfg.silent_prefixes):
                self.dropped.append(txt.split("(")[0] + "(…)" if len(txt) > 60 else txt)
                return cont()
            recv = self._setdefault_recv(s)
            if recv is not None:
                c = s.value
                if len(c.args) != 2 or c.keywords or recv in self.resp:
                    raise Unsupported(f"line {s.lineno}: `{txt}`")
                return (f"let {lname(recv)} := PyH.setdefault {lname(recv)} {lstr(self.const_str(c.args[0]))} {self.expr(c.args[1])}\n{cont()}")
            eff = self.effect(s.value)
            if eff:
                return f"PyH.bindE st ({eff[0]}) fun _ =>\n{cont()}"
            raise Unsupported(f"line {s.lineno}: expression statement `{txt}`")
        if isinstance(s, ast.Return):
            return f"(st, .ok (.ret {self.expr(s.value) if s.value is not None else 'PyVal.none'}))"
        if isinstance(s, ast.Raise):
            if isinstance(s.exc, ast.Call) and isinstance(s.exc.func, ast.Name):
                return f"(st, .error {{ cls := {lstr(s.exc.func.id)} }})"
            raise Unsupported(f"line {s.lineno}: `{ast.unparse(s)}`")
        if isinstance(s, (ast.If, ast.Try)):
            live_rest = self.live(rest, after) | set(carried)
            vs = [v for v in self.assigned([s]) if v in live_rest]
            if isinstance(s, ast.If):
                saved = dict(self.handles)
                tst = self.test(s.test)
                a = self.block(s.body, vs, live_rest)
                h1, self.handles = self.handles, dict(saved)
                b = self.block(s.orelse, vs, live_rest)
                self.handles = {k: v for k, v in self.handles.items() if h1.get(k) == v}
                inner = f"if {tst} then\n{_indent(a)}\nelse\n{_indent(b)}"
            else:
                if len(s.handlers) != 1 or s.orelse or s.finalbody:
                    raise Unsupported(f"line {s.lineno}: `try` with {len(s.handlers)} handlers / else / finally")
                h = s.handlers[0]
                classes = ([h.type.id] if isinstance(h.type, ast.Name) else
                           [c.id for c in h.type.elts] if isinstance(h.type, ast.Tuple) and all(isinstance(c, ast.Name) for c in h.type.elts) else None)
                if not classes:
                    raise Unsupported(f"line {s.lineno}: handler `{ast.unparse(h.type) if h.type else 'bare except'}`")
                body_assigned = set(self.assigned(s.body))
                top = {t.id for st_ in h.body if isinstance(st_, (ast.Assign, ast.AnnAssign))
                       for t in ([st_.target] if isinstance(st_, ast.AnnAssign) else st_.targets) if isinstance(t, ast.Name)}
                ends = bool(h.body) and isinstance(h.body[-1], (ast.Raise, ast.Return))
                partial = [v for v in vs if v in body_assigned and v not in top]
                if partial and not ends:
                    raise Unsupported(f"line {s.lineno}: `{partial[0]}` is assigned in the `try` body, live afterwards and not re-assigned by the handler")
                if self.live(h.body, live_rest) & body_assigned:
                    raise Unsupported(f"line {s.lineno}: the handler reads a local the `try` body assigns")
                saved = dict(self.handles)
                a = self.block(s.body, vs, live_rest)
                self.handles = {k: v for k, v in saved.items() if k not in body_assigned}
                b = self.block(h.body, vs, live_rest)
                self.handles = {k: v for k, v in self.handles.items() if k not in set(self.assigned(h.body))}
                inner = (f"PyH.tryCatch (\n{_indent(a)}) [{', '.join(lstr(c) for c in classes)}] (fun st {lname(h.name) if h.name else '_'} =>\n{_indent(b)})")
            for v in vs:
                self.resp.discard(v)
            return f"PyH.thenFlow (\n{_indent(inner)}) fun st {pat(vs)} =>\n{cont()}"
        raise Unsupported(f"line {s.lineno}: statement `{type(s).__name__}`")


def _indent(t: str) -> str:
    return "\n".join("  " + ln for ln in t.splitlines())


def _params(cfg: Cfg, sig: str) -> str:
    ps = [f"({' '.join(cfg.config_fields)} : PyVal)"] if cfg.config_fields else []
    if sig == "full":
        for m, nm in cfg.imports.items():
            ps.append(f"({nm} : Except PyH.Exc PyVal)")
        for ext in cfg.externals.values():
            res = "PyH.Resp" if ext.kind == "resp" else "PyVal"
            ps.append(f"({ext.lean} : {' → '.join(['PyVal'] * len(ext.params))} → Except PyH.Exc {res})")
        for ext in cfg.pure_externals.values():
            ps.append(f"({ext.lean} : {' → '.join(['PyVal'] * len(ext.params))} → PyVal)")
    return " ".join(ps)


def translate_class(src: str, cls: str, methods: dict, cfg: Cfg, prefix: str, init_fields_from: str | None = "__init__") -> dict:
    """methods: python method → Lean name.  `init_fields_from`: the method whose assignments to the state fields become
    `<prefix>init` (every other statement of it must be `self.<configuration> = <expression>` and is left out)."""
    mod = ast.parse(src)
    cdef = next((n for n in mod.body if isinstance(n, ast.ClassDef) and n.name == cls), None)
    if cdef is None:
        raise Unsupported(f"class {cls} not found")
    fns = {n.name: n for n in cdef.body if isinstance(n, ast.FunctionDef)}
    st_name = f"{prefix}State"
    out = [f"structure {st_name} where", *[f"  {f} : PyVal" for f in cfg.state_fields.values()], "", f"instance : Inhabited {st_name} := ⟨⟨"
           + ", ".join(["PyVal.none"] * len(cfg.state_fields)) + "⟩⟩", ""]
    info: dict = {"json_sites": {}, "dropped": {}, "signatures": {}}

    def emit(lean: str, fn: ast.FunctionDef, body: list, doc: str):
        sig = cfg.signatures.get(lean, "full")
        if [a.arg for a in fn.args.args] != ["self"] and fn.name != init_fields_from:
            raise Unsupported(f"{fn.name}: parameters other than self")
        t = _Fn(cfg, fn, sig)
        term = t.block(_desugar(body), [], set())
        info["json_sites"][lean] = [ln for (ln, _c), _i in sorted(t.json_sites.items(), key=lambda kv: kv[1])]
        info["dropped"][lean] = t.dropped
        info["signatures"][lean] = sig
        dropped = ("; left out (silent): " + "; ".join(t.dropped)) if t.dropped else ""
        out.append(f"/-- {doc}{dropped} -/".replace("-/ -/", "-/"))
        out.append(f"def {lean} {_params(cfg, sig)} (st : {st_name}) : {st_name} × Except PyH.Exc PyVal :=\n  PyH.finish (\n{_indent(_indent(term))})\n")

    for py, lean in methods.items():
        if py not in fns:
            raise Unsupported(f"method {cls}.{py} not found")
        body = [s for s in fns[py].body if not (isinstance(s, ast.Expr) and isinstance(s.value, ast.Constant) and isinstance(s.value.value, str))]
        emit(lean, fns[py], body, f"`{cls}.{py}` (lines {fns[py].lineno}–{fns[py].end_lineno})")
    if init_fields_from:
        fn = fns.get(init_fields_from)
        if fn is None:
            raise Unsupported(f"method {cls}.{init_fields_from} not found")
        keep, cfg_assigned = [], []
        for s in fn.body:
            tgt = s.targets[0] if isinstance(s, ast.Assign) and len(s.targets) == 1 else s.target if isinstance(s, ast.AnnAssign) else None
            a = tgt.attr if isinstance(tgt, ast.Attribute) and isinstance(tgt.value, ast.Name) and tgt.value.id == "self" else None
            if a in cfg.state_fields:
                keep.append(s)
            elif a in cfg.config_fields:
                cfg_assigned.append(a)
            elif isinstance(s, ast.Expr) and isinstance(s.value, ast.Constant):
                continue
            else:
                raise Unsupported(f"{init_fields_from} line {s.lineno}: `{ast.unparse(s)[:60]}` is neither a state field nor a configuration assignment")
        missing = [f for f in cfg.state_fields if f not in {(k.targets[0] if isinstance(k, ast.Assign) else k.target).attr for k in keep}]
        if missing:
            raise Unsupported(f"{init_fields_from} does not assign the state field(s) {missing}")
        info["config_assigned"] = cfg_assigned
        emit(f"{prefix}init", fn, keep, f"the state-creating statements of `{cls}.{init_fields_from}` (configuration assignments left out: "
             + ", ".join(cfg_assigned) + ")")
    # which methods assign a state field other than through these definitions?
    others = [n.name for n in cdef.body if isinstance(n, ast.FunctionDef) and n.name not in methods and n.name != init_fields_from
              and any(isinstance(t, ast.Attribute) and isinstance(t.ctx, ast.Store) and t.attr in cfg.state_fields for t in ast.walk(n))]
    if others:
        raise Unsupported(f"method(s) {others} assign state fields and are not translated")
    info["lean"] = "\n".join(out)
    return info
