"""Source-to-Lean translator for the LINTER's cross-rule analysis (C17: `analyze_policy` / `analyze_policyset` of dsl/lint.py).

A sibling of `pytolean.py` (expressions are inherited from `pytolean.Translator.E`; nothing the existing plugins emit changes).
Meanings of the new operations: `lean/Rbacx/Model/PyLint.lean` (namespace `Rbacx.PyLn`).  Anything outside the subset raises
`pytolean.Unsupported` with a ONE-LINE message.

LINTER EXTENSIONS — a function becomes ONE Lean expression over `PyVal`; value semantics (a local list is only ever appended to, a
local dict only assigned into, and neither is aliased: `x.append(e)` is accepted only on a local that was bound to a list display /
carried, `x[k] = v` only on a local bound by `dict(…)`):

* STATEMENTS: `x = e` / `x: T = e` (`let`), `x.append(e)` (`let x := PyLn.append x e`), `x["k"] = e` (`let x := Py.setItem x "k" e`),
  `return e`, docstrings, `pass`.
* `if` whose branches cannot leave it by `return`/`break`/`continue` (loops inside keep their own `break`s): a PHI — `let (w…) := if c
  then (<body>; (w…)) else (<orelse>; (w…))` over the variables `w…` the `if` assigns that are LIVE afterwards (real liveness analysis,
  so a temporary first assigned inside is not mentioned in the other branch).  Any other `if`: the statements after it are
  duplicated into the branches that fall through (guard style).
* `for T in range(a, b)` / `for i, x in enumerate(e)` / `for x in e` with `break` and `continue`: `let σ := PyLn.forStep (fun T σ => <body>)
  <items> σ`, σ = the CARRIED variables = assigned in the body and live at the loop head (tuple when several); the body ends in
  `Step.next σ` (fell off the end / `continue`) or `Step.brk σ` (`break`).  No `return` inside a loop, no `for/else`; a loop target may
  not be read after the loop.
* EXTERNAL RANGES (`ranges={fn: [("for_run", lean name)]}`: the FIRST top-level `for` statement of the function and the `for` statements
  that follow it immediately — a structural designator, so renaming locals does not move it): a contiguous top-level statement range
  that stays OUTSIDE the translation becomes an application of a function parameter to the variables it may read before assigning
  them (order of first occurrence in the text); it must assign exactly ONE variable that is live afterwards — the result — and may
  not `return`.  The translation says nothing about what the range computes.
* EXTERNAL FUNCTIONS (`externals=[…]`): module-level functions that stay outside are function parameters (as in `pytolean.py`).
* EXPRESSIONS added: `len(x)` (`PyLn.lenV`), `x[i]` (`PyLn.index`; an IndexError is not represented), `a + b` on ints (`PyLn.add`),
  a dict display with DISTINCT constant keys (`PyVal.dict [...]` literally), `set(a) & set(b)` ONLY as an `if` test (`PyLn.shares a b`:
  some member of `a` equals some member of `b`; members are hashable — `_actions` returns strings), `set(e)` as a value (`PyLn.setOf`: the
  list of its members, to be used by `issubset` only) and `a.issubset(b)` (`PyLn.issubset`), a call of a translated function
  with keyword arguments (matched to the callee's parameters; missing ones take their constant defaults), `str(x)` through the
  oracle parameter `o` (CPython's text of floats/containers).
* `d.get(k)` on a non-dict raises AttributeError in CPython and is `None` here (as everywhere in the framework): the obligations
  speak about documents whose rules / children are dicts.
"""
from __future__ import annotations

import ast
import dataclasses

import pytolean
from pytolean import Unsupported, ident, lean_str

PYLN = "Rbacx.PyLn."


@dataclasses.dataclass
class Cfg:
    externals: list            # module-level functions that stay outside, in parameter order
    ranges: dict               # {python fn: [(first prefix, last prefix, lean parameter name)]}
    lean_names: dict           # {python fn: lean definition name}


def _pos(n: ast.AST):
    return (getattr(n, "lineno", 0), getattr(n, "col_offset", 0))


class LintTranslator(pytolean.Translator):
    def __init__(self, fns: dict, cfg: Cfg, consts: dict):
        super().__init__(set(cfg.lean_names), consts, joins=False, oracle=True, externals=list(cfg.externals))
        self.fns = fns
        self.cfg = cfg
        self.sig: dict[str, list] = {}        # python fn -> [param names]
        self.defaults: dict[str, dict] = {}
        self.uses: dict[str, list] = {}       # python fn -> external parameters (functions and ranges) it takes, in order
        self.range_arity: dict[str, list] = {}
        self.cur_uses: list = []
        self.cur_oracle = True

    # ------------------------------------------------------------------ expressions
    def E(self, e: ast.expr) -> str:
        if isinstance(e, ast.Dict) and e.keys and all(isinstance(k, ast.Constant) and isinstance(k.value, str) for k in e.keys) \
                and len({k.value for k in e.keys}) == len(e.keys):
            return "(PyVal.dict [" + ", ".join(f"({lean_str(k.value)}, {self.E(v)})" for k, v in zip(e.keys, e.values)) + "])"
        if isinstance(e, ast.Subscript) and isinstance(e.ctx, ast.Load) and not isinstance(e.slice, ast.Slice):
            return f"({PYLN}index {self.E(e.value)} {self.E(e.slice)})"
        if isinstance(e, ast.BinOp) and isinstance(e.op, ast.Add):
            return f"({PYLN}add {self.E(e.left)} {self.E(e.right)})"
        if isinstance(e, ast.Call) and isinstance(e.func, ast.Attribute) and e.func.attr == "issubset" and len(e.args) == 1 and not e.keywords:
            return f"({PYLN}issubset {self.E(e.func.value)} {self.E(e.args[0])})"
        if isinstance(e, ast.Call) and isinstance(e.func, ast.Name) and e.func.id not in self.locals:
            f = e.func.id
            if f == "len" and len(e.args) == 1 and not e.keywords:
                return f"({PYLN}lenV {self.E(e.args[0])})"
            if f == "set" and len(e.args) == 1 and not e.keywords:
                return f"({PYLN}setOf {self.E(e.args[0])})"
            if f in self.externals and f not in self.known:
                if f not in self.cur_uses:
                    self.cur_uses.append(f)
                return super().E(e)
            if f in self.known:
                if f not in self.sig:
                    raise Unsupported(f"call of {f} before it is translated (callees first)")
                params = self.sig[f]
                if any(isinstance(a, ast.Starred) for a in e.args) or any(k.arg is None for k in e.keywords) or len(e.args) > len(params):
                    raise Unsupported(f"call shape {ast.unparse(e)[:60]}")
                given = {p: self.E(a) for p, a in zip(params, e.args)}
                for k in e.keywords:
                    if k.arg not in params or k.arg in given:
                        raise Unsupported(f"keyword {k.arg} in {ast.unparse(e)[:60]}")
                    given[k.arg] = self.E(k.value)
                args = []
                for p in params:
                    if p in given:
                        args.append(given[p])
                    elif p in self.defaults[f]:
                        args.append(super().E(self.defaults[f][p]))
                    else:
                        raise Unsupported(f"call of {f} without its parameter {p}")
                for u in self.uses[f]:
                    if u not in self.cur_uses:
                        self.cur_uses.append(u)
                return "(" + " ".join([self.cfg.lean_names[f], "o"] + [ident(u) for u in self.uses[f]] + args) + ")"
        return super().E(e)

    def cond(self, e: ast.expr) -> str:
        def is_set(x):
            return isinstance(x, ast.Call) and isinstance(x.func, ast.Name) and x.func.id == "set" and "set" not in self.locals \
                and len(x.args) == 1 and not x.keywords
        if isinstance(e, ast.BinOp) and isinstance(e.op, ast.BitAnd) and is_set(e.left) and is_set(e.right):
            return f"{PYLN}shares {self.E(e.left.args[0])} {self.E(e.right.args[0])}"
        return f"({self.E(e)}).truthy"

    # ------------------------------------------------------------------ liveness
    def reads(self, e: ast.AST | None) -> set:
        out: list[str] = []
        if e is not None:
            pytolean._reads(e, self.locals, out)
        return set(out)

    @staticmethod
    def targets(t: ast.expr) -> list:
        if isinstance(t, ast.Name):
            return [t.id]
        if isinstance(t, ast.Tuple) and all(isinstance(x, ast.Name) for x in t.elts):
            return [x.id for x in t.elts]
        raise Unsupported(f"loop target {ast.unparse(t)[:40]}")

    def live(self, stmts: list, out: set, brk: set | None = None, cont: set | None = None) -> set:
        lv = set(out)
        for st in reversed(stmts):
            lv = self.live_stmt(st, lv, brk, cont)
        return lv

    def live_stmt(self, st: ast.stmt, out: set, brk, cont) -> set:
        if isinstance(st, ast.Return):
            return self.reads(st.value)
        if isinstance(st, ast.Break):
            return set(brk or ())
        if isinstance(st, ast.Continue):
            return set(cont or ())
        if isinstance(st, ast.Pass):
            return out
        if isinstance(st, ast.Expr):
            return out | self.reads(st.value)
        if isinstance(st, (ast.Assign, ast.AnnAssign, ast.AugAssign)):
            tgts = st.targets if isinstance(st, ast.Assign) else [st.target]
            val = st.value
            lv = set(out)
            for t in tgts:
                if isinstance(t, ast.Name) and not isinstance(st, ast.AugAssign):
                    lv.discard(t.id)
                elif isinstance(t, ast.Tuple) and all(isinstance(x, ast.Name) for x in t.elts) and not isinstance(st, ast.AugAssign):
                    lv -= {x.id for x in t.elts}
                else:
                    lv |= self.reads(t) | {n.id for n in ast.walk(t) if isinstance(n, ast.Name) and n.id in self.locals}
            return lv | self.reads(val)
        if isinstance(st, ast.If):
            return self.reads(st.test) | self.live(st.body, out, brk, cont) | self.live(st.orelse, out, brk, cont)
        if isinstance(st, ast.For):
            tg = set(self.targets(st.target))
            head = set(out)
            while True:
                new = head | (self.live(st.body, head, out, head) - tg)
                if new == head:
                    break
                head = new
            return self.reads(st.iter) | head
        raise Unsupported(f"statement {type(st).__name__}: {ast.unparse(st)[:50]!r}".replace("\n", " "))

    @staticmethod
    def escapes(stmts: list) -> bool:
        """does the statement list contain a return, or a break/continue that belongs to an ENCLOSING loop?"""
        def walk(n, inloop):
            if isinstance(n, ast.Return):
                return True
            if isinstance(n, (ast.Break, ast.Continue)):
                return not inloop
            if isinstance(n, (ast.For, ast.While)):
                return any(walk(c, True) for c in n.body) or any(walk(c, inloop) for c in n.orelse)
            return any(walk(c, inloop) for c in ast.iter_child_nodes(n) if isinstance(c, ast.stmt))
        return any(walk(s, False) for s in stmts)

    def mods(self, stmts: list) -> list:
        """the locals a statement list may assign OR mutate (a method call on a local / a subscript store counts), in order of first occurrence"""
        found = []
        for s in stmts:
            for n in ast.walk(s):
                if isinstance(n, ast.Name) and isinstance(n.ctx, ast.Store) and n.id in self.locals:
                    found.append((_pos(n), n.id))
                elif isinstance(n, ast.Call) and isinstance(n.func, ast.Attribute) and isinstance(n.func.value, ast.Name) \
                        and n.func.value.id in self.locals and n.func.attr not in ("get", "items", "keys", "values", "lower", "strip", "issubset"):
                    found.append((_pos(n), n.func.value.id))
                elif isinstance(n, ast.Subscript) and isinstance(n.ctx, ast.Store) and isinstance(n.value, ast.Name) and n.value.id in self.locals:
                    found.append((_pos(n), n.value.id))
        out = []
        for _, v in sorted(found):
            if v not in out:
                out.append(v)
        return out

    # ------------------------------------------------------------------ statements
    @staticmethod
    def tup(vs: list) -> str:
        return ident(vs[0]) if len(vs) == 1 else "(" + ", ".join(ident(v) for v in vs) + ")"

    def block(self, stmts: list, ind: str, end: str, live_end: set, brk: str | None, cont: str | None, ret, loop_live=(None, None)) -> str:
        """`end`: the text for running off the end; `live_end`: the variables live there; `brk`/`cont`: texts for break/continue (None =
        not inside a loop); `ret`: wraps a returned value (None = `return` not allowed here); `loop_live`: (live at break, live at continue)"""
        if not stmts:
            return end
        st, rest = stmts[0], stmts[1:]
        nxt = lambda: self.block(rest, ind, end, live_end, brk, cont, ret, loop_live)   # noqa: E731
        for kind, pname in self.cur_ranges:
            if kind != "for_run":
                raise Unsupported(f"unknown range designator {kind}")
            if ret is not None and brk is None and isinstance(st, ast.For) and pname not in self.seen_ranges and st in self.cur_fn.body:
                self.seen_ranges.add(pname)
                k = 0
                while k + 1 < len(stmts) and isinstance(stmts[k + 1], ast.For):
                    k += 1
                rng, after = stmts[:k + 1], stmts[k + 1:]
                if self.escapes(rng):
                    raise Unsupported(f"external range {pname} contains return/break/continue")
                live_after = self.live(after, live_end, *loop_live)
                writes = [v for v in self.mods(rng) if v in live_after]
                if len(writes) != 1:
                    raise Unsupported(f"external range {pname} must assign exactly one variable that is read afterwards, it assigns {writes}")
                rd = self.live(rng, set())
                order: list[str] = []
                for n in sorted((n for s in rng for n in ast.walk(s) if isinstance(n, ast.Name)), key=_pos):
                    if n.id in rd and n.id not in order:
                        order.append(n.id)
                self.range_arity[pname] = order
                self.range_notes.append(f"external range `{pname}` = statements `{ast.unparse(rng[0]).splitlines()[0][:50]}` … "
                                        f"`{ast.unparse(rng[-1]).splitlines()[0][:50]}` ({len(rng)} statements): reads {order}, result {writes[0]}")
                if pname not in self.cur_uses:
                    self.cur_uses.append(pname)
                call = "(" + " ".join([pname] + [ident(v) for v in order]) + ")" if order else pname
                return f"let {ident(writes[0])} := {call}\n{ind}" + self.block(after, ind, end, live_end, brk, cont, ret, loop_live)
        if isinstance(st, ast.Expr) and isinstance(st.value, ast.Constant) and isinstance(st.value.value, str):
            return nxt()
        if isinstance(st, ast.Pass):
            return nxt()
        if isinstance(st, ast.Return):
            if ret is None:
                raise Unsupported("return inside a loop or a phi-if")
            return ret(self.E(st.value) if st.value is not None else "PyVal.none")
        if isinstance(st, ast.Break):
            if brk is None:
                raise Unsupported("break outside a translated loop")
            return brk
        if isinstance(st, ast.Continue):
            if cont is None:
                raise Unsupported("continue outside a translated loop")
            return cont
        if isinstance(st, ast.AnnAssign) and st.value is None:
            return nxt()
        if isinstance(st, (ast.Assign, ast.AnnAssign)):
            tgt = st.targets[0] if isinstance(st, ast.Assign) else st.target
            if isinstance(st, ast.Assign) and len(st.targets) != 1:
                raise Unsupported(f"assignment {ast.unparse(st)[:50]}")
            if isinstance(tgt, ast.Name):
                v = self.E(st.value)
                if isinstance(st.value, (ast.List,)) and not st.value.elts:
                    self.lists.add(tgt.id)
                if isinstance(st.value, ast.Call) and isinstance(st.value.func, ast.Name) and st.value.func.id == "dict":
                    self.dicts.add(tgt.id)
                else:
                    self.dicts.discard(tgt.id)
                return f"let {ident(tgt.id)} := {v}\n{ind}" + nxt()
            if isinstance(tgt, ast.Subscript) and isinstance(tgt.value, ast.Name) and tgt.value.id in self.dicts \
                    and isinstance(tgt.slice, ast.Constant) and isinstance(tgt.slice.value, str):
                x = ident(tgt.value.id)
                return f"let {x} := (Rbacx.Py.setItem {x} {lean_str(tgt.slice.value)} {self.E(st.value)})\n{ind}" + nxt()
            raise Unsupported(f"assignment {ast.unparse(st)[:50]}")
        if isinstance(st, ast.Expr) and isinstance(st.value, ast.Call) and isinstance(st.value.func, ast.Attribute) \
                and st.value.func.attr == "append" and isinstance(st.value.func.value, ast.Name) and len(st.value.args) == 1 \
                and not st.value.keywords:
            x = st.value.func.value.id
            if x not in self.lists:
                raise Unsupported(f"append on {x}, which is not a local bound to a list display")
            return f"let {ident(x)} := ({PYLN}append {ident(x)} {self.E(st.value.args[0])})\n{ind}" + nxt()
        if isinstance(st, ast.If):
            if self.escapes(st.body) or self.escapes(st.orelse):
                a = self.block(st.body + rest, ind + "  ", end, live_end, brk, cont, ret, loop_live)
                b = self.block(st.orelse + rest, ind + "  ", end, live_end, brk, cont, ret, loop_live)
                return f"if {self.cond(st.test)} then\n{ind}  {a}\n{ind}else\n{ind}  {b}"
            live_after = self.live(rest, live_end, *loop_live)
            w = [v for v in self.mods([st]) if v in live_after]
            if not w:
                raise Unsupported(f"an if that assigns nothing that is read afterwards: {ast.unparse(st.test)[:40]}")
            t = self.tup(w)
            a = self.block(st.body, ind + "  ", t, set(w), None, None, None)
            b = self.block(st.orelse, ind + "  ", t, set(w), None, None, None)
            return f"let {t} := (\n{ind}  if {self.cond(st.test)} then\n{ind}    " + a.replace("\n", "\n  ") + f"\n{ind}  else\n{ind}    " \
                + b.replace("\n", "\n  ") + f")\n{ind}" + nxt()
        if isinstance(st, ast.For):
            if st.orelse:
                raise Unsupported("for/else")
            tg = self.targets(st.target)
            live_after = self.live(rest, live_end, *loop_live)
            if set(tg) & live_after:
                raise Unsupported(f"loop target {tg} is read after its loop")
            hd = set(live_after)          # the loop-head live set (fixpoint)
            while True:
                new = hd | (self.live(st.body, hd, live_after, hd) - set(tg))
                if new == hd:
                    break
                hd = new
            carried = [v for v in self.mods(st.body) if v in hd and v not in tg]
            if not carried:
                raise Unsupported("a loop that carries no variable")
            it = st.iter
            if isinstance(it, ast.Call) and isinstance(it.func, ast.Name) and it.func.id == "range" and len(it.args) == 2 and not it.keywords \
                    and len(tg) == 1:
                items = f"({PYLN}range {self.E(it.args[0])} {self.E(it.args[1])})"
                pat = ident(tg[0])
            elif isinstance(it, ast.Call) and isinstance(it.func, ast.Name) and it.func.id == "enumerate" and len(it.args) == 1 \
                    and not it.keywords and len(tg) == 2:
                items = f"({PYLN}enumerate {self.E(it.args[0])})"
                pv = "pair"
                while pv in self.locals:
                    pv += "'"
                pat = pv
            elif len(tg) == 1 and not (isinstance(it, ast.Call) and isinstance(it.func, ast.Name) and it.func.id in ("range", "enumerate", "zip")):
                items = f"(Rbacx.Py.iter {self.E(it)})"
                pat = ident(tg[0])
            else:
                raise Unsupported(f"loop header for {ast.unparse(st.target)} in {ast.unparse(it)[:40]}")
            s = self.tup(carried)
            body = self.block(st.body, ind + "    ", f"{PYLN}Step.next {s}", hd, f"{PYLN}Step.brk {s}", f"{PYLN}Step.next {s}", None,
                              (live_after, hd))
            unpack = f"let {ident(tg[0])} := {pat}.1\n{ind}    let {ident(tg[1])} := {pat}.2\n{ind}    " if len(tg) == 2 else ""
            return f"let {s} := {PYLN}forStep (fun {pat} {s} =>\n{ind}    {unpack}{body}) {items} {s}\n{ind}" + nxt()
        raise Unsupported(f"statement {type(st).__name__}: {ast.unparse(st)[:50]!r}".replace("\n", " "))

    # ------------------------------------------------------------------ functions
    def function(self, name: str) -> str:
        fn = self.fns[name]
        a = fn.args
        if a.vararg or a.kwarg or a.posonlyargs:
            raise Unsupported(f"signature of {name}")
        params = [x.arg for x in a.args] + [x.arg for x in a.kwonlyargs]
        defaults: dict = {}
        for x, d in zip(a.args[len(a.args) - len(a.defaults):], a.defaults):
            defaults[x.arg] = d
        for x, d in zip(a.kwonlyargs, a.kw_defaults):
            if d is not None:
                defaults[x.arg] = d
        for d in defaults.values():
            if not isinstance(d, ast.Constant):
                raise Unsupported(f"non-constant default in {name}")
        self.cur_fn = fn
        self.locals = set(params) | set(self._stores(fn.body))
        self.lists, self.dicts = set(), set()
        self.cur_uses = []
        self.cur_ranges = list(self.cfg.ranges.get(name, []))
        self.range_notes = []
        self.seen_ranges = set()
        body =self.block(fn.body, "  ", "PyVal.none", set(), None, None, lambda x: x)
        for kind, pname in self.cur_ranges:
            if pname not in self.seen_ranges:
                raise Unsupported(f"external range {pname} of {name}: no top-level `for` statement")
        uses = [u for u in list(self.cfg.externals) + [p for _, p in self.cur_ranges] if u in self.cur_uses] \
            + [u for u in self.cur_uses if u not in self.cfg.externals and u not in [p for _, p in self.cur_ranges]]
        self.sig[name], self.defaults[name], self.uses[name] = params, defaults, uses

        def ty(u):
            n = self.ext_arity.get(u) if u in self.cfg.externals else len(self.all_range_arity(u))
            return " → ".join(["PyVal"] * (n + 1))
        binders = "(o : Oracle) " + "".join(f"({ident(u)} : {ty(u)}) " for u in uses) + "".join(f"({ident(p)} : PyVal) " for p in params)
        doc = (f"`{name}({', '.join(params)})`" + ("; defaults " + ", ".join(f"{k}={ast.unparse(v)}" for k, v in defaults.items()) if defaults else "")
               + "".join("; " + n for n in self.range_notes))
        self.docs[name] = doc
        return f"/-- {doc} -/\ndef {self.cfg.lean_names[name]} {binders}: PyVal :=\n  {body}\n"

    docs: dict = {}

    def all_range_arity(self, u: str) -> list:
        return self.range_arity[u]


def translate(source: str, names: list, cfg: Cfg) -> dict:
    """{python function name: Lean definition text}, callees first; plus "__sig__": {name: {"params", "uses", "ranges"}}"""
    tree = ast.parse(source)
    fns = {n.name: n for n in tree.body if isinstance(n, ast.FunctionDef)}
    tr = LintTranslator(fns, cfg, pytolean._module_consts(tree))
    tr.docs = {}
    out: dict = {}
    for name in names:
        if name not in fns:
            raise Unsupported(f"function {name} not found")
        out[name] = tr.function(name)
    out["__sig__"] = {n: {"params": tr.sig[n], "uses": tr.uses[n]} for n in names}
    out["__ranges__"] = dict(tr.range_arity)
    return out
