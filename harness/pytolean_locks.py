"""Syntax-directed reading of the methods of a class as LOCK PROGRAMS (lean/Rbacx/Model/PyLockProg.lean) — property C14, `HotReloader`.

`translate_class(src, cls, roots, cfg)` reads every method reachable from `roots` through `self.<method>(…)` calls (the call graph must be
acyclic) and returns Lean definitions `def <prefix><method> (h : Nat) : Rbacx.LockProg.Prog`, callees first.  `h` is the id of the HELPER
thread of the calling context (`executor.submit(f)` = `.spawn h`, `future.result()` = `.wait h`); the polling thread has the fixed id
`cfg.poller`.  A program covers EVERY control path of the method body:

    with self.<lock>: B              .withLock B          (released on every way out of B: fall through, return, exception, break)
    self.<lock>.acquire() / .release()   .atom .acq / .atom .rel
    if T: A else: B                  T's operations; .choice A B       (the test is not interpreted: both branches are paths)
    while T: B                       .loop (T's operations; B); T's operations      (any number of iterations; `while … else` unsupported)
    for x in E: B                    E's operations; .loop B
    try: A except …: H1 except …: H2    .tryCatch A (.choice H1 H2)    (an exception may match a clause or none; else/finally unsupported)
    return E / raise / break / continue     E's operations; .exit .ret / .exc / .brk / .cont
    a statement that contains a call        its operations in evaluation order; Rbacx.LockProg.mayRaise   (completes or raises)
    a and b / a or b / x if c else y        the operations of the operands that may be skipped are a `.choice … .skip`

and the operations of a call are, by the text of the callee:

    self.<source>.<anything>(…)               .atom .ext      (a call of unbounded duration into the policy source)
    <x>.join(…)                               .atom (.wait poller)      — `Thread.join`; every `threading.Thread(…)` of the class must have
    <x>.start()                               .atom (.spawn poller)       `target=self.<cfg.poller_target>`
    <x>.submit(f)   (f a local `def`)         .atom (.spawn h)          — the helper thread runs `f`: its body is `<prefix><method>_helper`
    <x>.result(…)                             .atom (.wait h)
    self.<event>.wait(…) without a timeout    .atom .ext      (blocks without bound); with a timeout argument: no operation
    self.<method>(…) / a property read        .call <prefix><method> h   (inlined: the callee's `return` is the call's completion)
    f(…) for a local `def f`                  .call of its body
    asyncio.run(E) / maybe_await(E) / await E     E's operations (run to completion on the calling thread)
    calls listed in cfg.harmless (by the root of the callee's text: builtins, time, random, logger, …, `self.guard.set_policy`)   no operation
    any other call                            .unsupported "call of …"

`with ThreadPoolExecutor(…) as ex:` is transparent (the pool's shutdown waits for the helper `fut.result()` has already waited for).
Whatever is outside this subset becomes `.unsupported "<why>"` IN PLACE (it has no path and is never `safe`): the per-run obligation then
fails as a named obligation; nothing else is affected.  The kind of `self.<lock>` (`threading.RLock()` / `threading.Lock()`) is read
from the one assignment in `__init__`."""
from __future__ import annotations

import ast
from dataclasses import dataclass, field


class Unsupported(Exception):
    pass


@dataclass
class LockCfg:
    prefix: str = "locks_"
    source_attrs: tuple = ("source",)
    event_attrs: tuple = ("_stop_event",)
    poller: int = 2
    poller_target: str = "_run_loop"
    transparent: tuple = ("asyncio.run", "maybe_await")
    # roots of callee texts that perform no lock / thread / source operation and return in bounded time
    harmless: tuple = ("float", "int", "bool", "str", "min", "max", "isinstance", "getattr", "len", "tuple", "list", "dict", "time", "random",
                       "logger", "logging", "inspect", "json", "asyncio.get_running_loop", "threading.Thread", "threading.RLock",
                       "threading.Lock", "threading.Event", "ThreadPoolExecutor", "self.guard.set_policy")
    harmless_methods: tuple = ("is_alive", "is_set", "set", "clear")
    pool_ctors: tuple = ("ThreadPoolExecutor",)
    unsupported: list = field(default_factory=list)


# ----------------------------------------------------------------------------- program terms (rendered to Lean text)

SKIP = ("skip",)
MAY_RAISE = ("mayRaise",)


def seqs(items: list) -> tuple:
    items = [i for i in items if i != SKIP]
    if not items:
        return SKIP
    out = items[-1]
    for i in reversed(items[:-1]):
        out = ("seq", i, out)
    return out


def lean_str(s: str) -> str:
    s = " ".join(str(s).split())
    return '"' + s.replace("\\", "\\\\").replace('"', '\\"')[:160] + '"'


def render(p: tuple, ind: int = 2) -> str:
    pad = " " * ind
    k = p[0]
    if k == "skip":
        return ".skip"
    if k == "mayRaise":
        return "Rbacx.LockProg.mayRaise"
    if k == "atom":
        return f".atom {p[1]}"
    if k == "exit":
        return f".exit .{p[1]}"
    if k == "unsupported":
        return f".unsupported {lean_str(p[1])}"
    if k == "callm":
        return f".call ({p[1]} h)"
    if k in ("loop", "withLock", "call"):
        return f".{k} (\n{pad}  {render(p[1], ind + 2)})"
    if k in ("seq", "choice", "tryCatch"):
        return f".{k} ({render(p[1], ind + 2)})\n{pad}({render(p[2], ind)})" if k == "seq" else \
               f".{k} (\n{pad}  {render(p[1], ind + 2)})\n{pad}  ({render(p[2], ind + 2)})"
    raise AssertionError(p)


# ----------------------------------------------------------------------------- the reading

class _Method:
    def __init__(self, tr: "_Class", fn: ast.AST):
        self.tr, self.fn = tr, fn
        self.local_defs = {n.name: n for n in ast.walk(fn) if isinstance(n, (ast.FunctionDef, ast.AsyncFunctionDef)) and n is not fn}
        self.helper: tuple | None = None

    def unsup(self, why: str) -> tuple:
        why = " ".join(f"{self.fn.name}: {why}".split())
        self.tr.cfg.unsupported.append(why)
        return ("unsupported", why)

    # --- expressions: the operations of evaluating `e`, in evaluation order
    def expr(self, e: ast.AST | None) -> list:
        if e is None or isinstance(e, (ast.Constant, ast.Name)):
            return []
        if isinstance(e, ast.Await):
            return self.expr(e.value)
        if isinstance(e, ast.Attribute):
            ops = self.expr(e.value)
            if isinstance(e.value, ast.Name) and e.value.id == "self" and isinstance(e.ctx, ast.Load) and e.attr in self.tr.properties:
                ops.append(self.tr.call_of(e.attr))
            return ops
        if isinstance(e, ast.BoolOp):
            ops = self.expr(e.values[0])
            for v in e.values[1:]:
                o = self.expr(v)
                if o:
                    ops.append(("choice", seqs(o), SKIP))
            return ops
        if isinstance(e, ast.IfExp):
            ops = self.expr(e.test)
            a, b = self.expr(e.body), self.expr(e.orelse)
            if a or b:
                ops.append(("choice", seqs(a), seqs(b)))
            return ops
        if isinstance(e, (ast.Lambda, ast.ListComp, ast.SetComp, ast.DictComp, ast.GeneratorExp)):
            inner = [c for c in ast.walk(e) if isinstance(c, (ast.Call, ast.Await))]
            return [self.unsup(f"a call inside {type(e).__name__} ({ast.unparse(e)[:60]})")] if inner else []
        if isinstance(e, ast.Call):
            return self.call(e)
        ops = []
        for c in ast.iter_child_nodes(e):
            if isinstance(c, ast.expr):
                ops += self.expr(c)
            elif isinstance(c, ast.keyword):
                ops += self.expr(c.value)
        return ops

    def call(self, e: ast.Call) -> list:
        cfg = self.tr.cfg
        f = e.func
        text = ast.unparse(f)
        args = []
        for a in e.args:
            args += self.expr(a.value if isinstance(a, ast.Starred) else a)
        for k in e.keywords:
            args += self.expr(k.value)
        recv = self.expr(f.value) if isinstance(f, ast.Attribute) else []
        lock = self.tr.lock_attr
        if text == f"self.{lock}.acquire":
            return recv + args + [("atom", ".acq")]
        if text == f"self.{lock}.release":
            return recv + args + [("atom", ".rel")]
        if text in cfg.transparent:
            return args
        if any(text.startswith(f"self.{s}.") for s in cfg.source_attrs):
            return recv + args + [("atom", ".ext")]
        if any(text == f"self.{ev}.wait" for ev in cfg.event_attrs):
            timed = bool(e.args) or any(k.arg == "timeout" for k in e.keywords)
            none_timeout = any(k.arg == "timeout" and isinstance(k.value, ast.Constant) and k.value.value is None for k in e.keywords) or \
                (e.args and isinstance(e.args[0], ast.Constant) and e.args[0].value is None)
            return recv + args + ([] if timed and not none_timeout else [("atom", ".ext")])
        if isinstance(f, ast.Attribute) and isinstance(f.value, ast.Name) and f.value.id == "self" and f.attr in self.tr.methods:
            return args + [self.tr.call_of(f.attr)]
        if isinstance(f, ast.Name) and f.id in self.local_defs:
            return args + [("call", self.body(self.local_defs[f.id].body))]
        if isinstance(f, ast.Attribute):
            if f.attr == "join" and not isinstance(f.value, ast.Constant):
                return recv + args + [("atom", f"(.wait {cfg.poller})")]
            if f.attr == "start" and not e.args and not e.keywords:
                return recv + [("atom", f"(.spawn {cfg.poller})")]
            if f.attr == "submit":
                if len(e.args) == 1 and isinstance(e.args[0], ast.Name) and e.args[0].id in self.local_defs and not e.keywords:
                    body = ("call", self.body(self.local_defs[e.args[0].id].body))
                    if self.helper is not None and self.helper != body:
                        return [self.unsup("two different helper functions submitted in one method")]
                    self.helper = body
                    return recv + [("atom", "(.spawn h)")]
                return [self.unsup(f"submit of something that is not a parameterless local def: {ast.unparse(e)[:80]}")]
            if f.attr == "result":
                return recv + args + [("atom", "(.wait h)")]
            if f.attr in cfg.harmless_methods:
                return recv + args
        root = text
        while root:
            if root in cfg.harmless:
                return recv + args
            root = root.rpartition(".")[0]
        return [self.unsup(f"call of {text}")]

    # --- statements
    def simple(self, exprs: list) -> tuple:
        ops, calls = [], False
        for e in exprs:
            if e is None:
                continue
            ops += self.expr(e)
            calls = calls or any(isinstance(c, (ast.Call, ast.Await)) for c in ast.walk(e))
        manual = ops and all(o in (("atom", ".acq"), ("atom", ".rel")) for o in ops)
        return seqs(ops + ([MAY_RAISE] if calls and not manual else []))

    def body(self, stmts: list) -> tuple:
        return seqs([self.stmt(s) for s in stmts])

    def stmt(self, s: ast.stmt) -> tuple:
        cfg = self.tr.cfg
        if isinstance(s, (ast.Pass, ast.Import, ast.ImportFrom, ast.FunctionDef, ast.AsyncFunctionDef)):
            return SKIP
        if isinstance(s, ast.Expr):
            return self.simple([s.value])
        if isinstance(s, ast.Assign):
            return self.simple([s.value] + list(s.targets))
        if isinstance(s, ast.AnnAssign):
            return self.simple([s.value, s.target])
        if isinstance(s, ast.AugAssign):
            return self.simple([s.value, s.target])
        if isinstance(s, ast.Return):
            return seqs([self.simple([s.value]), ("exit", "ret")])
        if isinstance(s, ast.Raise):
            return seqs([self.simple([s.exc, s.cause]), ("exit", "exc")])
        if isinstance(s, ast.Break):
            return ("exit", "brk")
        if isinstance(s, ast.Continue):
            return ("exit", "cont")
        if isinstance(s, ast.If):
            return seqs([self.simple([s.test]), ("choice", self.body(s.body), self.body(s.orelse))])
        if isinstance(s, ast.While):
            if s.orelse:
                return self.unsup("while … else")
            return seqs([("loop", seqs([self.simple([s.test]), self.body(s.body)])), self.simple([s.test])])
        if isinstance(s, ast.For):
            if s.orelse:
                return self.unsup("for … else")
            return seqs([self.simple([s.iter]), ("loop", self.body(s.body))])
        if isinstance(s, (ast.With, ast.AsyncWith)):
            if isinstance(s, ast.AsyncWith) or len(s.items) != 1:
                return self.unsup(f"with statement: {ast.unparse(s.items[0].context_expr)[:60]}")
            ce = s.items[0].context_expr
            if ast.unparse(ce) == f"self.{self.tr.lock_attr}":
                return ("withLock", self.body(s.body))
            if isinstance(ce, ast.Call) and ast.unparse(ce.func) in cfg.pool_ctors:
                return seqs([self.simple([ce]), self.body(s.body)])
            return self.unsup(f"with statement over {ast.unparse(ce)[:60]}")
        if isinstance(s, ast.Try):
            if s.finalbody or s.orelse:
                return self.unsup("try with else / finally")
            hs = [self.body(h.body) for h in s.handlers]
            h = hs[-1]
            for x in reversed(hs[:-1]):
                h = ("choice", x, h)
            return ("tryCatch", self.body(s.body), h)
        return self.unsup(f"statement {type(s).__name__}: {ast.unparse(s)[:60]}")


class _Class:
    def __init__(self, src: str, cls: str, cfg: LockCfg):
        self.cfg = cfg
        mod = ast.parse(src)
        cdef = next((n for n in mod.body if isinstance(n, ast.ClassDef) and n.name == cls), None)
        if cdef is None:
            raise Unsupported(f"class {cls} not found")
        self.fns = {n.name: n for n in cdef.body if isinstance(n, (ast.FunctionDef, ast.AsyncFunctionDef))}
        self.properties = {n for n, f in self.fns.items() if any(ast.unparse(d) == "property" for d in f.decorator_list)}
        self.methods = set(self.fns) - self.properties
        # the lock: the one `self.<x> = threading.RLock()` / `threading.Lock()` of __init__
        locks = []
        for n in ast.walk(self.fns.get("__init__") or ast.Module(body=[], type_ignores=[])):
            if isinstance(n, ast.Assign) and isinstance(n.value, ast.Call) and ast.unparse(n.value.func) in ("threading.RLock", "threading.Lock"):
                for t in n.targets:
                    if isinstance(t, ast.Attribute) and isinstance(t.value, ast.Name) and t.value.id == "self":
                        locks.append((t.attr, ast.unparse(n.value.func) == "threading.RLock"))
        if len(locks) != 1:
            raise Unsupported(f"expected exactly one lock created in {cls}.__init__, found {[x for x, _ in locks]}")
        self.lock_attr, self.reentrant = locks[0]
        # every thread the class creates runs the designated polling loop
        for n in ast.walk(cdef):
            if isinstance(n, ast.Call) and ast.unparse(n.func) == "threading.Thread":
                tg = [k.value for k in n.keywords if k.arg == "target"]
                if len(tg) != 1 or ast.unparse(tg[0]) != f"self.{cfg.poller_target}":
                    raise Unsupported(f"a threading.Thread whose target is not self.{cfg.poller_target}: {ast.unparse(n)[:80]}")
        self.done: dict[str, dict] = {}
        self.active: list[str] = []

    def lean_name(self, m: str) -> str:
        return self.cfg.prefix + m.strip("_")

    def call_of(self, m: str) -> tuple:
        self.translate(m)
        return ("callm", self.lean_name(m))

    def translate(self, m: str) -> None:
        if m in self.done:
            return
        if m in self.active:
            raise Unsupported(f"recursive call chain {' -> '.join(self.active + [m])}")
        if m not in self.fns:
            raise Unsupported(f"method {m} not found")
        self.active.append(m)
        mt = _Method(self, self.fns[m])
        prog = mt.body(self.fns[m].body)
        self.active.pop()
        self.done[m] = {"prog": prog, "helper": mt.helper}


def translate_class(src: str, cls: str, roots: list[str], cfg: LockCfg | None = None) -> dict:
    cfg = cfg or LockCfg()
    c = _Class(src, cls, cfg)
    for r in roots:
        c.translate(r)
    lines = [f"/-- `self.{c.lock_attr}` is a `threading.{'RLock' if c.reentrant else 'Lock'}` -/",
             f"def {cfg.prefix}reentrant : Bool := {'true' if c.reentrant else 'false'}", ""]
    for why in cfg.unsupported:
        lines.append(f"-- Unsupported: {' '.join(why.split())[:200]}")
    names = {}
    for m, d in c.done.items():        # insertion order = callees first
        nm = c.lean_name(m)
        names[m] = nm
        if d["helper"] is not None:
            lines += [f"/-- what the helper thread submitted by `{cls}.{m}` runs -/",
                      f"def {nm}_helper (h : Nat) : Rbacx.LockProg.Prog :=\n  {render(d['helper'])}", ""]
        lines += [f"/-- `{cls}.{m}` -/", f"def {nm} (h : Nat) : Rbacx.LockProg.Prog :=\n  {render(d['prog'])}", ""]
    return {"lean": "\n".join(lines), "names": names, "lock": c.lock_attr, "reentrant": c.reentrant, "unsupported": list(cfg.unsupported),
            "helpers": [names[m] + "_helper" for m, d in c.done.items() if d["helper"] is not None]}


if __name__ == "__main__":
    import os
    import sys
    repo = os.environ.get("RBACX_REPO", "/repo")
    out = translate_class(open(os.path.join(repo, "src/rbacx/policy/loader.py")).read(), "HotReloader",
                          sys.argv[1:] or ["__init__", "check_and_reload", "start", "stop", "_run_loop"])
    print(out["lean"])
