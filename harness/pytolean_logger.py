"""Extension of harness/pytolean.py for the METHODS OF A CONFIGURED SINK whose one effect is "emit a record" (C19: `DecisionLogger.__init__`,
`DecisionLogger._should_drop_by_sampling`, `DecisionLogger.log` of logging/decision_logger.py).  pytolean.py itself is not changed.
Meanings: `lean/Rbacx/Model/PyLogger.lean` (namespace `Rbacx.PyL`) on top of `Model/PyLib.lean`; floats are the model's `Redact.FNum`.

WHAT IS EMITTED (`translate(source, LoggerCfg)`), all from the current source text:

* the module constant `cfg.const` (`_DEFAULT_REDACTIONS`, a literal of lists / dicts with constant string keys / constants) → `def <const_lean> : PyVal`.
* `__init__` — it must consist of assignments `self.X = E` only (keyword-only parameters with constant defaults).  Attributes in
  `cfg.emit_attrs` (destination logger, rendering format, level) belong to the EMIT effect and are left out (named in the doc comment), and so
  are the parameters only they read.  Every other attribute becomes a FIELD of the generated `structure <self_type>` and `__init__` the
  function `<init_lean> : <parameters> → <self_type>`.  Field types are read off the assigned expression: `float(P)` of a parameter → `FNum`
  (the parameter itself is float-typed: a number is given by the exact value of `float()` of it); `dict(P or {"k": <float literal>, …})` → a rate
  map `List (String × FNum)` (the parameter: `Option` of one, `none` = None); anything else → `PyVal` by pytolean's expression translation.
* a method → `def <lean name> (self : <self_type>) [externals] [(draw : FNum)] (parameters : PyVal)`.  `self.X` reads the field;
  `self.<other translated method>(args)` is a call of its translation.

READINGS (syntax-directed; anything else raises `Unsupported`, reported as a failed extraction):

* FLOAT-TYPED expressions (Lean type `FNum`): a float literal with an integral value, `float(E)` of a float-typed `E`, `random.random()` (the
  parameter `draw`: every call site reads the ONE draw — accepted only inside `return` statements, at most one call per statement, so that no
  execution draws twice), `min(a, b)` / `max(a, b)` of two float-typed arguments (`FNum.pmin` / `FNum.pmax`: CPython's `b if b < a else a`),
  a float field of `self`, `self.<rate map>.get(K, D)` with a float-typed default, and a local ALL of whose assignments are float-typed.
  A comparison `<=`, `<`, `>`, `>=` of two float-typed operands is `PyVal.bool (FNum.le …)` etc.; a float-typed expression anywhere else is refused.
* `if … elif … else` in which EVERY branch is one assignment to the same local → ONE `let V := if … then … else …` (no duplication of the rest).
  Every other `if` is translated in continuation style (the statements after it go into both branches).
* the EXTERNAL `cfg.external` (`apply_obligations`), a module-level function that is NOT translated here and may MUTATE its first argument:
  `V = ext(A, b, kw=c)` with `A` a local name → `match ext A b c with | .raised A => <nearest handler> | .returned V A => <rest>` — a parameter
  `ext : PyVal → … → Rbacx.PyL.CallOut`; BOTH outcomes re-bind `A` to what the argument object looks like afterwards.
* the SIZE ORACLE: the statement pair `S = json.dumps(E, ensure_ascii=False)`; `N = len(S.encode("utf-8", "surrogatepass"))` (`S` used nowhere
  else) → `match jsonSize E with | none => <nearest handler> | some n => let N := PyVal.int n; <rest>` — a parameter `jsonSize : PyVal → Option Nat`
  (`none` = `json.dumps` raised; encoding with "surrogatepass" and `len` do not raise).
* `try: B except Exception: H` (no name, no else/finally), nested as written: the raising points of `B` are exactly the EXTERNAL calls and the SIZE
  oracle in it (everything else in the accepted subset is total on the stated domain); when one raises, `H` runs with the variables as they are at
  that point (Lean's lexical scoping: the handler text is placed at the raising point), then the statements after the `try`.  A raising point
  outside every `try` is refused.
* `D[k] = v` with a constant string key → `let D := Rbacx.Py.setItem D k v`, only for a local `D` that is bound ONCE, by `dict(…)` / a dict display
  (a fresh object), and that is otherwise used only as the receiver of `.get`, as the target of such stores and as the argument of a rendering —
  so nothing else can see the store (value semantics = CPython's reference semantics).
* DIAGNOSTICS `X = getattr(self.<emit attr>, "<name>", None)` and `if callable(X): X(<constants>, kw=<constants>)`: an effect on the sink's own
  debug channel, no effect on any value: skipped (said in the doc comment).
* EMIT: `M = json.dumps(R, ensure_ascii=False)` / `M = f"<text>{R}"` under `if self.<emit attr>: … else: …` (both branches render the SAME local `R`)
  followed by the LAST statement `self.<emit attr>.log(self.<emit attr>, M)`: the method's result is `some R` — "the record `R` was emitted";
  `return` before it is `none` — "nothing was emitted".  How `R` is rendered (JSON or `str`) and where it goes stays with the harness, which parses
  the captured message back.
"""
from __future__ import annotations

import ast
from dataclasses import dataclass, field

import pytolean
from pytolean import Unsupported, ident, lean_str

FNUM = "Rbacx.Redact.FNum"


@dataclass
class LoggerCfg:
    cls: str = "DecisionLogger"
    self_type: str = "LoggerSelf"
    init_lean: str = "logger_init"
    methods: dict = field(default_factory=dict)     # python method name → lean name, callees first
    emit_attrs: tuple = ("logger", "as_json", "level")
    external: str = "apply_obligations"
    ext_params: tuple = ("payload", "obligations", "in_place")
    const: str = "_DEFAULT_REDACTIONS"
    const_lean: str = "default_redactions"
    notes: dict = field(default_factory=dict)        # python method name → extra doc notes


def _is_self_attr(n: ast.AST, attrs=None) -> bool:
    return (isinstance(n, ast.Attribute) and isinstance(n.value, ast.Name) and n.value.id == "self"
            and (attrs is None or n.attr in attrs))


def _call_of(e: ast.AST, name: str, nargs: int | None = None) -> bool:
    return (isinstance(e, ast.Call) and isinstance(e.func, ast.Name) and e.func.id == name and not e.keywords
            and (nargs is None or len(e.args) == nargs))


def _is_literal(e: ast.AST) -> bool:
    if isinstance(e, ast.Constant):
        return True
    if isinstance(e, (ast.List, ast.Tuple)):
        return all(_is_literal(x) for x in e.elts)
    if isinstance(e, ast.Dict):
        return all(isinstance(k, ast.Constant) and isinstance(k.value, str) for k in e.keys) and all(_is_literal(v) for v in e.values)
    return False


class LoggerTranslator(pytolean.Translator):
    def __init__(self, cfg: LoggerCfg, consts: dict):
        super().__init__(set(), consts)
        self.cfg = cfg
        self.attr_types: dict[str, str] = {}       # field → "float" | "ratemap" | "val"
        self.done: dict[str, dict] = {}             # python method → {"lean", "draw", "ext", "size"}
        self.float_locals: set[str] = set()
        self.has_const = False
        self.mode = "val"

    # ------------------------------------------------------------------ float typing
    def is_draw(self, e: ast.AST) -> bool:
        return (isinstance(e, ast.Call) and not e.args and not e.keywords and isinstance(e.func, ast.Attribute) and e.func.attr == "random"
                and isinstance(e.func.value, ast.Name) and e.func.value.id == "random" and "random" not in self.locals)

    def is_float(self, e: ast.AST, fl: set[str] | None = None) -> bool:
        fl = self.float_locals if fl is None else fl
        if isinstance(e, ast.Constant):
            return isinstance(e.value, float)
        if isinstance(e, ast.Name):
            return e.id in fl
        if _is_self_attr(e):
            return self.attr_types.get(e.attr) == "float"
        if self.is_draw(e):
            return True
        if _call_of(e, "float", 1) and "float" not in self.locals:
            return True
        if isinstance(e, ast.Call) and isinstance(e.func, ast.Name) and e.func.id in ("min", "max") and e.func.id not in self.locals \
                and len(e.args) == 2 and not e.keywords:
            return all(self.is_float(a, fl) for a in e.args)
        if isinstance(e, ast.Call) and isinstance(e.func, ast.Attribute) and e.func.attr == "get" and _is_self_attr(e.func.value) \
                and self.attr_types.get(e.func.value.attr) == "ratemap" and len(e.args) == 2 and not e.keywords:
            return self.is_float(e.args[1], fl)
        return False

    def F(self, e: ast.expr) -> str:
        """a float-typed expression as a term of type FNum"""
        if isinstance(e, ast.Constant) and isinstance(e.value, float):
            v = e.value
            if v == 0.0 and str(v) == "0.0":
                return f"{FNUM}.zero"
            if v == 1.0:
                return f"{FNUM}.one"
            if v == v and abs(v) < 2 ** 53 and v.is_integer() and str(v) != "-0.0":
                return f"(Rbacx.PyL.fint ({int(v)}))"
            raise Unsupported(f"float literal {v!r}")
        if isinstance(e, ast.Name) and e.id in self.float_locals:
            return ident(e.id)
        if _is_self_attr(e) and self.attr_types.get(e.attr) == "float":
            return f"self.{ident(e.attr)}"
        if self.is_draw(e):
            self.uses_draw = True
            return "draw"
        if _call_of(e, "float", 1) and self.is_float(e.args[0]):
            return f"(Rbacx.PyL.floatOf {self.F(e.args[0])})"
        if isinstance(e, ast.Call) and isinstance(e.func, ast.Name) and e.func.id in ("min", "max") and self.is_float(e):
            return f"({FNUM}.p{e.func.id} {self.F(e.args[0])} {self.F(e.args[1])})"
        if isinstance(e, ast.Call) and isinstance(e.func, ast.Attribute) and e.func.attr == "get" and self.is_float(e):
            return f"(Rbacx.PyL.rateGet self.{ident(e.func.value.attr)} {self.E(e.args[0])} {self.F(e.args[1])})"
        raise Unsupported(f"not a float-typed expression: {ast.unparse(e)[:60]}")

    # ------------------------------------------------------------------ expressions
    def E(self, e: ast.expr) -> str:
        if isinstance(e, ast.Name) and e.id == self.cfg.const and e.id not in self.locals:
            if not self.has_const:
                raise Unsupported(f"module constant {e.id} is not a literal")
            return ident(self.cfg.const_lean)
        if isinstance(e, ast.Compare) and len(e.ops) == 1 and (self.is_float(e.left) or self.is_float(e.comparators[0])):
            a, b, op = e.left, e.comparators[0], e.ops[0]
            if not (self.is_float(a) and self.is_float(b)):
                raise Unsupported(f"comparison of a float-typed with another expression: {ast.unparse(e)[:60]}")
            for cls_, term in ((ast.LtE, f"{FNUM}.le"), (ast.Lt, f"{FNUM}.lt"), (ast.Gt, f"{FNUM}.gt"), (ast.GtE, "Rbacx.PyL.fge")):
                if isinstance(op, cls_):
                    return f"(PyVal.bool ({term} {self.F(a)} {self.F(b)}))"
            raise Unsupported(f"float comparison {ast.unparse(e)[:60]}")
        if self.is_float(e):
            raise Unsupported(f"a float-typed expression used as a plain value: {ast.unparse(e)[:60]}")
        if _is_self_attr(e):
            t = self.attr_types.get(e.attr)
            if t == "val":
                return f"self.{ident(e.attr)}"
            raise Unsupported(f"self.{e.attr} " + ("is not assigned by __init__ / belongs to the emit effect" if t is None else f"({t}) used as a plain value"))
        if isinstance(e, ast.Call) and _is_self_attr(e.func) and e.func.attr in self.done and not e.keywords:
            d = self.done[e.func.attr]
            if d["mode"] != "val":
                raise Unsupported(f"call of {e.func.attr} as a value")
            args = ["self"]
            for flag, name in (("ext", ident(self.cfg.external)), ("size", "jsonSize"), ("draw", "draw")):
                if d[flag]:
                    setattr(self, "uses_" + flag, True)
                    args.append(name)
            return "(" + " ".join([ident(d["lean"])] + args + [self.E(a) for a in e.args]) + ")"
        return super().E(e)

    # ------------------------------------------------------------------ shapes of statements
    def chain_assign(self, st: ast.If):
        """(V, [(test, value)…], else value) when every branch of the if/elif/else chain is ONE assignment to the same local"""
        arms, cur = [], st
        while True:
            if len(cur.body) != 1 or not self.simple_assign(cur.body[0]):
                return None
            arms.append((cur.test, cur.body[0]))
            if len(cur.orelse) == 1 and isinstance(cur.orelse[0], ast.If):
                cur = cur.orelse[0]
                continue
            if len(cur.orelse) != 1 or not self.simple_assign(cur.orelse[0]):
                return None
            last = cur.orelse[0]
            break
        names = {self.target(a).id for _, a in arms} | {self.target(last).id}
        if len(names) != 1:
            return None
        return names.pop(), [(t, a.value) for t, a in arms], last.value

    @staticmethod
    def target(st):
        return st.targets[0] if isinstance(st, ast.Assign) else st.target

    def simple_assign(self, st: ast.stmt) -> bool:
        if isinstance(st, ast.Assign) and len(st.targets) == 1 and isinstance(st.targets[0], ast.Name):
            v = st.value
        elif isinstance(st, ast.AnnAssign) and isinstance(st.target, ast.Name) and st.value is not None:
            v = st.value
        else:
            return False
        return not self.is_ext_call(v) and not self.is_dumps(v)

    def is_ext_call(self, v: ast.AST) -> bool:
        return isinstance(v, ast.Call) and isinstance(v.func, ast.Name) and v.func.id == self.cfg.external and v.func.id not in self.locals

    @staticmethod
    def is_dumps(v: ast.AST) -> bool:
        return (isinstance(v, ast.Call) and isinstance(v.func, ast.Attribute) and v.func.attr == "dumps" and isinstance(v.func.value, ast.Name)
                and v.func.value.id == "json" and len(v.args) == 1 and len(v.keywords) == 1 and v.keywords[0].arg == "ensure_ascii"
                and isinstance(v.keywords[0].value, ast.Constant) and v.keywords[0].value.value is False)

    def rendered(self, v: ast.AST) -> str | None:
        """the local `R` when `v` renders exactly it: `json.dumps(R, ensure_ascii=False)` or an f-string with the one field `{R}`"""
        if self.is_dumps(v) and isinstance(v.args[0], ast.Name):
            return v.args[0].id
        if isinstance(v, ast.JoinedStr):
            fields = [p for p in v.values if isinstance(p, ast.FormattedValue)]
            if len(fields) == 1 and fields[0].conversion == -1 and fields[0].format_spec is None and isinstance(fields[0].value, ast.Name):
                return fields[0].value.id
        return None

    def size_pair(self, st: ast.stmt, nxt: ast.stmt | None):
        """(S, E, N) of `S = json.dumps(E, ensure_ascii=False)`; `N = len(S.encode("utf-8", "surrogatepass"))`"""
        if not (isinstance(st, ast.Assign) and len(st.targets) == 1 and isinstance(st.targets[0], ast.Name) and self.is_dumps(st.value)):
            return None
        s = st.targets[0].id
        if not (isinstance(nxt, ast.Assign) and len(nxt.targets) == 1 and isinstance(nxt.targets[0], ast.Name) and _call_of(nxt.value, "len", 1)):
            return None
        c = nxt.value.args[0]
        ok = (isinstance(c, ast.Call) and isinstance(c.func, ast.Attribute) and c.func.attr == "encode" and isinstance(c.func.value, ast.Name)
              and c.func.value.id == s and not c.keywords and [a.value if isinstance(a, ast.Constant) else None for a in c.args] == ["utf-8", "surrogatepass"])
        if not ok or "len" in self.locals or "json" in self.locals:
            return None
        uses = [n for n in ast.walk(self.cur_fn) if isinstance(n, ast.Name) and n.id == s]
        if len(uses) != 2:
            raise Unsupported(f"the serialised text {s} is used elsewhere")
        return s, st.value.args[0], nxt.targets[0].id

    def fresh_dict(self, name: str) -> bool:
        """`name` is bound once, by dict(…)/a display, and used only as .get receiver / store target / rendering argument"""
        binds = [n for n in ast.walk(self.cur_fn) if isinstance(n, (ast.Assign, ast.AnnAssign)) and isinstance(self.target(n), ast.Name)
                 and self.target(n).id == name]
        if len(binds) != 1 or binds[0].value is None or not pytolean.Translator._builds_dict(binds[0].value):
            return False
        allowed: set[int] = set()
        for n in ast.walk(self.cur_fn):
            if isinstance(n, ast.Call) and isinstance(n.func, ast.Attribute) and n.func.attr == "get" and isinstance(n.func.value, ast.Name):
                allowed.add(id(n.func.value))
            if isinstance(n, ast.Subscript) and isinstance(n.ctx, ast.Store) and isinstance(n.value, ast.Name):
                allowed.add(id(n.value))
            if isinstance(n, (ast.Assign,)) and self.rendered(n.value) == name:
                allowed |= {id(x) for x in ast.walk(n.value) if isinstance(x, ast.Name)}
        for n in ast.walk(self.cur_fn):
            if isinstance(n, ast.Name) and n.id == name and isinstance(n.ctx, ast.Load) and id(n) not in allowed:
                return False
        return True

    # ------------------------------------------------------------------ statements (continuations K, handler stack H)
    def raise_here(self, H: tuple, ind: str) -> str:
        if not H:
            raise Unsupported("an operation that can raise (external call / json.dumps) outside every try")
        (hbody, Kh), rest = H[0], H[1:]
        return self.run(list(hbody), Kh, rest, ind)

    def run(self, stmts: list[ast.stmt], K: tuple, H: tuple, ind: str) -> str:
        if not stmts:
            if not K:
                if self.mode == "emit":
                    return "none"       # ran off the end without emitting
                return "PyVal.none"
            f, K2 = K[0], K[1:]
            if f[0] == "seq":
                return self.run(list(f[1]), K2, H, ind)
            return self.run([], K2, H[1:], ind)          # end of a try body: its handler is no longer in force
        st, rest = stmts[0], stmts[1:]
        nxt = rest[0] if rest else None
        if isinstance(st, ast.Pass) or (isinstance(st, ast.Expr) and isinstance(st.value, ast.Constant) and isinstance(st.value.value, str)):
            return self.run(rest, K, H, ind)
        if isinstance(st, ast.AnnAssign) and st.value is None and isinstance(st.target, ast.Name):
            return self.run(rest, K, H, ind)
        if isinstance(st, ast.Return):
            if sum(self.is_draw(n) for n in ast.walk(st)) > 1:
                raise Unsupported("more than one random.random() in a statement")
            if self.mode == "emit":
                if not (st.value is None or (isinstance(st.value, ast.Constant) and st.value.value is None)):
                    raise Unsupported("return of a value from the emitting method")
                return "none"
            return self.E(st.value) if st.value is not None else "PyVal.none"
        if any(self.is_draw(n) for n in ast.walk(st) if not isinstance(st, (ast.If, ast.Try))) or \
                (isinstance(st, ast.If) and any(self.is_draw(n) for n in ast.walk(st.test))):
            raise Unsupported("random.random() outside a return statement")
        if isinstance(st, ast.Try):
            ok = (not st.orelse and not st.finalbody and len(st.handlers) == 1 and isinstance(st.handlers[0].type, ast.Name)
                  and st.handlers[0].type.id == "Exception" and st.handlers[0].name is None)
            if not ok:
                raise Unsupported("try statement: only `try: … except Exception: …` (no name, else, finally)")
            after = (("seq", tuple(rest)),) + K
            return self.run(list(st.body), (("endtry",),) + after, ((tuple(st.handlers[0].body), after),) + H, ind)
        if isinstance(st, ast.If):
            return self.if_stmt(st, rest, K, H, ind)
        if isinstance(st, ast.Expr):
            return self.expr_stmt(st, rest, K, H, ind)
        if isinstance(st, (ast.Assign, ast.AnnAssign)):
            if isinstance(st, ast.Assign) and len(st.targets) != 1:
                raise Unsupported(f"assignment {ast.unparse(st)[:60]}")
            tgt, v = self.target(st), st.value
            if isinstance(tgt, ast.Subscript):
                if not (isinstance(tgt.value, ast.Name) and isinstance(tgt.slice, ast.Constant) and isinstance(tgt.slice.value, str)
                        and isinstance(st, ast.Assign)):
                    raise Unsupported(f"store {ast.unparse(st)[:60]}")
                d = tgt.value.id
                if not self.fresh_dict(d):
                    raise Unsupported(f"item assignment to {d}, which is not provably a fresh, unaliased dict")
                return f"let {ident(d)} := Rbacx.Py.setItem {ident(d)} {lean_str(tgt.slice.value)} {self.E(v)}\n{ind}{self.run(rest, K, H, ind)}"
            if not isinstance(tgt, ast.Name):
                raise Unsupported(f"assignment {ast.unparse(st)[:60]}")
            x = tgt.id
            if self.is_ext_call(v):
                return self.ext_call(x, v, rest, K, H, ind)
            sp = self.size_pair(st, nxt)
            if sp is not None:
                _, arg, n = sp
                self.uses_size = True
                nat = ident(n) + "_n"
                if nat in {ident(l) for l in self.locals}:
                    raise Unsupported(f"the source uses the name {nat}")
                i2 = ind + "  "
                return (f"match jsonSize {self.E(arg)} with\n{ind}| none =>\n{i2}{self.raise_here(H, i2)}\n{ind}| some ({nat} : Nat) =>\n"
                        f"{i2}let {ident(n)} := PyVal.int {nat}\n{i2}{self.run(rest[1:], K, H, i2)}")
            if self.is_dumps(v):
                raise Unsupported("json.dumps outside the size-oracle pair / the emit block")
            if _call_of(v, "getattr", 3) and _is_self_attr(v.args[0], self.cfg.emit_attrs) and isinstance(v.args[1], ast.Constant) \
                    and isinstance(v.args[2], ast.Constant) and v.args[2].value is None:
                self.diag.add(x)
                others = [n for n in ast.walk(self.cur_fn) if isinstance(n, ast.Name) and n.id == x and isinstance(n.ctx, ast.Store)]
                if len(others) != 1:
                    raise Unsupported(f"diagnostic variable {x} is assigned more than once")
                self.note(f"diagnostics on the sink's own debug channel (`{ast.unparse(st)}` and the guarded call of it) are skipped: no effect on the emitted record")
                return self.run(rest, K, H, ind)
            if x in self.float_locals:
                return f"let {ident(x)} := {self.F(v)}\n{ind}{self.run(rest, K, H, ind)}"
            if x in self.diag:
                raise Unsupported(f"diagnostic variable {x}")
            return f"let {ident(x)} := {self.E(v)}\n{ind}{self.run(rest, K, H, ind)}"
        raise Unsupported(f"statement {ast.unparse(st)[:60]}")

    def note(self, text: str) -> None:
        if text not in self.notes:
            self.notes.append(text)

    def ext_call(self, x: str, v: ast.Call, rest, K, H, ind: str) -> str:
        params = list(self.cfg.ext_params)
        if any(isinstance(a, ast.Starred) for a in v.args) or len(v.args) > len(params):
            raise Unsupported(f"call {ast.unparse(v)[:60]}")
        got: dict[str, ast.expr] = dict(zip(params, v.args))
        for kw in v.keywords:
            if kw.arg not in params or kw.arg in got:
                raise Unsupported(f"keyword {kw.arg} of {self.cfg.external}")
            got[kw.arg] = kw.value
        if set(got) != set(params):
            raise Unsupported(f"{self.cfg.external}: every one of {params} must be passed")
        first = got[params[0]]
        if not (isinstance(first, ast.Name) and first.id in self.locals and first.id not in self.float_locals and first.id != x):
            raise Unsupported(f"{self.cfg.external}: the first argument must be a local name (it is re-bound to the object's state after the call)")
        a = ident(first.id)
        args = " ".join(self.E(got[p]) for p in params)
        self.uses_ext = True
        i2 = ind + "  "
        return (f"match {ident(self.cfg.external)} {args} with\n{ind}| Rbacx.PyL.CallOut.raised {a} =>\n{i2}{self.raise_here(H, i2)}\n"
                f"{ind}| Rbacx.PyL.CallOut.returned {ident(x)} {a} =>\n{i2}{self.run(rest, K, H, i2)}")

    def if_stmt(self, st: ast.If, rest, K, H, ind: str) -> str:
        # diagnostics: `if callable(X): X(...)`
        if _call_of(st.test, "callable", 1) and isinstance(st.test.args[0], ast.Name) and st.test.args[0].id in self.diag and not st.orelse \
                and all(isinstance(b, ast.Expr) and isinstance(b.value, ast.Call) and isinstance(b.value.func, ast.Name)
                        and b.value.func.id in self.diag and all(isinstance(a, ast.Constant) for a in b.value.args)
                        and all(isinstance(k.value, ast.Constant) for k in b.value.keywords) for b in st.body):
            return self.run(rest, K, H, ind)
        # the rendering choice of the emit block
        if _is_self_attr(st.test, self.cfg.emit_attrs) and len(st.body) == 1 and len(st.orelse) == 1 \
                and all(isinstance(b, ast.Assign) and len(b.targets) == 1 and isinstance(b.targets[0], ast.Name) for b in (st.body[0], st.orelse[0])):
            a, b = st.body[0], st.orelse[0]
            ra, rb = self.rendered(a.value), self.rendered(b.value)
            if a.targets[0].id == b.targets[0].id and ra is not None and ra == rb and ra in self.locals and ra not in self.float_locals:
                m = a.targets[0].id
                if sum(1 for n in ast.walk(self.cur_fn) if isinstance(n, ast.Name) and n.id == m) != 3:
                    raise Unsupported(f"the rendered message {m} is used outside the emit statement")
                self.rendering[m] = ra
                self.note(f"`{m}` = the rendering of `{ra}` (`{ast.unparse(a.value)}` when `self.{st.test.attr}`, else `{ast.unparse(b.value)}`): "
                          f"part of the emit effect")
                return self.run(rest, K, H, ind)
            raise Unsupported("the two renderings must render the same local")
        ch = self.chain_assign(st)
        if ch is not None:
            x, arms, last = ch
            isf = x in self.float_locals
            T = self.F if isf else self.E
            if x in self.diag:
                raise Unsupported(f"diagnostic variable {x}")
            term = T(last)
            for test, val in reversed(arms):
                term = f"if ({self.E(test)}).truthy then {T(val)}\n{ind}  else {term}"
            return f"let {ident(x)} :=\n{ind}  {term}\n{ind}{self.run(rest, K, H, ind)}"
        i2 = ind + "  "
        after = (("seq", tuple(rest)),) + K
        a = self.run(list(st.body), after, H, i2)
        b = self.run(list(st.orelse), after, H, i2)
        return f"if ({self.E(st.test)}).truthy then\n{i2}{a}\n{ind}else\n{i2}{b}"

    def expr_stmt(self, st: ast.Expr, rest, K, H, ind: str) -> str:
        c = st.value
        # EMIT: self.<emit attr>.log(self.<emit attr>, M)
        if isinstance(c, ast.Call) and isinstance(c.func, ast.Attribute) and c.func.attr == "log" and _is_self_attr(c.func.value, self.cfg.emit_attrs) \
                and len(c.args) == 2 and not c.keywords and _is_self_attr(c.args[0], self.cfg.emit_attrs) and isinstance(c.args[1], ast.Name) \
                and c.args[1].id in self.rendering:
            if self.mode != "emit" or rest or K or H:
                raise Unsupported("the emit statement must be the last statement of the method, outside every try")
            self.emitted = True
            return f"some {ident(self.rendering[c.args[1].id])}"
        raise Unsupported(f"statement {ast.unparse(st)[:60]}")

    # ------------------------------------------------------------------ definitions
    def module_const(self, tree: ast.Module) -> str | None:
        for n in tree.body:
            tgt = n.targets[0] if isinstance(n, ast.Assign) and len(n.targets) == 1 else n.target if isinstance(n, ast.AnnAssign) else None
            if isinstance(tgt, ast.Name) and tgt.id == self.cfg.const and getattr(n, "value", None) is not None:
                if not _is_literal(n.value):
                    raise Unsupported(f"{self.cfg.const} is not a literal of lists / dicts with constant string keys / constants")
                self.locals = set()
                self.has_const = True
                return (f"/-- the module constant `{self.cfg.const}` as the source has it now -/\n"
                        f"def {ident(self.cfg.const_lean)} : PyVal :=\n  {super().E(n.value)}\n")
        return None

    def init(self, fn: ast.FunctionDef) -> str:
        a = fn.args
        if a.vararg or a.kwarg or a.posonlyargs or a.defaults or [x.arg for x in a.args] != ["self"] or fn.decorator_list:
            raise Unsupported("signature of __init__")
        for d in a.kw_defaults:
            if d is not None and not (isinstance(d, ast.Constant) or (isinstance(d, ast.Attribute) and isinstance(d.value, ast.Name))):
                raise Unsupported("default of a keyword-only parameter of __init__")
        params = [x.arg for x in a.kwonlyargs]
        self.locals = set(params) | {"self"}
        self.cur_fn = fn
        self.float_locals = set()
        ptypes: dict[str, str] = {}
        fields: list[tuple[str, str, str]] = []
        skipped: list[str] = []
        body = [s for s in fn.body if not (isinstance(s, ast.Expr) and isinstance(s.value, ast.Constant))]
        vals: list[tuple[str, ast.expr]] = []
        for st in body:
            if not (isinstance(st, ast.Assign) and len(st.targets) == 1 and _is_self_attr(st.targets[0])):
                raise Unsupported(f"__init__: only `self.X = E` statements are translated: {ast.unparse(st)[:60]}")
            x, v = st.targets[0].attr, st.value
            if any(_is_self_attr(n) or (isinstance(n, ast.Name) and n.id == "self") for n in ast.walk(v)):
                raise Unsupported(f"__init__: {ast.unparse(st)[:60]} reads self")
            if x in [f[0] for f in fields] + skipped:
                raise Unsupported(f"__init__ assigns self.{x} twice")
            if x in self.cfg.emit_attrs:
                skipped.append(x)
                continue
            if _call_of(v, "float", 1) and isinstance(v.args[0], ast.Name) and v.args[0].id in params:
                p = v.args[0].id
                ptypes[p] = "float"
                fields.append((x, "float", f"(Rbacx.PyL.floatOf {ident(p)})"))
                continue
            if _call_of(v, "dict", 1) and isinstance(v.args[0], ast.BoolOp) and isinstance(v.args[0].op, ast.Or) and len(v.args[0].values) == 2:
                p, lit = v.args[0].values
                if isinstance(p, ast.Name) and p.id in params and isinstance(lit, ast.Dict) and lit.keys and all(
                        isinstance(k, ast.Constant) and isinstance(k.value, str) for k in lit.keys) and all(
                        isinstance(w, ast.Constant) and isinstance(w.value, float) for w in lit.values) \
                        and len({k.value for k in lit.keys}) == len(lit.keys):
                    ptypes[p.id] = "ratemap"
                    entries = ", ".join(f"({lean_str(k.value)}, {self.F(w)})" for k, w in zip(lit.keys, lit.values))
                    fields.append((x, "ratemap", f"(Rbacx.PyL.rateMapOr {ident(p.id)} [{entries}])"))
                    continue
            fields.append((x, "val", ""))
            vals.append((x, v))
        for x, v in vals:
            for n in ast.walk(v):
                if isinstance(n, ast.Name) and n.id in ptypes:
                    raise Unsupported(f"__init__: the {ptypes[n.id]}-typed parameter {n.id} is also used in self.{x}")
        for p, t in ptypes.items():
            uses = [n for st in body if not (st.targets[0].attr in skipped) for n in ast.walk(st.value) if isinstance(n, ast.Name) and n.id == p]
            if len(uses) != 1:
                raise Unsupported(f"__init__: the {t}-typed parameter {p} is used more than once")
        terms = {x: self.E(v) for x, v in vals}
        fields = [(x, t, term or terms[x]) for x, t, term in fields]
        used = {n.id for st in body if st.targets[0].attr not in skipped for n in ast.walk(st.value) if isinstance(n, ast.Name)}
        kept = [p for p in params if p in used]
        dropped = [p for p in params if p not in used]
        names = [ident(f[0]) for f in fields]
        if len(set(names)) != len(names) or len({ident(p) for p in kept}) != len(kept):
            raise Unsupported("__init__: names clash after renaming")
        self.attr_types = {x: t for x, t, _ in fields}
        self.init_params = [(p, ptypes.get(p, "val")) for p in kept]
        ty = {"float": FNUM, "ratemap": "Rbacx.PyL.RateMap", "val": "PyVal"}
        pty = {"float": FNUM, "ratemap": "Option Rbacx.PyL.RateMap", "val": "PyVal"}
        struct = (f"/-- the attributes `{self.cfg.cls}.__init__` assigns, other than those of the emit effect ({', '.join(skipped)}) -/\n"
                  f"structure {self.cfg.self_type} where\n" + "".join(f"  {ident(x)} : {ty[t]}\n" for x, t, _ in fields))
        doc = (f"/-- `{self.cfg.cls}.__init__`: the normalisation of the arguments into the attributes.  Left out (emit effect): the attributes "
               f"{', '.join(skipped)} and the parameters only they read ({', '.join(dropped)}).  Float-typed parameters "
               f"({', '.join(p for p, t in self.init_params if t == 'float')}) are given by the value of `float()` of the argument; rate-map parameters "
               f"({', '.join(p for p, t in self.init_params if t == 'ratemap')}) by `none` (None) or the entries with their values after `float()`.  "
               f"Keyword-only parameters are ordinary parameters here: callers pass every one. -/\n")
        sig = " ".join(f"({ident(p)} : {pty[t]})" for p, t in self.init_params)
        inits = ",\n    ".join(f"{ident(x)} := {term}" for x, _, term in fields)
        return struct + "\n" + doc + f"def {ident(self.cfg.init_lean)} {sig} : {self.cfg.self_type} :=\n  {{ {inits} }}\n"

    def method(self, fn: ast.FunctionDef, lean: str, mode: str) -> str:
        a = fn.args
        if a.vararg or a.kwarg or a.posonlyargs or a.defaults or a.kwonlyargs or fn.decorator_list or not a.args or a.args[0].arg != "self":
            raise Unsupported(f"signature of {fn.name}")
        params = [x.arg for x in a.args[1:]]
        self.cur_fn, self.mode = fn, mode
        self.locals = {"self"} | set(params) | {n.id for n in ast.walk(fn) if isinstance(n, ast.Name) and isinstance(n.ctx, ast.Store)}
        self.notes, self.diag, self.rendering = [], set(), {}
        self.uses_draw = self.uses_ext = self.uses_size = self.emitted = False
        if any(isinstance(n, (ast.For, ast.While, ast.With, ast.FunctionDef, ast.AsyncFunctionDef, ast.Lambda, ast.Global, ast.Nonlocal, ast.Raise,
                              ast.AugAssign, ast.Delete, ast.NamedExpr, ast.Break, ast.Continue, ast.Yield, ast.YieldFrom, ast.Await, ast.Assert,
                              ast.Import, ast.ImportFrom, ast.Match)) for b in fn.body for n in ast.walk(b)):
            raise Unsupported(f"{fn.name}: a statement kind outside the logger subset")
        # float-typed locals: the greatest set of assigned locals all of whose assignments are float-typed
        assigns: dict[str, list[ast.expr]] = {}
        for n in ast.walk(fn):
            if isinstance(n, (ast.Assign, ast.AnnAssign)) and getattr(n, "value", None) is not None:
                for t in (n.targets if isinstance(n, ast.Assign) else [n.target]):
                    for m in ast.walk(t):
                        if isinstance(m, ast.Name) and isinstance(m.ctx, ast.Store):
                            assigns.setdefault(m.id, []).append(n.value if isinstance(t, ast.Name) else ast.Constant(None))
        fl = set(assigns) - set(params)
        while True:
            nxt = {v for v in fl if all(self.is_float(e, fl) for e in assigns[v])}
            if nxt == fl:
                break
            fl = nxt
        self.float_locals = fl
        reserved = {"self", "draw", "jsonSize", ident(self.cfg.external), ident(self.cfg.const_lean), ident(self.cfg.init_lean)} | \
                   {ident(d["lean"]) for d in self.done.values()} | {ident(lean)}
        taken = [ident(v) for v in self.locals if v != "self"]
        if len(set(taken)) != len(taken) or set(taken) & reserved:
            raise Unsupported(f"{fn.name}: variable names clash after renaming (self, draw, jsonSize, the external and the definitions are reserved)")
        body = self.run(list(fn.body), (), (), "  ")
        if mode == "emit" and not self.emitted:
            raise Unsupported(f"{fn.name}: no emit statement found")
        head = [f"(self : {self.cfg.self_type})"]
        notes = [f"`self`: the attributes as `{self.cfg.init_lean}` builds them"]
        if self.uses_ext:
            head.append(f"({ident(self.cfg.external)} : {' → '.join(['PyVal'] * len(self.cfg.ext_params))} → Rbacx.PyL.CallOut)")
            notes.append(f"`{ident(self.cfg.external)}`: the module-level function `{self.cfg.external}({', '.join(self.cfg.ext_params)})`, NOT translated here — its "
                         f"outcome (returned value / raised, and the state of its first argument afterwards) is a parameter")
        if self.uses_size:
            head.append("(jsonSize : PyVal → Option Nat)")
            notes.append("`jsonSize v`: `len(json.dumps(v, ensure_ascii=False).encode(\"utf-8\", \"surrogatepass\"))`, `none` = `json.dumps` raised")
        if self.uses_draw:
            head.append(f"(draw : {FNUM})")
            notes.append("`draw`: the value of the one `random.random()` call of the execution")
        head += [f"({ident(p)} : PyVal)" for p in params]
        if mode == "emit":
            notes.append("result: `none` = nothing was emitted, `some r` = the record `r` was handed to the emit statement (rendering and destination: "
                         "the emit effect, not translated)")
        notes += list(self.cfg.notes.get(fn.name, [])) + self.notes
        doc = "/-- " + "; ".join(notes).replace("-/", "- /") + " -/\n"
        self.done[fn.name] = {"lean": lean, "mode": mode, "draw": self.uses_draw, "ext": self.uses_ext, "size": self.uses_size}
        rty = "Option PyVal" if mode == "emit" else "PyVal"
        return f"{doc}def {ident(lean)} {' '.join(head)} : {rty} :=\n  {body}\n"


def translate(source: str, cfg: LoggerCfg, emitting: str = "log") -> dict:
    """{"const": text | None, "init": text, "methods": {python name: text}, "init_params": [[name, type]…], "signatures": {python name: {...}}}"""
    tree = ast.parse(source)
    classes = [n for n in tree.body if isinstance(n, ast.ClassDef) and n.name == cfg.cls]
    if len(classes) != 1:
        raise Unsupported(f"class {cfg.cls} not found")
    fns = {n.name: n for n in classes[0].body if isinstance(n, ast.FunctionDef)}
    tr = LoggerTranslator(cfg, pytolean._module_consts(tree))
    const = tr.module_const(tree)
    if "__init__" not in fns:
        raise Unsupported("__init__ not found")
    out = {"const": const, "init": tr.init(fns["__init__"]), "methods": {}}
    out["init_params"] = [[p, t] for p, t in tr.init_params]
    for name, lean in cfg.methods.items():
        if name not in fns:
            raise Unsupported(f"method {name} not found")
        out["methods"][name] = tr.method(fns[name], lean, "emit" if name == emitting else "val")
    out["signatures"] = {k: {x: v[x] for x in ("lean", "mode", "draw", "ext", "size")} for k, v in tr.done.items()}
    return out


if __name__ == "__main__":
    import sys
    src = open(sys.argv[1], encoding="utf-8").read()
    res = translate(src, LoggerCfg(methods={"_should_drop_by_sampling": "should_drop", "log": "logger_log"}))
    print(res["const"])
    print(res["init"])
    for v in res["methods"].values():
        print(v)
