"""Extension of harness/pytolean.py for METHODS WITH A WORKLIST LOOP (C18: `StaticRoleResolver.expand` of core/roles.py).

Reuses pytolean's expression/statement machinery (`Translator.E`, `Translator.S`, `appends`, `loop_acc`); everything below is
syntax-directed and anything outside the stated shapes raises `Unsupported` (reported as a failed extraction).

* a method `def m(self, a, b)`: `self` is dropped; every attribute `self.x` the method READS becomes a leading parameter `x` (the
  method must not store to `self.…`, nor use `self` in any other way).  `__init__` is accepted when its body is a sequence of
  `self.x = <expr>` assignments: per attribute one definition `<prefix>_init_x <parameters of __init__>` = the value stored (constant
  defaults of the parameters are recorded in the doc comment; callers pass every argument).  Values, not references: that the
  resolver keeps the caller's dict (and sees later mutations of it) is outside what is represented.
* `while <test>: <body>` (no `else`, no `break`/`return`/nested `while` in the body) → `Rbacx.Py.whileFuel fuel <state> <cond> <body>`
  with an extra LAST parameter `fuel : Nat` of the function, whose result type becomes `Option PyVal` (`none` = the budget of body
  executions ran out; every `return e` is `some e`).  A general `while` has no total Lean meaning; the per-run obligation proves that
  an explicit budget suffices.  The STATE is the tuple, in order of first occurrence in the body, of the variables the body assigns
  or mutates in place, minus the *temporaries*: a variable that does not occur outside the body and is either assigned by a top-level
  statement of the body before anything mentions it, or is the target of a `for` inside the body and occurs only there.  Every state
  variable must be bound before the loop.  `continue` and running off the end of the body yield the state.
* `r = xs.pop()` (no argument) → `let r := listLast xs; let xs := listInit xs`; `xs.append(e)` inside an append-only `for` (pytolean's
  accumulator loop, here allowed on a state variable: `xs := xs ++ items`); `s = set()` / `s: set[T] = set()`, `s.add(e)` →
  `let s := setAdd s e`, `e in s` → `inSet (iter s) e`, `sorted(x)`, `d.get(k, default)` → `getDV`.
  In-place mutation is value-faithful only for an object nobody else holds: a mutated variable must be bound ONCE, to a fresh object
  (`list(...)`, `[...]`, a list comprehension, `set()`), and may occur only as the receiver of `.pop()/.append()/.add()`, as (the
  operand of `not` in) an `if`/`while` test, as the right operand of `in`/`not in`, or as the argument of `sorted`/`list`/`tuple`/`len`.
  A set variable not even in a test or `list`/`tuple` (nothing that could observe CPython's iteration order — `sorted`, `in` cannot).
* names are checked for definite binding while translating (a variable read where the emitted Lean text would not have it in scope
  raises `Unsupported` instead of producing text that does not compile)."""
from __future__ import annotations

import ast

import pytolean
from pytolean import Unsupported, ident

_FRESH_CALLS = ("list", "set")
_MUTATORS = ("pop", "append", "add")


def _parents(root: ast.AST) -> dict[int, ast.AST]:
    out: dict[int, ast.AST] = {}
    for n in ast.walk(root):
        for c in ast.iter_child_nodes(n):
            out[id(c)] = n
    return out


def _mentions(node: ast.AST, name: str) -> bool:
    return any(isinstance(n, ast.Name) and n.id == name for n in ast.walk(node))


class LoopTranslator(pytolean.Translator):
    def __init__(self, consts: dict | None = None):
        super().__init__(set(), consts)
        self.bound: set[str] = set()        # names in scope of the Lean text being emitted
        self.attrs: list[str] = []          # `self.<attr>` read by the method, in order of first read
        self.sets: set[str] = set()
        self.mutated: set[str] = set()
        self.state: list[str] | None = None  # state variables of the while loop whose body is being translated
        self.has_while = False

    # ------------------------------------------------------------------ expressions
    def E(self, e: ast.expr) -> str:
        if isinstance(e, ast.Name):
            if e.id in self.locals and e.id not in self.bound:
                raise Unsupported(f"variable {e.id} may be read before it is bound")
            return super().E(e)
        if isinstance(e, ast.Attribute) and isinstance(e.value, ast.Name) and e.value.id == "self" and isinstance(e.ctx, ast.Load):
            if e.attr not in self.attrs:
                raise Unsupported(f"self.{e.attr}")
            return ident(e.attr)
        if isinstance(e, ast.Compare) and len(e.ops) == 1 and isinstance(e.ops[0], (ast.In, ast.NotIn)) \
                and isinstance(e.comparators[0], ast.Name) and e.comparators[0].id in self.sets:
            test = f"(Rbacx.Py.inSet (Rbacx.Py.iter {self.E(e.comparators[0])}) {self.E(e.left)})"
            return test if isinstance(e.ops[0], ast.In) else f"(Rbacx.Py.pnot {test})"
        if isinstance(e, ast.Call) and not e.keywords:
            f = e.func
            if isinstance(f, ast.Name) and f.id not in self.locals:
                if f.id == "set" and not e.args:
                    return "Rbacx.Py.setEmpty"
                if f.id == "sorted" and len(e.args) == 1:
                    return f"(Rbacx.Py.sorted {self.E(e.args[0])})"
            if isinstance(f, ast.Attribute) and f.attr == "get" and len(e.args) == 2:
                return f"(Rbacx.Py.getDV {self.E(f.value)} {self.E(e.args[0])} {self.E(e.args[1])})"
        return super().E(e)

    # ------------------------------------------------------------------ statements
    def S(self, stmts: list[ast.stmt], ind: str, tail: str = "PyVal.none", ret=None) -> str:
        saved = set(self.bound)
        try:
            return self._S(stmts, ind, tail, ret)
        finally:
            self.bound = saved          # a `let` scopes over the statements that follow it, not over the other branch of an `if`

    def _S(self, stmts, ind, tail, ret) -> str:
        if not stmts:
            return tail
        st, rest = stmts[0], stmts[1:]
        if isinstance(st, ast.Continue):
            if self.state is None:
                raise Unsupported("continue outside a while body")
            return tail
        if isinstance(st, (ast.Break, ast.Try, ast.With, ast.Raise, ast.AugAssign, ast.Delete, ast.Global, ast.Nonlocal)):
            raise Unsupported(f"statement {ast.unparse(st)[:60]}")
        if isinstance(st, ast.Return) and self.state is not None:
            raise Unsupported("return inside a while body")
        if isinstance(st, (ast.Assign, ast.AnnAssign)) and not (isinstance(st, ast.AnnAssign) and st.value is None):
            tgt = st.targets[0] if isinstance(st, ast.Assign) else st.target
            if (isinstance(st, ast.Assign) and len(st.targets) != 1) or not isinstance(tgt, ast.Name):
                raise Unsupported(f"assignment {ast.unparse(st)[:60]}")
            v = st.value
            if isinstance(v, ast.Call) and isinstance(v.func, ast.Attribute) and v.func.attr == "pop":
                xs = v.func.value
                if v.args or v.keywords or not isinstance(xs, ast.Name) or xs.id not in self.mutated or xs.id == tgt.id:
                    raise Unsupported(f"{ast.unparse(v)}: only `x = xs.pop()` without argument on a list built in this function")
                a = f"let {ident(tgt.id)} := Rbacx.Py.listLast {self.E(xs)}\n{ind}let {ident(xs.id)} := Rbacx.Py.listInit {self.E(xs)}\n{ind}"
                self.bound.add(tgt.id)
                return a + self.S(rest, ind, tail, ret)
            a = f"let {ident(tgt.id)} := {self.E(v)}\n{ind}"
            self.bound.add(tgt.id)
            return a + self.S(rest, ind, tail, ret)
        if isinstance(st, ast.Expr) and isinstance(st.value, ast.Call) and isinstance(st.value.func, ast.Attribute):
            c = st.value
            if c.func.attr == "add" and isinstance(c.func.value, ast.Name) and c.func.value.id in self.sets and len(c.args) == 1 and not c.keywords:
                s = c.func.value
                return f"let {ident(s.id)} := Rbacx.Py.setAdd {self.E(s)} {self.E(c.args[0])}\n{ind}{self.S(rest, ind, tail, ret)}"
            raise Unsupported(f"statement {ast.unparse(st)[:60]}")
        if isinstance(st, ast.For):
            if st.orelse or not isinstance(st.target, ast.Name) or any(isinstance(n, (ast.Return, ast.Break, ast.Continue, ast.While))
                                                                         for b in st.body for n in ast.walk(b)):
                raise Unsupported("only append-only for loops over one accumulator")
            acc, p = self.loop_acc(st), st.target.id
            if acc not in self.mutated or acc == p:
                raise Unsupported(f"for loop appending to {acc}")
            it = self.E(st.iter)
            self.bound.add(p)
            body = self.appends(st.body, acc)
            self.bound.discard(p)
            return (f"let {ident(acc)} := Rbacx.Py.concat {self.E(ast.Name(acc, ast.Load()))} (Rbacx.Py.collect {it} fun {ident(p)} => {body})\n"
                    f"{ind}{self.S(rest, ind, tail, ret)}")
        if isinstance(st, ast.While):
            return self.while_loop(st, rest, ind, tail, ret)
        # docstrings, pass, return, bare annotations, if/elif/else: pytolean's own rules (they recurse through self.S)
        if isinstance(st, (ast.Pass, ast.Return, ast.If)) or (isinstance(st, ast.AnnAssign) and st.value is None) \
                or (isinstance(st, ast.Expr) and isinstance(st.value, ast.Constant) and isinstance(st.value.value, str)):
            return pytolean.Translator.S(self, [st] + rest, ind, tail, ret)
        raise Unsupported(f"statement {ast.unparse(st)[:60]}")

    # ------------------------------------------------------------------ while
    def loop_state(self, st: ast.While) -> list[str]:
        """the state variables of the loop (see the module docstring)"""
        order: list[str] = []           # order of first occurrence in the body (source order)
        names = sorted((n for b in st.body for n in ast.walk(b) if isinstance(n, ast.Name)), key=lambda n: (n.lineno, n.col_offset))
        stored = set(self._stores(st.body))
        for n in names:
            if (n.id in stored or n.id in self.mutated) and n.id not in order:
                order.append(n.id)
        inside = {id(n) for b in st.body for n in ast.walk(b)}
        outside = {n.id for n in ast.walk(self.cur_fn) if isinstance(n, ast.Name) and id(n) not in inside}
        temps = []
        for v in order:
            if v in self.mutated or v in outside:
                continue
            first = next(b for b in st.body if _mentions(b, v))
            if isinstance(first, (ast.Assign, ast.AnnAssign)) and getattr(first, "value", None) is not None:
                tgt = first.targets[0] if isinstance(first, ast.Assign) else first.target
                if isinstance(tgt, ast.Name) and tgt.id == v and not (isinstance(first, ast.Assign) and len(first.targets) != 1) \
                        and not _mentions(first.value, v):
                    temps.append(v)
                    continue
            fors = [n for b in st.body for n in ast.walk(b) if isinstance(n, ast.For) and isinstance(n.target, ast.Name) and n.target.id == v]
            if len(fors) == 1 and not _mentions(fors[0].iter, v):
                in_for = {id(n) for n in ast.walk(fors[0])}
                if all(id(n) in in_for for n in names if n.id == v):
                    temps.append(v)
        return [v for v in order if v not in temps]

    @staticmethod
    def _proj(i: int, n: int) -> str:
        if n == 1:
            return "st"
        return "st" + ".2" * i + ("" if i == n - 1 else ".1")

    def _unpack(self, state: list[str], used: list[str], ind: str) -> str:
        return "".join(f"let {ident(v)} := {self._proj(i, len(state))}\n{ind}" for i, v in enumerate(state) if v in used)

    def while_loop(self, st: ast.While, rest: list[ast.stmt], ind: str, tail: str, ret) -> str:
        if st.orelse:
            raise Unsupported("while/else")
        if self.state is not None:
            raise Unsupported("nested while")
        for b in st.body:
            for n in ast.walk(b):
                if isinstance(n, (ast.Break, ast.Return, ast.While, ast.Try, ast.With, ast.Raise)):
                    raise Unsupported(f"{type(n).__name__} inside a while body")
        state = self.loop_state(st)
        if not state:
            raise Unsupported("while loop without state")
        for v in state:
            if v not in self.bound:
                raise Unsupported(f"state variable {v} of the while loop is not bound before the loop")
        ty = " × ".join("PyVal" for _ in state)
        tup = "(" + ", ".join(ident(v) for v in state) + ")" if len(state) > 1 else ident(state[0])
        i2 = ind + "    "
        reads: list[str] = []
        pytolean._reads(st.test, self.locals, reads)
        cond = self._unpack(state, reads, i2) + f"({self.E(st.test)}).truthy"
        self.state = state
        try:
            body = self._unpack(state, state, i2) + self.S(st.body, i2, tup, ret)
        finally:
            self.state = None
        reads = []
        for r_ in rest:
            pytolean._reads(r_, self.locals, reads)
        after = self._unpack(state, reads, ind) + self.S(rest, ind, tail, ret)
        self.notes.append("`while " + ast.unparse(st.test) + "`: state (" + ", ".join(state) + "), budget `fuel`")
        return (f"(Rbacx.Py.whileFuel fuel {tup}\n{ind}  (fun (st : {ty}) =>\n{i2}{cond})\n{ind}  (fun (st : {ty}) =>\n{i2}{body})).bind fun (st : {ty}) =>\n"
                f"{ind}{after}")

    # ------------------------------------------------------------------ mutation discipline
    def check_mutation(self, fn: ast.FunctionDef) -> None:
        """find the set variables and the lists mutated in place; enforce the single fresh binding and the permitted uses"""
        par = _parents(fn)
        self.sets, self.mutated = set(), set()
        for n in ast.walk(fn):
            if isinstance(n, ast.Call) and isinstance(n.func, ast.Attribute) and n.func.attr in _MUTATORS:
                if not isinstance(n.func.value, ast.Name):
                    raise Unsupported(f"in-place mutation of something that is not a local variable: {ast.unparse(n)[:60]}")
                self.mutated.add(n.func.value.id)
        params = {a.arg for a in fn.args.posonlyargs + fn.args.args + fn.args.kwonlyargs}
        for v in sorted(self.mutated):
            if v in params:
                raise Unsupported(f"in-place mutation of the parameter {v}")
            binds = [n for n in ast.walk(fn) if isinstance(n, (ast.Assign, ast.AnnAssign)) and getattr(n, "value", None) is not None
                     and any(isinstance(t, ast.Name) and t.id == v for t in (n.targets if isinstance(n, ast.Assign) else [n.target]))]
            stores = [n for n in ast.walk(fn) if isinstance(n, ast.Name) and n.id == v and isinstance(n.ctx, (ast.Store, ast.Del))]
            if len(binds) != 1 or len(stores) != 1:
                raise Unsupported(f"the mutated variable {v} is bound {len(stores)} times (need exactly one binding to a fresh object)")
            val = binds[0].value
            fresh = isinstance(val, (ast.List, ast.ListComp)) or (isinstance(val, ast.Call) and isinstance(val.func, ast.Name)
                                                                  and val.func.id in _FRESH_CALLS and not val.keywords and len(val.args) <= 1)
            if not fresh:
                raise Unsupported(f"the mutated variable {v} is bound to {ast.unparse(val)[:40]}, not to a fresh list/set")
            if isinstance(val, ast.Call) and val.func.id == "set":
                if val.args:
                    raise Unsupported("set(x) as a value")
                self.sets.add(v)
        for n in ast.walk(fn):
            if not (isinstance(n, ast.Name) and n.id in self.mutated and isinstance(n.ctx, ast.Load)):
                continue
            p = par[id(n)]
            is_set = n.id in self.sets
            ok = False
            if isinstance(p, ast.Attribute) and isinstance(par[id(p)], ast.Call) and par[id(p)].func is p:
                ok = p.attr in (("add",) if is_set else ("pop", "append"))
            elif isinstance(p, ast.Compare) and len(p.ops) == 1 and isinstance(p.ops[0], (ast.In, ast.NotIn)) and p.comparators[0] is n:
                ok = True
            elif isinstance(p, ast.Call) and isinstance(p.func, ast.Name) and len(p.args) == 1 and p.args[0] is n and not p.keywords:
                ok = p.func.id in (("sorted",) if is_set else ("sorted", "list", "tuple", "len"))
            elif not is_set and isinstance(p, (ast.If, ast.While)) and p.test is n:
                ok = True
            elif not is_set and isinstance(p, ast.UnaryOp) and isinstance(p.op, ast.Not) and isinstance(par[id(p)], (ast.If, ast.While)) \
                    and par[id(p)].test is p:
                ok = True
            if not ok:
                raise Unsupported(f"the mutated variable {n.id} is used as a value ({ast.unparse(p)[:50]}): it could be aliased")

    # ------------------------------------------------------------------ methods
    def _self_uses(self, fn: ast.FunctionDef, selfname: str) -> list[str]:
        par = _parents(fn)
        attrs: list[str] = []
        uses = sorted((n for n in ast.walk(fn) if isinstance(n, ast.Name) and n.id == selfname), key=lambda n: (n.lineno, n.col_offset))
        for n in uses:
            p = par[id(n)]
            if not (isinstance(p, ast.Attribute) and p.value is n and isinstance(p.ctx, ast.Load)):
                raise Unsupported(f"`{selfname}` used other than to read an attribute")
            pp = par[id(p)]
            if isinstance(pp, ast.Call) and pp.func is p:
                raise Unsupported(f"method call {selfname}.{p.attr}(…)")
            if p.attr not in attrs:
                attrs.append(p.attr)
        return attrs

    def _params(self, fn: ast.FunctionDef) -> tuple[list[str], list[str]]:
        a = fn.args
        if a.vararg or a.kwarg or a.posonlyargs or a.kwonlyargs or not a.args:
            raise Unsupported(f"signature of {fn.name}")
        names = [x.arg for x in a.args]
        notes = []
        for x, d in zip(names[len(names) - len(a.defaults):], a.defaults):
            if not isinstance(d, ast.Constant):
                raise Unsupported(f"default of parameter {x}")
            notes.append(f"parameter `{x}` (default `{d.value!r}`) is an ordinary parameter here: callers pass it")
        return names, notes

    def method(self, fn: ast.FunctionDef, lean_name: str, domain: str) -> str:
        """`def m(self, …)` → `def <lean_name> <attributes read> <parameters> [fuel] : [Option] PyVal`"""
        names, notes = self._params(fn)
        selfname, args = names[0], names[1:]
        self.cur_fn = fn
        self.attrs = self._self_uses(fn, selfname)
        self.locals = set(args) | {n.id for n in ast.walk(fn) if isinstance(n, ast.Name) and isinstance(n.ctx, ast.Store)}
        taken = {ident(v) for v in self.locals}
        for reserved in ["fuel", "st"] + [ident(a) for a in self.attrs]:
            if reserved in taken:
                raise Unsupported(f"the source uses the name {reserved}")
        if len({ident(v) for v in self.locals}) != len(self.locals) or ident(lean_name) in taken:
            raise Unsupported("variable names clash after renaming")
        self.check_mutation(fn)
        self.bound = set(args)
        self.has_while = any(isinstance(n, ast.While) for n in ast.walk(fn))
        self.state = None
        self.notes = []
        if self.has_while:
            body = self.S(fn.body, "  ", "(some PyVal.none)", lambda x: f"(some {x})")
        else:
            body = self.S(fn.body, "  ")
        params = [f"({ident(a)} : PyVal)" for a in self.attrs + args] + (["(fuel : Nat)"] if self.has_while else [])
        notes = ([f"`{a}`: the value of `self.{a}`" for a in self.attrs] + notes + self.notes
                 + (["result: `some v` = the method returned `v` having run the loop body at most `fuel` times, `none` = that budget "
                     "did not suffice"] if self.has_while else []) + [domain])
        doc = "/-- " + "; ".join(notes).replace("-/", "- /") + " -/\n"
        return f"{doc}def {ident(lean_name)} {' '.join(params)} : {'Option PyVal' if self.has_while else 'PyVal'} :=\n  {body}\n"

    def init_attrs(self, fn: ast.FunctionDef, prefix: str, domain: str) -> dict[str, str]:
        """`__init__(self, …)` whose body only stores attributes: {attr: definition of the stored value}"""
        names, notes = self._params(fn)
        selfname, args = names[0], names[1:]
        self.cur_fn = fn
        self.attrs, self.sets, self.mutated, self.state = [], set(), set(), None
        self.locals = set(args)
        self.bound = set(args)
        out: dict[str, str] = {}
        for st in fn.body:
            if isinstance(st, ast.Expr) and isinstance(st.value, ast.Constant) and isinstance(st.value.value, str):
                continue
            if isinstance(st, ast.Pass):
                continue
            tgt = st.targets[0] if isinstance(st, ast.Assign) and len(st.targets) == 1 else st.target if isinstance(st, ast.AnnAssign) else None
            if not (isinstance(tgt, ast.Attribute) and isinstance(tgt.value, ast.Name) and tgt.value.id == selfname) \
                    or getattr(st, "value", None) is None or tgt.attr in out:
                raise Unsupported(f"__init__: statement {ast.unparse(st)[:60]}")
            if _mentions(st.value, selfname):
                raise Unsupported("__init__: a stored value reads self")
            name = f"{prefix}_init_{tgt.attr}"
            doc = "/-- " + "; ".join([f"the value `__init__` stores in `self.{tgt.attr}` (`{ast.unparse(st)}`)"] + notes + [domain]).replace("-/", "- /") + " -/\n"
            params = " ".join(f"({ident(a)} : PyVal)" for a in args)
            out[tgt.attr] = f"{doc}def {ident(name)} {params} : PyVal :=\n  {self.E(st.value)}\n"
        return out


def translate_class(source: str, cls_name: str, methods: list[str], prefix: str, domain: str) -> dict[str, str]:
    """{Lean name: definition} for `__init__`'s attributes (`<prefix>_init_<attr>`) and the given methods (`<prefix>_<method>`) of a class;
    every attribute a method reads must be stored by `__init__` and by nothing else in the class"""
    tree = ast.parse(source)
    classes = [n for n in tree.body if isinstance(n, ast.ClassDef) and n.name == cls_name]
    if len(classes) != 1:
        raise Unsupported(f"class {cls_name} not found")
    cls = classes[0]
    fns = {n.name: n for n in cls.body if isinstance(n, ast.FunctionDef)}
    if len(fns) != len([n for n in cls.body if isinstance(n, (ast.FunctionDef, ast.AsyncFunctionDef))]):
        raise Unsupported("async or duplicate methods")
    for n in fns.values():
        if n.decorator_list:
            raise Unsupported(f"decorated method {n.name}")
    if "__init__" not in fns:
        raise Unsupported("no __init__")
    consts = pytolean._module_consts(tree)
    out: dict[str, str] = {}
    inits = LoopTranslator(consts).init_attrs(fns["__init__"], prefix, domain)
    for attr, text in inits.items():
        out[f"{prefix}_init_{attr}"] = text
    for name, fn in fns.items():
        if name == "__init__":
            continue
        for n in ast.walk(fn):
            if isinstance(n, ast.Attribute) and isinstance(n.ctx, (ast.Store, ast.Del)):
                raise Unsupported(f"{name} stores to an attribute ({ast.unparse(n)})")
    for m in methods:
        if m not in fns:
            raise Unsupported(f"method {m} not found")
        tr = LoopTranslator(consts)
        out[f"{prefix}_{m}"] = tr.method(fns[m], f"{prefix}_{m}", domain)
        for a in tr.attrs:
            if a not in inits:
                raise Unsupported(f"{m} reads self.{a}, which __init__ does not store")
    return out


if __name__ == "__main__":
    import sys
    src = open(sys.argv[1], encoding="utf-8").read()
    for k, v in translate_class(src, sys.argv[2], sys.argv[3:], "m", "").items():
        print(v)
