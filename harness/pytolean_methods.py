"""Source-to-Lean translation of the METHODS of a class whose one mutable field is an `OrderedDict` — in state-passing style.

Built on `pytolean.Translator` (expressions, assignments, `if`/`return`, append-only loops are its); the Python operations added here
get their meaning from `lean/Rbacx/Model/PyOrdDict.lean` (namespace `Rbacx.PyM`).  Used for `DefaultInMemoryCache` (core/cache.py, C15)
by the plugin `extractors/src_translation_cache.py`.  Syntax-directed; anything outside the shapes below raises `pytolean.Unsupported`.

A method `def m(self, a, b=None)` of class `C` becomes

    def <prefix>m (<config> : Int)… (now1 … nowN : Int) (data : Rbacx.PyM.OrdDict) (a b : PyVal) : Rbacx.PyM.OrdDict × Rbacx.PyM.Outcome

* `data` is `self.<state field>` — THE state: an insertion-ordered association list; every statement that changes the dict rebinds
  `data`; the result is the dict when the call ends and how it ended (`Outcome.ret v` / `Outcome.raised "KeyError"`).
  `__init__` must create the field as `OrderedDict()`; no method may rebind it or use it other than through the operations below.
* `<config>`: the fields `__init__` sets as `self.f = int(<parameter>)` (`_maxsize`): parameters, read as `(PyVal.int f)`.
  No method other than `__init__` may assign an attribute (so dataclass instances are immutable records and `self` has no other state).
* `with self.<lock field>:` is transparent (the statements of its body, in place): mutual exclusion is not this translation's business.
* `time.monotonic()` is an EXTERNAL: every syntactic call site gets its own integer parameter, **clock readings are passed in
  call-site order** (source order of the method; the sites of a helper `self.h()` called by the method take their place at the call).
  A site is read at most once per call: a site inside a loop, comprehension or lambda is rejected.  A parameter whose site is not
  reached on some path is simply not used on that path.
* `self.h(…)` as a statement, `h` an already translated method of the class: the helper's translation is called with the current
  dict; an exception it raises propagates, its return value is dropped.
* OrderedDict operations: `self.d.get(k)` (expression); as statements `self.d.pop(k, None)`, `self.d[k] = v`, `self.d.move_to_end(k)`
  (KeyError when absent), `self.d.popitem(last=False)` (KeyError when empty), `self.d.clear()`; `len(self.d)`.
* `for k, v in list(self.d.items())[:N]:` / `list(self.d.items())` / `self.d.items()` with an append-only body (one local accumulator;
  the body cannot touch the dict): `Rbacx.PyM.collectItems (Rbacx.PyM.odItems data (some N)) fun k v => …`; the literal `N` is the
  one in the source and is also reported (`slices`).
* `for x in <expr>: self.d.pop(x, None)`: a left fold of pops over the items of `<expr>` (a local list: a snapshot).
* `while <test>: self.d.popitem(last=False)`: `Rbacx.PyM.whilePopFirst (fun data => <test>) (Rbacx.PyM.fuel data) data` — fuel-bounded
  structural recursion with fuel `len(d) + 1`; that this is enough for every test is `Rbacx.PyM.whilePopFirst_fuel`.
* expressions: `<`, `<=`, `>`, `>=`, `+` (ints), `float(x)` (exact, see PyOrdDict.lean), `len(x)` as a value, attribute access `x.f` for a
  field `f` of a `@dataclass` of the module (`Rbacx.PyM.field`), construction `C(f=…, …)` of such a dataclass (`Rbacx.PyM.record`, fields
  in declaration order), plus everything `pytolean.Translator.E` knows.
* parameter defaults (constants) are recorded in the doc comment; callers pass every argument."""
from __future__ import annotations

import ast

import pytolean
from pytolean import Unsupported, ident, lean_str

OUT = "Rbacx.PyM.Outcome"
RESERVED = {"data", "exc", "self"}


def _is_self_attr(node: ast.AST, attr: str | None = None) -> bool:
    return isinstance(node, ast.Attribute) and isinstance(node.value, ast.Name) and node.value.id == "self" \
        and (attr is None or node.attr == attr)


def _is_clock_call(node: ast.AST) -> bool:
    return isinstance(node, ast.Call) and isinstance(node.func, ast.Attribute) and node.func.attr == "monotonic" \
        and isinstance(node.func.value, ast.Name) and node.func.value.id == "time" and not node.args and not node.keywords


def _dataclasses(tree: ast.Module) -> dict[str, list[str]]:
    out = {}
    for n in tree.body:
        if isinstance(n, ast.ClassDef) and any((isinstance(d, ast.Name) and d.id == "dataclass")
                                               or (isinstance(d, ast.Attribute) and d.attr == "dataclass") for d in n.decorator_list):
            fields = []
            for st in n.body:
                if isinstance(st, ast.AnnAssign) and isinstance(st.target, ast.Name):
                    if st.value is not None:
                        raise Unsupported(f"dataclass {n.name}: field {st.target.id} has a default")
                    fields.append(st.target.id)
                elif isinstance(st, ast.Expr) and isinstance(st.value, ast.Constant):
                    continue
                elif isinstance(st, ast.Pass):
                    continue
                else:
                    raise Unsupported(f"dataclass {n.name}: member {ast.unparse(st)[:40]}")
            out[n.name] = fields
    return out


class MethodTranslator(pytolean.Translator):
    def __init__(self, tree: ast.Module, cls: ast.ClassDef, state: str, lock: str, prefix: str):
        super().__init__(set(), pytolean._module_consts(tree))
        self.cls, self.state, self.lock, self.prefix = cls, state, lock, prefix
        self.dataclasses = _dataclasses(tree)
        self.fields = {f for fs in self.dataclasses.values() for f in fs}
        self.methods = {n.name: n for n in cls.body if isinstance(n, ast.FunctionDef)}
        self.config: list[str] = []            # python names of the int-valued configuration fields, in order of assignment
        self.done: dict[str, dict] = {}        # translated methods: name -> {"sites": [...], "params": [...]}
        self.slices: list[dict] = []           # {"method", "prefix"} of every items() loop
        self.site_name: dict[int, str] = {}    # id(call node of time.monotonic()) -> parameter
        self.helper_sites: dict[int, list[str]] = {}   # id(call node of self.h()) -> the parameters handed to the helper
        self._check_class()

    # ------------------------------------------------------------------ the class as a whole
    def _check_class(self) -> None:
        init = self.methods.get("__init__")
        if init is None:
            raise Unsupported(f"class {self.cls.name} has no __init__")
        seen_state = seen_lock = False
        params = {a.arg for a in init.args.args}
        for st in init.body:
            if isinstance(st, ast.Expr) and isinstance(st.value, ast.Constant):
                continue
            tgt = st.targets[0] if isinstance(st, ast.Assign) and len(st.targets) == 1 else st.target if isinstance(st, ast.AnnAssign) else None
            val = getattr(st, "value", None)
            if tgt is None or val is None or not _is_self_attr(tgt):
                raise Unsupported(f"__init__: statement {ast.unparse(st)[:60]}")
            if tgt.attr == self.state:
                if not (isinstance(val, ast.Call) and isinstance(val.func, ast.Name) and val.func.id == "OrderedDict" and not val.args and not val.keywords):
                    raise Unsupported(f"__init__: self.{self.state} is not created as OrderedDict()")
                seen_state = True
            elif tgt.attr == self.lock:
                seen_lock = True
            elif isinstance(val, ast.Call) and isinstance(val.func, ast.Name) and val.func.id == "int" and len(val.args) == 1 \
                    and isinstance(val.args[0], ast.Name) and val.args[0].id in params and not val.keywords:
                self.config.append(tgt.attr)
            else:
                raise Unsupported(f"__init__: field {tgt.attr} is neither the state, the lock nor int(<parameter>)")
        if not seen_state or not seen_lock:
            raise Unsupported(f"__init__ does not set self.{self.state} and self.{self.lock}")
        for name, fn in self.methods.items():
            if name == "__init__":
                continue
            for n in ast.walk(fn):
                if isinstance(n, ast.Attribute) and isinstance(n.ctx, (ast.Store, ast.Del)):
                    raise Unsupported(f"{name}: attribute assignment {ast.unparse(n)}")
                if isinstance(n, (ast.Global, ast.Nonlocal, ast.Lambda, ast.FunctionDef, ast.AsyncFunctionDef, ast.Try, ast.Raise, ast.Yield,
                                  ast.YieldFrom, ast.Await, ast.NamedExpr, ast.Delete, ast.AugAssign)) and n is not fn:
                    raise Unsupported(f"{name}: {type(n).__name__}")

    def lean_name(self, method: str) -> str:
        return self.prefix + ident(method)

    # ------------------------------------------------------------------ recognisers
    def is_state(self, node: ast.AST) -> bool:
        return _is_self_attr(node, self.state)

    def state_op(self, c: ast.AST) -> str | None:
        if isinstance(c, ast.Call) and isinstance(c.func, ast.Attribute) and self.is_state(c.func.value):
            return c.func.attr
        return None

    def helper_call(self, c: ast.AST) -> str | None:
        if isinstance(c, ast.Call) and _is_self_attr(c.func) and c.func.attr in self.methods:
            return c.func.attr
        return None

    def items_iter(self, it: ast.expr) -> tuple[bool, int | None]:
        """(is an iteration over the dict's items, prefix)"""
        def items_call(x):
            return isinstance(x, ast.Call) and self.state_op(x) == "items" and not x.args and not x.keywords

        def listed(x):
            return isinstance(x, ast.Call) and isinstance(x.func, ast.Name) and x.func.id == "list" and "list" not in self.locals \
                and len(x.args) == 1 and not x.keywords and items_call(x.args[0])
        if items_call(it) or listed(it):
            return True, None
        if isinstance(it, ast.Subscript) and listed(it.value):
            s = it.slice
            if isinstance(s, ast.Slice) and s.lower is None and s.step is None and isinstance(s.upper, ast.Constant) \
                    and isinstance(s.upper.value, int) and not isinstance(s.upper.value, bool) and s.upper.value >= 0:
                return True, s.upper.value
            raise Unsupported(f"slice of the dict's items: {ast.unparse(it)}")
        return False, None

    # ------------------------------------------------------------------ expressions
    def E(self, e: ast.expr) -> str:
        if _is_clock_call(e):
            if id(e) not in self.site_name:
                raise Unsupported("time.monotonic() at a place that is not a recognised call site")
            return f"(PyVal.int {self.site_name[id(e)]})"
        if isinstance(e, ast.Attribute):
            if _is_self_attr(e):
                if e.attr in self.config:
                    return f"(PyVal.int {ident(e.attr)})"
                raise Unsupported(f"self.{e.attr} used as a value")
            if e.attr in self.fields and isinstance(e.ctx, ast.Load):
                return f"(Rbacx.PyM.field {self.E(e.value)} {lean_str(e.attr)})"
            raise Unsupported(f"attribute {ast.unparse(e)}")
        if isinstance(e, ast.Call):
            f = e.func
            op = self.state_op(e)
            if op == "get" and len(e.args) == 1 and not e.keywords:
                return f"(Rbacx.PyM.odGet data {self.E(e.args[0])})"
            if op is not None:
                raise Unsupported(f"dict operation {ast.unparse(e)} as an expression")
            if self.helper_call(e) is not None:
                raise Unsupported(f"call of the method {ast.unparse(e)} as an expression")
            if isinstance(f, ast.Name) and f.id not in self.locals and not e.keywords and len(e.args) == 1:
                if f.id == "len":
                    if self.is_state(e.args[0]):
                        return "(PyVal.int (Rbacx.PyM.odLen data))"
                    return f"(PyVal.int (Rbacx.Py.len {self.E(e.args[0])}))"
                if f.id == "float":
                    return f"(Rbacx.PyM.floatExact {self.E(e.args[0])})"
            if isinstance(f, ast.Name) and f.id in self.dataclasses and f.id not in self.locals:
                fields = self.dataclasses[f.id]
                given: dict[str, ast.expr] = dict(zip(fields, e.args))
                for kw in e.keywords:
                    if kw.arg is None or kw.arg not in fields or kw.arg in given:
                        raise Unsupported(f"constructor call {ast.unparse(e)}")
                    given[kw.arg] = kw.value
                if len(e.args) > len(fields) or set(given) != set(fields):
                    raise Unsupported(f"constructor call {ast.unparse(e)}")
                # CPython evaluates the arguments left to right as written; they have no effects here, so the order is immaterial
                return "(Rbacx.PyM.record [" + ", ".join(f"({lean_str(fl)}, {self.E(given[fl])})" for fl in fields) + "])"
        if isinstance(e, ast.Compare) and len(e.ops) == 1 and isinstance(e.ops[0], (ast.Lt, ast.LtE, ast.Gt, ast.GtE)):
            fn = {ast.Lt: "lt", ast.LtE: "le", ast.Gt: "gt", ast.GtE: "ge"}[type(e.ops[0])]
            return f"(Rbacx.PyM.{fn} {self.E(e.left)} {self.E(e.comparators[0])})"
        if isinstance(e, ast.BinOp) and isinstance(e.op, ast.Add):
            return f"(Rbacx.PyM.add {self.E(e.left)} {self.E(e.right)})"
        if self.is_state(e):
            raise Unsupported(f"self.{self.state} used as a value")
        return super().E(e)

    # ------------------------------------------------------------------ statements
    def _state_update(self, st: ast.stmt) -> str | None:
        """the Lean expression for the dict after a statement that changes it and cannot raise; None for any other statement"""
        if isinstance(st, ast.Expr):
            op = self.state_op(st.value)
            c = st.value
            if op == "pop":
                if len(c.args) == 2 and not c.keywords and isinstance(c.args[1], ast.Constant) and c.args[1].value is None:
                    return f"Rbacx.PyM.odPop data {self.E(c.args[0])}"
                raise Unsupported(f"{ast.unparse(c)}: only pop(k, None) is supported (pop(k) may raise)")
            if op == "clear":
                if c.args or c.keywords:
                    raise Unsupported(ast.unparse(c))
                return "Rbacx.PyM.odClear data"
        if isinstance(st, ast.Assign) and len(st.targets) == 1 and isinstance(st.targets[0], ast.Subscript) and self.is_state(st.targets[0].value):
            return f"Rbacx.PyM.odSetItem data {self.E(st.targets[0].slice)} {self.E(st.value)}"
        return None

    def _state_partial(self, st: ast.stmt) -> str | None:
        """the Lean expression (an `Option OrdDict`, none = KeyError) for a statement that changes the dict and may raise KeyError"""
        if isinstance(st, ast.Expr):
            op = self.state_op(st.value)
            c = st.value
            if op == "move_to_end":
                if len(c.args) == 1 and not c.keywords:
                    return f"Rbacx.PyM.odMoveToEnd data {self.E(c.args[0])}"
                raise Unsupported(f"{ast.unparse(c)}: only move_to_end(k)")
            if op == "popitem":
                if not c.args and len(c.keywords) == 1 and c.keywords[0].arg == "last" and isinstance(c.keywords[0].value, ast.Constant) \
                        and c.keywords[0].value.value is False:
                    return "Rbacx.PyM.odPopFirst data"
                raise Unsupported(f"{ast.unparse(c)}: only popitem(last=False)")
        return None

    def S(self, stmts: list[ast.stmt], ind: str, tail: str | None = None, ret=None) -> str:
        tail = tail or f"(data, {OUT}.ret PyVal.none)"
        ret = ret or (lambda x: f"(data, {OUT}.ret {x})")
        if not stmts:
            return tail
        st, rest = stmts[0], stmts[1:]

        def k(i: str = ind) -> str:
            return self.S(rest, i, tail, ret)
        if isinstance(st, ast.With):
            if len(st.items) != 1 or st.items[0].optional_vars is not None or not _is_self_attr(st.items[0].context_expr, self.lock):
                raise Unsupported(f"with statement {ast.unparse(st.items[0])}")
            return self.S(st.body + rest, ind, tail, ret)
        upd = self._state_update(st)
        if upd is not None:
            return f"let data := {upd}\n{ind}{k()}"
        par = self._state_partial(st)
        if par is not None:
            return (f"match {par} with\n{ind}| none => (data, {OUT}.raised \"KeyError\")\n{ind}| some data =>\n{ind}  {k(ind + '  ')}")
        if isinstance(st, ast.Expr) and self.state_op(st.value) is not None:
            raise Unsupported(f"dict operation {ast.unparse(st)[:60]}")
        if isinstance(st, ast.Expr) and self.helper_call(st.value) is not None:
            c = st.value
            h = self.helper_call(c)
            if h not in self.done:
                raise Unsupported(f"call of {h}, which is not translated (yet)")
            if c.keywords or len(c.args) != len(self.done[h]["params"]):
                raise Unsupported(f"call {ast.unparse(c)}")
            args = " ".join([ident(f) for f in self.config] + self.helper_sites[id(c)] + ["data"] + [self.E(a) for a in c.args])
            return (f"match {self.lean_name(h)} {args} with\n{ind}| (data, {OUT}.raised exc) => (data, {OUT}.raised exc)\n"
                    f"{ind}| (data, {OUT}.ret _) =>\n{ind}  {k(ind + '  ')}")
        if isinstance(st, ast.While):
            if st.orelse or len(st.body) != 1 or self._state_partial(st.body[0]) != "Rbacx.PyM.odPopFirst data":
                raise Unsupported("while loop: only `while <test>: self.<dict>.popitem(last=False)`")
            return (f"match Rbacx.PyM.whilePopFirst (fun (data : Rbacx.PyM.OrdDict) => ({self.E(st.test)}).truthy) (Rbacx.PyM.fuel data) data with\n"
                    f"{ind}| (data, some exc) => (data, {OUT}.raised exc)\n{ind}| (data, none) =>\n{ind}  {k(ind + '  ')}")
        if isinstance(st, ast.For):
            if st.orelse:
                raise Unsupported("for/else")
            is_items, pfx = self.items_iter(st.iter)
            if is_items:
                tg = st.target
                if not (isinstance(tg, ast.Tuple) and len(tg.elts) == 2 and all(isinstance(x, ast.Name) for x in tg.elts)
                        and tg.elts[0].id != tg.elts[1].id):
                    raise Unsupported("a loop over the dict's items must have the form `for k, v in …`")
                acc = self.loop_acc(st)
                if acc in (tg.elts[0].id, tg.elts[1].id):
                    raise Unsupported("loop target used as accumulator")
                body = self.appends(st.body, acc)
                self.slices.append({"method": self.cur_fn.name, "prefix": pfx})
                pre = "none" if pfx is None else f"(some {pfx})"
                return (f"let {ident(acc)} := Rbacx.Py.concat {ident(acc)} (Rbacx.PyM.collectItems (Rbacx.PyM.odItems data {pre}) "
                        f"fun ({ident(tg.elts[0].id)} : PyVal) ({ident(tg.elts[1].id)} : PyVal) => {body})\n{ind}{k()}")
            if isinstance(st.target, ast.Name) and len(st.body) == 1:
                upd = None
                if isinstance(st.body[0], ast.Expr) and self.state_op(st.body[0].value) == "pop":
                    upd = self._state_update(st.body[0])
                if upd is not None:
                    return (f"let data := (Rbacx.Py.iter {self.E(st.iter)}).foldl (fun (data : Rbacx.PyM.OrdDict) ({ident(st.target.id)} : PyVal) => "
                            f"{upd}) data\n{ind}{k()}")
            for n in ast.walk(st):
                if self.state_op(n) is not None or self.is_state(n):
                    raise Unsupported(f"for loop that uses the dict: {ast.unparse(st)[:60]}")
        return super().S(stmts, ind, tail, ret)

    # ------------------------------------------------------------------ a method
    def _sites(self, fn: ast.FunctionDef) -> list[dict]:
        """clock call sites of the method in source order, helper calls expanded; assigns parameter names"""
        looped: set[int] = set()
        for n in ast.walk(fn):
            if isinstance(n, (ast.For, ast.While, ast.ListComp, ast.SetComp, ast.DictComp, ast.GeneratorExp)):
                for m in ast.walk(n):
                    if m is not n:
                        looped.add(id(m))
        nodes = [n for n in ast.walk(fn) if _is_clock_call(n) or self.helper_call(n) is not None]
        nodes.sort(key=lambda n: (n.lineno, n.col_offset))
        sites: list[dict] = []
        for n in nodes:
            if _is_clock_call(n):
                if id(n) in looped:
                    raise Unsupported(f"{fn.name}: time.monotonic() inside a loop (line {n.lineno})")
                name = f"now{len(sites) + 1}"
                self.site_name[id(n)] = name
                sites.append({"param": name, "line": n.lineno, "in": fn.name})
            else:
                h = self.helper_call(n)
                if h not in self.done:
                    raise Unsupported(f"{fn.name}: call of {h}, which is not translated (yet)")
                hs = self.done[h]["sites"]
                if hs and id(n) in looped:
                    raise Unsupported(f"{fn.name}: a helper that reads the clock is called inside a loop (line {n.lineno})")
                names = []
                for s in hs:
                    name = f"now{len(sites) + 1}"
                    names.append(name)
                    sites.append({"param": name, "line": s["line"], "in": s["in"]})
                self.helper_sites[id(n)] = names
        return sites

    def method(self, name: str) -> str:
        fn = self.methods.get(name)
        if fn is None:
            raise Unsupported(f"method {name} not found in class {self.cls.name}")
        a = fn.args
        if a.vararg or a.kwarg or a.posonlyargs or a.kwonlyargs or not a.args or a.args[0].arg != "self" or fn.decorator_list:
            raise Unsupported(f"signature of {name}")
        params = [x.arg for x in a.args[1:]]
        defaults = dict(zip(reversed(params), reversed(a.defaults)))
        for p, d in defaults.items():
            if not isinstance(d, ast.Constant):
                raise Unsupported(f"default of parameter {p}")
        stored = {n.id for n in ast.walk(fn) if isinstance(n, ast.Name) and isinstance(n.ctx, ast.Store)}
        self.locals = set(params) | stored
        self.cur_fn = fn
        sites = self._sites(fn)
        taken = RESERVED | {ident(f) for f in self.config} | {s["param"] for s in sites}
        names = sorted(self.locals)
        if any(ident(v) in taken for v in names) or len({ident(v) for v in names}) != len(names) \
                or any(ident(v).startswith(self.prefix) for v in names):
            raise Unsupported(f"{name}: a local variable clashes with a name the translation uses ({sorted(taken)})")
        # a `for` target must not be read outside the loops that bind it (Python would see the last value, the translation would not)
        targets: dict[str, set[int]] = {}
        for n in ast.walk(fn):
            if isinstance(n, ast.For):
                inside = {id(m) for m in ast.walk(n)}
                for t in ast.walk(n.target):
                    if isinstance(t, ast.Name):
                        targets.setdefault(t.id, set()).update(inside)
        for n in ast.walk(fn):
            if isinstance(n, ast.Name) and isinstance(n.ctx, ast.Load) and n.id in targets and id(n) not in targets[n.id]:
                raise Unsupported(f"{name}: loop variable {n.id} is read outside its loop")
        body = self.S(list(fn.body), "  ")
        self.done[name] = {"sites": sites, "params": params}
        notes = [f"method `{name}` of `{self.cls.name}`, state-passing: `data` is `self.{self.state}` before / after the call, "
                 f"`with self.{self.lock}:` is transparent"]
        if sites:
            notes.append("clock readings are passed in call-site order: " + ", ".join(
                f"`{s['param']}` = `time.monotonic()` at line {s['line']}" + (f" (in `{s['in']}`)" if s["in"] != name else "") for s in sites))
        if defaults:
            notes.append("defaults (callers pass every argument): " + ", ".join(f"`{p}={defaults[p].value!r}`" for p in params if p in defaults))
        sig = " ".join([f"({ident(f)} : Int)" for f in self.config] + [f"({s['param']} : Int)" for s in sites]
                       + ["(data : Rbacx.PyM.OrdDict)"] + [f"({ident(p)} : PyVal)" for p in params])
        doc = "/-- " + "; ".join(notes).replace("-/", "- /") + " -/\n"
        return f"{doc}def {self.lean_name(name)} {sig} : Rbacx.PyM.OrdDict × {OUT} :=\n  {body}\n"


def translate_class(source: str, class_name: str, state: str, lock: str, methods: list[str], prefix: str) -> dict:
    """{"defs": {method: Lean text} (callees first, as given), "sites": {method: [...]}, "params": {method: [...]}, "config": [...],
    "slices": [...], "dataclasses": {...}}"""
    tree = ast.parse(source)
    cls = next((n for n in tree.body if isinstance(n, ast.ClassDef) and n.name == class_name), None)
    if cls is None:
        raise Unsupported(f"class {class_name} not found")
    tr = MethodTranslator(tree, cls, state, lock, prefix)
    defs = {m: tr.method(m) for m in methods}
    return {"defs": defs, "sites": {m: tr.done[m]["sites"] for m in methods}, "params": {m: tr.done[m]["params"] for m in methods},
            "config": tr.config, "slices": tr.slices, "dataclasses": tr.dataclasses}


if __name__ == "__main__":
    import sys
    src = open(sys.argv[1], encoding="utf-8").read()
    out = translate_class(src, "DefaultInMemoryCache", "_data", "_lock", ["_purge_expired_unlocked", "get", "set", "delete", "clear"], "cache_")
    for v in out["defs"].values():
        print(v)
    print({k: v for k, v in out.items() if k != "defs"})
