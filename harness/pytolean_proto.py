"""PROTOCOLS of a method with its collaborators → Lean: statement ranges / whole methods in which SYNC externals can raise in the MIDDLE of a
multi-statement `try`, with `try/finally`, `self.<attr>` assignments and an ordered list of effects (on top of harness/pytolean_async.py and
harness/pytolean.py, neither changed).

Made for the decision-cache protocol of `Guard` (core/engine.py; C08, C09): the range of `Guard._evaluate_core_async` between the env
construction and the obligation gate (`raw = None … if raw is None: … cache.set(…)`), `Guard._cache_key` / `_normalize_env_for_cache`, and
`Guard.set_policy` with the methods it calls (`_recompute_etag`, `clear_cache`).

WHAT A TRANSLATION IS.  Three kinds (`translate(source, Target(...), cfg)`):

* `pure`   — a whole method that has no effects and lets no exception escape: a Lean function to `PyVal` (the returned value).
* `range`  — a statement range of a method (designated like pytolean_async's, or `after:<prefix>` / `before:<prefix>` = the top-level
             statement after / before the ONE that starts with the prefix): a function to `Rbacx.PyP.Res` = (`out`, `trace`): `out = some v`
             — the range ran off its end, `v` = the value of its one output variable (the list of several), outputs = the variables it
             assigns that the method mentions elsewhere —, `out = none` — an exception escaped the range; `trace` = the EFFECTS in program
             order up to that point.
* `method` — a whole method that assigns attributes of `self`: a STATE TRANSFORMER, function to `Rbacx.PyP.Res` whose `out` is the list of
             the FINAL values of the attributes the method (with the methods spliced into it) assigns, in order of first assignment in the
             source; every such attribute is also an input (its value before the call).

Parameters of the Lean definition, always in this order (so that a harmless reordering of statements does not permute them): `o` (the
`str()` oracle), the PATTERN externals and the designated EXTERNALS — all that the target's configuration lists, an unused one named
`_…` —, the `self.<attr>` inputs the configuration declares (`Target.attrs`; unused: `_…`; reading an undeclared one is `Unsupported`),
then the plain variables read before the range binds them, in order of first read.

READINGS (all syntax-directed; anything outside them raises `Unsupported`):

* CONTROL is translated in continuation-passing style over an explicit stack of enclosing blocks (`seq` rest of a block, `try` handler,
  `finally` body, `with` lock): every statement is followed, in the emitted text, by everything that can run after it.  An EXTERNAL CALL
  is a parameter giving the call's OUTCOME (`some v` = returned `v`, `none` = raised something `except Exception` catches) and the emitted
  text is a `match` on it AT THE POINT OF THE CALL: the `some` branch goes on with the next statement, the `none` branch UNWINDS the stack —
  runs the `finally` bodies and lock releases on the way, enters the nearest `except Exception:` handler, goes on after that `try`;
  with no handler left the result is `out = none`.  Because the handler's text is emitted inside the scope of the `let`s made before the
  raising point, a variable keeps exactly what it had been assigned when the exception was raised (`key` keeps its value when
  `cache.get(key)` raises; a variable the raising statement would have bound stays what it was).  This is the reading
  pytolean_async lacked (there the external call had to be the FIRST statement of the try body).
* accepted statements: `x = e`, `x: T = e`, `x: T`, `self.a = e`, `self.a += <int literal>`, `if`, `try … except Exception: …` (one
  handler, no `as`, no `else`; optional `finally`), `try … finally`, `with self.<lock>:`, `return e`, `pass`, docstrings,
  `logger.<m>(…)` (no effect on any value: left out), an external call as a statement, `self.<m>()` of a SPLICED method (its body is
  translated in place, a local that clashes with one of the caller's renamed `<m>__<local>`; it may not `return`).
* an expression OUTSIDE an external call must be one that cannot raise on JSON-shaped values — names, constants, `self.<attr>`,
  `getattr(self, "a", d)` (the attribute is set in `__init__`: the input `self_a`), `x is [not] None`, `not`, `bool()`, `==` / `!=`, `{}`,
  f-strings (`strO`), `repr(x)` (a total oracle function `repr_of`), calls `self.<m>(args)` of a translated `pure` method (its Lean
  definition applied to the caller's oracle/pattern parameters, the `self.<attr>` inputs it reads and the arguments) — so that the ONLY
  raising points are the external calls.  An external call may stand as the whole right-hand side of an assignment, as an expression
  statement or as the operand of `return`; its arguments are such expressions; keyword arguments only as declared (`Ext.kw`), passed
  after the positional ones.
* EFFECTS: a call of an external that has a label (`Ext.effect`, e.g. `cache.get`) appends `Eff.call label [args…]` to the trace BEFORE the
  case split on its outcome (the call happened even when it raised).  With `Target.trace_locks`, `with self.<lock>:` appends
  `Eff.acq lock` on entry and `Eff.rel lock` on EVERY exit (normal, exception, return); without, the lock block is transparent (the
  sequential reading).  Reads / writes of the attributes listed in `Target.trace_attrs` append `Eff.rd a` / `Eff.wr a v` (reads of a
  statement's expressions first, in evaluation order).
* `self.<attr>` listed in `Target.occurrence_attrs`: every textual READ of it in the range is an input of its own, `self_<attr>_<n>`
  numbered in source order (the attribute is shared with other threads: two reads may see different values — `_policy_gen` at the
  start of an evaluation and at store time).
* `T = <ContextVar>.set(e)` / `<ContextVar>.reset(T)` for the module-level names in `cfg.context_vars`: left out — they do not raise
  (the token is the one `set` has just returned, in the same context) and no value of the range depends on them; `T` may be used for
  nothing else.  Together with the CPS reading `try: raw = await self._decide_async(env) finally: <resets>` is: the outcome of the
  awaited call, the resets on both exits, then on / out.
* a test `X is [not] None` on a module-level name listed in `cfg.presence` (an optional import) is the Bool parameter given there.
* an `if` whose test text was already decided on this path, and none of whose variables was assigned since, is resolved statically
  (only that branch is emitted): `if cache is not None:` twice — this is what makes `gen` definitely bound where it is read.
* PATTERN externals — library calls whose text must be EXACTLY this (any other keyword set / value raises `Unsupported`):
    `json.dumps(X, sort_keys=True, separators=(",", ":"), default=str, ensure_ascii=False)` → `Rbacx.PyP.dumpsCanon dumps_other X`
        = the model's `canonJson X` on float-free values, the oracle parameter `dumps_other X` (`none` = raised) elsewhere;
    `json.dumps(X, sort_keys=True).encode("utf-8")` → `dumps_sorted_utf8 X` (bytes read as the text they decode to);
    `hashlib.sha3_256(X).hexdigest()` → `sha3_256_hex X`;   both plain outcome parameters.

`as_python` builds the SAME statements as a real function from the source text for the comparison with CPython."""
from __future__ import annotations

import ast
import copy

import pytolean
import pytolean_async as pa
from pytolean import Unsupported, ident, lean_str

TRACE = "tr"


class Ext:
    def __init__(self, param: str, arity: int, effect: str | None = None, kw: tuple = ()):
        self.param, self.arity, self.effect, self.kw = param, arity, effect, tuple(kw)


class MethodRef:
    """a translated `pure` method callable as `self.<m>(args)`"""

    def __init__(self, lean_name: str, lead: list[str], attrs: list[str], nargs: int):
        self.lean_name, self.lead, self.attrs, self.nargs = lean_name, list(lead), list(attrs), nargs


class Cfg:
    def __init__(self, externals: dict[str, Ext] | None = None, patterns: tuple = (), methods: dict[str, MethodRef] | None = None,
                 context_vars: tuple = (), presence: dict[str, str] | None = None, silent: tuple = ("logger",), oracle: bool = True,
                 use_repr: bool = False):
        self.externals = dict(externals or {})
        self.patterns = tuple(patterns)
        self.methods = dict(methods or {})
        self.context_vars = tuple(context_vars)
        self.presence = dict(presence or {})
        self.silent = tuple(silent)
        self.oracle = oracle
        self.use_repr = use_repr


class Target:
    def __init__(self, kind: str, designator: str, lean_name: str, attrs: tuple = (), start: str | None = None, last: str | None = None,
                 splice: tuple = (), trace_locks: bool = False, trace_attrs: tuple = (), occurrence_attrs: tuple = ()):
        assert kind in ("pure", "range", "method")
        self.kind, self.designator, self.lean_name = kind, designator, lean_name
        self.attrs = tuple(attrs)                    # declared `self.<attr>` inputs, in parameter order (`a#n` = the n-th read of `a`)
        self.start, self.last = start, last
        self.splice = tuple(splice)                  # methods of the same class whose `self.<m>()` statement calls are translated in place
        self.trace_locks, self.trace_attrs, self.occurrence_attrs = trace_locks, tuple(trace_attrs), tuple(occurrence_attrs)


# pattern externals: name → (parameter, Lean type of the parameter, builder of the application from the translated argument)
PATTERNS = {
    "json_dumps_canon": ("dumps_other", "PyVal → Option PyVal", lambda p, x: f"(Rbacx.PyP.dumpsCanon {p} {x})"),
    "json_dumps_sorted_utf8": ("dumps_sorted_utf8", "PyVal → Option PyVal", lambda p, x: f"({p} {x})"),
    "sha3_256_hexdigest": ("sha3_256_hex", "PyVal → Option PyVal", lambda p, x: f"({p} {x})"),
}
REPR_PARAM = ("repr_of", "PyVal → PyVal")


def _const(e, v) -> bool:
    return isinstance(e, ast.Constant) and type(e.value) is type(v) and e.value == v


def _kw(call: ast.Call) -> dict | None:
    out = {}
    for k in call.keywords:
        if k.arg is None or k.arg in out:
            return None
        out[k.arg] = k.value
    return out


def match_pattern(e: ast.AST) -> tuple[str, ast.expr] | None:
    """(pattern name, the argument) — `Unsupported` for a `json.dumps` / `hashlib` call that is none of the exact texts"""
    def is_mod_call(c, mod, fn):
        return isinstance(c, ast.Call) and isinstance(c.func, ast.Attribute) and c.func.attr == fn and isinstance(c.func.value, ast.Name) \
            and c.func.value.id == mod
    if is_mod_call(e, "json", "dumps"):
        kw = _kw(e)
        if len(e.args) == 1 and kw is not None and set(kw) == {"sort_keys", "separators", "default", "ensure_ascii"} \
                and _const(kw["sort_keys"], True) and _const(kw["ensure_ascii"], False) \
                and isinstance(kw["default"], ast.Name) and kw["default"].id == "str" \
                and isinstance(kw["separators"], ast.Tuple) and len(kw["separators"].elts) == 2 \
                and _const(kw["separators"].elts[0], ",") and _const(kw["separators"].elts[1], ":"):
            return "json_dumps_canon", e.args[0]
        raise Unsupported(f"{ast.unparse(e)[:120]}: json.dumps is given meaning only as `json.dumps(X, sort_keys=True, separators=(',', ':'), "
                          f"default=str, ensure_ascii=False)` (the model's canonJson) or `json.dumps(X, sort_keys=True).encode('utf-8')`")
    if isinstance(e, ast.Call) and isinstance(e.func, ast.Attribute) and e.func.attr == "encode" and is_mod_call(e.func.value, "json", "dumps"):
        inner = e.func.value
        kw = _kw(inner)
        if len(e.args) == 1 and not e.keywords and _const(e.args[0], "utf-8") and len(inner.args) == 1 and kw is not None \
                and set(kw) == {"sort_keys"} and _const(kw["sort_keys"], True):
            return "json_dumps_sorted_utf8", inner.args[0]
        raise Unsupported(f"{ast.unparse(e)[:120]}: only `json.dumps(X, sort_keys=True).encode('utf-8')`")
    if isinstance(e, ast.Call) and isinstance(e.func, ast.Attribute) and e.func.attr == "hexdigest" and isinstance(e.func.value, ast.Call) \
            and isinstance(e.func.value.func, ast.Attribute) and isinstance(e.func.value.func.value, ast.Name) \
            and e.func.value.func.value.id == "hashlib":
        inner = e.func.value
        if inner.func.attr == "sha3_256" and len(inner.args) == 1 and not inner.keywords and not e.args and not e.keywords:
            return "sha3_256_hexdigest", inner.args[0]
        raise Unsupported(f"{ast.unparse(e)[:120]}: only `hashlib.sha3_256(X).hexdigest()`")
    for n in ast.walk(e):
        if isinstance(n, ast.Name) and n.id in ("json", "hashlib"):
            raise Unsupported(f"{ast.unparse(e)[:120]}: use of {n.id} outside the exact patterns")
    return None


def find_method(tree: ast.Module, designator: str):
    cls, name = designator.split(".", 1)
    hits = [n for n in tree.body if isinstance(n, ast.ClassDef) and n.name == cls]
    if len(hits) != 1:
        raise Unsupported(f"class {cls} not found")
    fns = [n for n in hits[0].body if isinstance(n, (ast.FunctionDef, ast.AsyncFunctionDef)) and n.name == name]
    if len(fns) != 1:
        raise Unsupported(f"method {designator} not found")
    fn = fns[0]
    static = any(isinstance(d, ast.Name) and d.id == "staticmethod" for d in fn.decorator_list)
    a = fn.args
    if a.vararg or a.kwarg or a.kwonlyargs or a.posonlyargs or a.defaults or (not static and (not a.args or a.args[0].arg != "self")):
        raise Unsupported(f"signature of {designator}")
    return fn, static


def statement_range(fn, start: str, last: str) -> tuple[int, int]:
    def index(spec: str) -> int:
        mode, _, prefix = spec.partition(":") if spec.startswith(("after:", "before:")) else ("at", "", spec)
        hits = [i for i, st in enumerate(fn.body) if ast.unparse(st).startswith(prefix)]
        if len(hits) != 1:
            raise Unsupported(f"{fn.name}: {len(hits)} top-level statements start with {prefix!r} (need exactly one)")
        return hits[0] + {"at": 0, "after": 1, "before": -1}[mode]
    a, b = index(start), index(last)
    if not (0 <= a <= b < len(fn.body)):
        raise Unsupported(f"{fn.name}: empty or inverted range {start!r} … {last!r}")
    return a, b


class _Rename(ast.NodeTransformer):
    def __init__(self, mapping: dict[str, str]):
        self.mapping = mapping

    def visit_Name(self, node: ast.Name):
        if node.id in self.mapping:
            return ast.copy_location(ast.Name(self.mapping[node.id], node.ctx), node)
        return node


def _stored_names(nodes) -> list[str]:
    out = []
    for st in nodes:
        for n in ast.walk(st):
            if isinstance(n, ast.Name) and isinstance(n.ctx, ast.Store) and n.id not in out:
                out.append(n.id)
    return out


class Cx:
    """what is known on the path being emitted"""

    def __init__(self, bound=frozenset(), tokens=frozenset(), decided=(), ind="  "):
        self.bound, self.tokens, self.decided, self.ind = bound, tokens, tuple(decided), ind

    def bind(self, name: str) -> "Cx":
        # an assignment invalidates the decided tests that read the variable
        kept = tuple((t, b, vs) for t, b, vs in self.decided if name not in vs)
        return Cx(self.bound | {name}, self.tokens - {name}, kept, self.ind)

    def token(self, name: str) -> "Cx":
        c = self.bind(name)
        return Cx(c.bound - {name}, c.tokens | {name}, c.decided, c.ind)

    def decide(self, text: str, value: bool, reads: frozenset) -> "Cx":
        return Cx(self.bound, self.tokens, self.decided + ((text, value, reads),), self.ind)

    def deeper(self, n: int = 2) -> "Cx":
        return Cx(self.bound, self.tokens, self.decided, self.ind + " " * n)

    def known(self, text: str) -> bool | None:
        for t, b, _ in self.decided:
            if t == text:
                return b
        return None


class ProtoTranslator(pa.AsyncTranslator):
    def __init__(self, tree: ast.Module, cfg: Cfg, target: Target, fn, static: bool, spliced: dict):
        super().__init__(tree, pa.Cfg({}), set(), oracle=cfg.oracle)
        self.pcfg, self.target, self.fn, self.static, self.spliced = cfg, target, fn, static, spliced
        self.cur_oracle = cfg.oracle
        self.used: set[str] = set()            # lead parameters actually used
        self.attr_reads: list[str] = []        # declared attribute inputs actually read
        self.plain_inputs: list[str] = []
        self.before: set[str] = set()          # names that have a value when the range starts
        self.occ: dict[int, int] = {}          # id(Attribute node) → occurrence number
        self.cx: Cx = Cx()
        self.out_attrs: list[str] = []
        self.outputs: list[str] = []

    # ------------------------------------------------------------------ names
    def attr_var(self, attr: str, node: ast.AST | None = None) -> str:
        base = "self_" + ident(attr)
        if attr in self.target.occurrence_attrs and node is not None:
            return f"{base}_{self.occ[id(node)]}"
        return base

    def declared(self, attr: str, node: ast.AST | None) -> str:
        key = attr + (f"#{self.occ[id(node)]}" if attr in self.target.occurrence_attrs and node is not None else "")
        if key not in self.target.attrs and attr not in self.out_attrs:
            raise Unsupported(f"read of self.{key}, which the configuration of {self.target.lean_name} does not declare as an input")
        if key not in self.attr_reads:
            self.attr_reads.append(key)
        return key

    # ------------------------------------------------------------------ expressions that cannot raise
    def total(self, e: ast.expr) -> bool:
        if isinstance(e, ast.Constant):
            return True
        if isinstance(e, ast.Name):
            return e.id != "self"
        if pa._is_self_attr(e):
            return True
        if isinstance(e, ast.Dict):
            return not e.keys
        if isinstance(e, (ast.Tuple, ast.List)):
            return all(self.total(x) for x in e.elts)
        if isinstance(e, ast.UnaryOp) and isinstance(e.op, ast.Not):
            return self.total(e.operand)
        if isinstance(e, ast.BoolOp):
            return all(self.total(x) for x in e.values)
        if isinstance(e, ast.Compare) and len(e.ops) == 1 and isinstance(e.ops[0], (ast.Is, ast.IsNot, ast.Eq, ast.NotEq)):
            return self.total(e.left) and self.total(e.comparators[0])
        if isinstance(e, ast.JoinedStr):
            return all(isinstance(p, ast.Constant) or (isinstance(p, ast.FormattedValue) and p.conversion == -1 and p.format_spec is None
                                                         and self.total(p.value)) for p in e.values)
        if isinstance(e, ast.Call) and not any(isinstance(a, ast.Starred) for a in e.args):
            f = e.func
            if isinstance(f, ast.Name) and f.id in ("bool", "repr") and len(e.args) == 1 and not e.keywords:
                return self.total(e.args[0])
            if isinstance(f, ast.Name) and f.id == "getattr" and len(e.args) == 3 and not e.keywords and isinstance(e.args[0], ast.Name) \
                    and e.args[0].id == "self" and isinstance(e.args[1], ast.Constant) and isinstance(e.args[1].value, str):
                return self.total(e.args[2])
            if pa._is_self_attr(f) and f.attr in self.pcfg.methods and not e.keywords and len(e.args) == self.pcfg.methods[f.attr].nargs:
                return all(self.total(a) for a in e.args)
        return False

    def reads_of(self, e: ast.AST) -> list[str]:
        """plain variables read by an expression (not `self`, not callees, not module-level names)"""
        out = []
        for n in ast.walk(e):
            if isinstance(n, ast.Name) and isinstance(n.ctx, ast.Load) and n.id in self.locals and n.id not in out:
                out.append(n.id)
        return out

    def attr_read_nodes(self, e: ast.AST) -> list[ast.Attribute]:
        out = []

        def walk(n):
            if pa._is_self_attr(n) and isinstance(n.ctx, ast.Load):
                par = getattr(n, "_callee", False)
                if not par:
                    out.append(n)
                return
            if isinstance(n, ast.Call) and pa._is_self_attr(n.func):
                for a in n.args:
                    walk(a)
                return
            for c in ast.iter_child_nodes(n):
                walk(c)
        walk(e)
        return out

    def check_reads(self, e: ast.AST) -> None:
        for v in self.reads_of(e):
            if v in self.cx.tokens:
                raise Unsupported(f"{v} holds a ContextVar token and is used as a value in {ast.unparse(e)[:60]}")
            if v not in self.cx.bound:
                if v not in self.before:
                    raise Unsupported(f"{v} may be read before it is bound ({ast.unparse(e)[:60]})")
                if v not in self.plain_inputs:
                    self.plain_inputs.append(v)

    def P(self, e: ast.expr) -> str:
        """a total expression → Lean"""
        if not self.total(e):
            raise Unsupported(f"expression that could raise outside an external call (or is outside the subset): {ast.unparse(e)[:80]}")
        self.check_reads(e)
        return self.E(e)

    def E(self, e: ast.expr) -> str:
        if pa._is_self_attr(e) and isinstance(e.ctx, ast.Load):
            self.declared(e.attr, e)
            return self.attr_var(e.attr, e)
        if isinstance(e, ast.Call) and isinstance(e.func, ast.Name) and e.func.id == "getattr" and len(e.args) == 3 \
                and isinstance(e.args[0], ast.Name) and e.args[0].id == "self" and isinstance(e.args[1], ast.Constant):
            self.declared(e.args[1].value, None)
            return self.attr_var(e.args[1].value)
        if isinstance(e, ast.Call) and isinstance(e.func, ast.Name) and e.func.id == "repr" and e.func.id not in self.locals:
            self.used.add(REPR_PARAM[0])
            return f"({REPR_PARAM[0]} {self.E(e.args[0])})"
        if isinstance(e, ast.Call) and pa._is_self_attr(e.func) and e.func.attr in self.pcfg.methods:
            m = self.pcfg.methods[e.func.attr]
            for p in m.lead:
                self.used.add(p)
            for a in m.attrs:
                self.declared(a, None)
            return "(" + " ".join([m.lean_name] + m.lead + [self.attr_var(a) for a in m.attrs] + [self.E(a) for a in e.args]) + ")"
        if isinstance(e, ast.JoinedStr) or (isinstance(e, ast.Call) and isinstance(e.func, ast.Name) and e.func.id == "str"):
            self.used.add("o")
        return super().E(e)

    # ------------------------------------------------------------------ external calls
    def external(self, e: ast.AST) -> tuple[str, str | None, list[str]] | None:
        """(Lean application : Option PyVal, effect label, translated arguments) when `e` is an external call"""
        inner = e
        if isinstance(inner, ast.Await):
            inner = inner.value
            if isinstance(inner, ast.Call) and isinstance(inner.func, ast.Name) and inner.func.id == "maybe_await" and len(inner.args) == 1 \
                    and not inner.keywords:
                inner = inner.args[0]
        pat = match_pattern(inner) if not isinstance(e, ast.Await) else None
        if pat is not None:
            name, arg = pat
            if name not in self.pcfg.patterns:
                raise Unsupported(f"pattern external {name} is not enabled for {self.target.lean_name}")
            param, _, build = PATTERNS[name]
            self.used.add(param)
            return build(param, self.P(arg)), None, []
        if isinstance(inner, ast.Call) and ast.unparse(inner.func) in self.pcfg.externals:
            x = self.pcfg.externals[ast.unparse(inner.func)]
            if any(isinstance(a, ast.Starred) for a in inner.args) or [k.arg for k in inner.keywords] != list(x.kw) \
                    or len(inner.args) + len(x.kw) != x.arity:
                raise Unsupported(f"external call {ast.unparse(inner)[:80]}: expected {x.arity - len(x.kw)} positional argument(s) and the keywords {list(x.kw)}")
            args = [self.P(a) for a in inner.args] + [self.P(k.value) for k in inner.keywords]
            self.used.add(x.param)
            return ("(" + " ".join([x.param] + args) + ")" if args else x.param), x.effect, args
        if isinstance(e, ast.Await):
            raise Unsupported(f"await of something that is not a designated external: {ast.unparse(e)[:60]}")
        return None

    # ------------------------------------------------------------------ trace
    def tr_append(self, item: str) -> str:
        return f"let {TRACE} := {TRACE} ++ [{item}]\n{self.cx.ind}"

    def tr_reads(self, e: ast.AST | None) -> str:
        if e is None or not self.target.trace_attrs:
            return ""
        return "".join(self.tr_append(f"Rbacx.PyP.Eff.rd {lean_str(n.attr)}") for n in self.attr_read_nodes(e)
                       if n.attr in self.target.trace_attrs)

    # ------------------------------------------------------------------ control
    def result(self, out: str | None) -> str:
        if self.target.kind == "pure":
            if out is None:
                raise Unsupported("an exception could escape a `pure` method")
            return out
        return f"⟨{'Option.some ' + out if out is not None else 'Option.none'}, {TRACE}⟩"

    def finish_normal(self) -> str:
        if self.target.kind == "range":
            for v in self.outputs:
                if v not in self.cx.bound and v not in self.before:
                    raise Unsupported(f"output {v} is not bound on every path")
                if v not in self.cx.bound and v not in self.plain_inputs:
                    self.plain_inputs.append(v)
            vals = [ident(v) for v in self.outputs]
        elif self.target.kind == "method":
            vals = [self.attr_var(a) for a in self.out_attrs]
        else:
            return self.result("PyVal.none")        # a function that runs off its end returns None
        return self.result(vals[0] if len(vals) == 1 and self.target.kind == "range" else "(PyVal.list [" + ", ".join(vals) + "])")

    def with_cx(self, cx: Cx, f):
        saved, self.cx = self.cx, cx
        try:
            return f()
        finally:
            self.cx = saved

    def normal(self, stack: list) -> str:
        while stack:
            fr, rest = stack[0], stack[1:]
            if fr[0] == "seq":
                if not fr[1]:
                    stack = rest
                    continue
                return self.stmt(fr[1][0], [("seq", fr[1][1:])] + rest)
            if fr[0] == "try":
                stack = rest
            elif fr[0] == "finally":
                stack = [("seq", fr[1])] + rest
            elif fr[0] == "with":
                return self.release(fr[1]) + self.normal(rest)
            elif fr[0] == "reraise":
                return self.raised(rest)
            elif fr[0] == "returning":
                return self.returning(fr[1], rest)
            else:
                raise AssertionError(fr)
        return self.finish_normal()

    def raised(self, stack: list) -> str:
        while stack:
            fr, rest = stack[0], stack[1:]
            if fr[0] == "try":
                return self.normal([("seq", fr[1])] + rest)
            if fr[0] == "finally":
                return self.normal([("seq", fr[1]), ("reraise",)] + rest)
            if fr[0] == "with":
                return self.release(fr[1]) + self.raised(rest)
            stack = rest              # seq / a pending return or re-raise: replaced by this exception
        return self.result(None)

    def returning(self, v: str, stack: list) -> str:
        while stack:
            fr, rest = stack[0], stack[1:]
            if fr[0] == "finally":
                return self.normal([("seq", fr[1]), ("returning", v)] + rest)
            if fr[0] == "with":
                return self.release(fr[1]) + self.returning(v, rest)
            stack = rest
        if self.target.kind == "range":
            raise Unsupported("return inside a range")
        return self.result(v)

    def release(self, lock: str) -> str:
        return self.tr_append(f"Rbacx.PyP.Eff.rel {lean_str(lock)}") if self.target.trace_locks else ""

    def on_outcome(self, app: str, effect: str | None, args: list[str], bind: str | None, stack: list, after=None) -> str:
        """the case split on an external call's outcome; `bind`: the Lean pattern variable for the returned value"""
        pre = self.tr_append(f"Rbacx.PyP.Eff.call {lean_str(effect)} [{', '.join(args)}]") if effect else ""
        ind = self.cx.ind
        inner = self.cx.deeper(4)
        ok = self.with_cx(inner, (lambda: after(stack)) if after else (lambda: self.normal(stack)))
        bad = self.with_cx(inner, lambda: self.raised(stack))
        return (f"{pre}(match {app} with\n{ind}  | Option.some {bind or '_'} =>\n{ind}    {ok}\n{ind}  | Option.none =>\n{ind}    {bad})")

    def note(self, text: str) -> None:
        if text not in self.notes:
            self.notes.append(text)

    def stmt(self, st: ast.stmt, stack: list) -> str:
        ind = self.cx.ind
        if isinstance(st, ast.Pass) or (isinstance(st, ast.Expr) and isinstance(st.value, ast.Constant)):
            return self.normal(stack)
        if pa.is_silent(st, pa.Cfg({}, silent=self.pcfg.silent), self.locals):
            self.note(f"`{st.value.func.value.id}.<method>(…)` statements (logging) have no effect on any value and are left out")
            return self.normal(stack)
        if isinstance(st, ast.AnnAssign) and st.value is None and isinstance(st.target, ast.Name):
            return self.normal(stack)
        # ---- ContextVar set / reset
        cv = self.context_var_stmt(st)
        if cv is not None:
            kind, token = cv
            self.note("`T = <ContextVar>.set(…)` / `<ContextVar>.reset(T)` are left out: they do not raise and no value depends on them")
            if kind == "set" and token is not None:
                return self.with_cx(self.cx.token(token), lambda: self.normal(stack))
            return self.normal(stack)
        if isinstance(st, (ast.Assign, ast.AnnAssign)):
            tgt = st.targets[0] if isinstance(st, ast.Assign) else st.target
            if isinstance(st, ast.Assign) and len(st.targets) != 1:
                raise Unsupported(f"assignment {ast.unparse(st)[:60]}")
            if isinstance(tgt, ast.Name):
                name, var, attr = tgt.id, ident(tgt.id), None
            elif pa._is_self_attr(tgt) and self.target.kind == "method":
                name, var, attr = None, self.attr_var(tgt.attr), tgt.attr
            else:
                raise Unsupported(f"assignment target {ast.unparse(tgt)[:60]}")
            ext = self.external(st.value)
            wr = (lambda: self.tr_append(f"Rbacx.PyP.Eff.wr {lean_str(attr)} {var}")) if attr in self.target.trace_attrs and attr else (lambda: "")
            nxt = (lambda c: c.bind(name)) if name else (lambda c: c)
            if ext is not None:
                app, effect, args = ext
                pre = self.tr_reads(st.value)

                def after(stk):
                    return self.with_cx(nxt(self.cx), lambda: wr() + self.normal(stk))
                return pre + self.on_outcome(app, effect, args, var, stack, after)
            pre = self.tr_reads(st.value)
            val = self.P(st.value)
            return pre + f"let {var} := {val}\n{ind}" + self.with_cx(nxt(self.cx), lambda: wr() + self.normal(stack))
        if isinstance(st, ast.AugAssign):
            if not (pa._is_self_attr(st.target) and self.target.kind == "method" and isinstance(st.op, ast.Add) and isinstance(st.value, ast.Constant)
                    and type(st.value.value) is int):
                raise Unsupported(f"augmented assignment {ast.unparse(st)[:60]} (only `self.<attr> += <int literal>`)")
            a = st.target.attr
            var = self.attr_var(a)
            self.declared(a, None)
            pre = self.tr_append(f"Rbacx.PyP.Eff.rd {lean_str(a)}") if a in self.target.trace_attrs else ""
            post = self.tr_append(f"Rbacx.PyP.Eff.wr {lean_str(a)} {var}") if a in self.target.trace_attrs else ""
            return pre + f"let {var} := Rbacx.PyP.addInt {var} {st.value.value}\n{ind}" + post + self.normal(stack)
        if isinstance(st, ast.Expr):
            v = st.value
            if isinstance(v, ast.Call) and pa._is_self_attr(v.func) and v.func.attr in self.spliced and not v.args and not v.keywords:
                self.note(f"`self.{v.func.attr}()` is translated in place (a local that clashes with the caller's is renamed `{v.func.attr}__<local>`)")
                return self.normal([("seq", self.spliced[v.func.attr])] + stack)
            ext = self.external(v)
            if ext is None:
                raise Unsupported(f"expression statement {ast.unparse(st)[:60]}")
            app, effect, args = ext
            return self.tr_reads(v) + self.on_outcome(app, effect, args, None, stack)
        if isinstance(st, ast.Return):
            if self.target.kind == "range":
                raise Unsupported("return inside a range")
            if st.value is None:
                return self.returning("PyVal.none", stack)
            ext = self.external(st.value)
            if ext is not None:
                app, effect, args = ext
                return self.tr_reads(st.value) + self.on_outcome(app, effect, args, "ret_v", stack, lambda stk: self.returning("ret_v", stk))
            pre = self.tr_reads(st.value)
            val = self.P(st.value)
            if any(fr[0] == "finally" for fr in stack):
                return pre + f"let ret_v := {val}\n{ind}" + self.returning("ret_v", stack)
            return pre + self.returning(val, stack)
        if isinstance(st, ast.If):
            text = ast.unparse(st.test)
            known = self.cx.known(text)
            if known is not None:
                self.note(f"an `if` whose test was already decided on the path (and whose variables were not assigned since) is resolved "
                          f"statically: `{text}`")
                return self.normal([("seq", list(st.body if known else st.orelse))] + stack)
            pre = self.tr_reads(st.test)
            cond = self.test(st.test)
            reads = frozenset(self.reads_of(st.test))
            pure_test = not any(isinstance(n, ast.Call) for n in ast.walk(st.test)) and not self.attr_read_nodes(st.test)
            inner = self.cx.deeper(2)

            def branch(value: bool, body):
                cx = inner.decide(text, value, reads) if pure_test else inner
                return self.with_cx(cx, lambda: self.normal([("seq", list(body))] + stack))
            a, b = branch(True, st.body), branch(False, st.orelse)
            return pre + f"if {cond} then\n{ind}  {a}\n{ind}else\n{ind}  {b}"
        if isinstance(st, ast.With):
            if not (len(st.items) == 1 and st.items[0].optional_vars is None and pa._is_self_attr(st.items[0].context_expr)):
                raise Unsupported(f"with statement {ast.unparse(st)[:60]} (only `with self.<lock>:`)")
            lock = st.items[0].context_expr.attr
            if self.target.trace_locks:
                pre = self.tr_append(f"Rbacx.PyP.Eff.acq {lean_str(lock)}")
            else:
                pre = ""
                self.note("`with self.<lock>:` is transparent (the sequential reading)")
            return pre + self.normal([("seq", list(st.body)), ("with", lock)] + stack)
        if isinstance(st, ast.Try):
            if st.orelse or len(st.handlers) > 1 or (not st.handlers and not st.finalbody):
                raise Unsupported("try statement: only `try … except Exception: …` (one handler, no else), optionally with `finally`, or `try … finally`")
            frames: list = [("seq", list(st.body))]
            if st.handlers:
                h = st.handlers[0]
                if h.name is not None or not (isinstance(h.type, ast.Name) and h.type.id == "Exception"):
                    raise Unsupported("exception handler: only `except Exception:` without `as`")
                frames.append(("try", list(h.body)))
            if st.finalbody:
                frames.append(("finally", list(st.finalbody)))
            return self.normal(frames + stack)
        raise Unsupported(f"statement {ast.unparse(st)[:60]}")

    def test(self, e: ast.expr) -> str:
        if isinstance(e, ast.Compare) and len(e.ops) == 1 and isinstance(e.ops[0], (ast.Is, ast.IsNot)) and isinstance(e.left, ast.Name) \
                and e.left.id in self.pcfg.presence and e.left.id not in self.locals and _const(e.comparators[0], None):
            p = self.pcfg.presence[e.left.id]
            self.used.add(p)
            self.note(f"`{e.left.id} is [not] None` (an optional import) is the Bool parameter `{p}`")
            return p if isinstance(e.ops[0], ast.IsNot) else f"(!{p})"
        return f"({self.P(e)}).truthy"

    def context_var_stmt(self, st: ast.stmt) -> tuple[str, str | None] | None:
        call, token = None, None
        if isinstance(st, ast.Assign) and len(st.targets) == 1 and isinstance(st.targets[0], ast.Name) and isinstance(st.value, ast.Call):
            call, token = st.value, st.targets[0].id
        elif isinstance(st, ast.Expr) and isinstance(st.value, ast.Call):
            call = st.value
        if call is None or not (isinstance(call.func, ast.Attribute) and isinstance(call.func.value, ast.Name)
                                and call.func.value.id in self.pcfg.context_vars and call.func.value.id not in self.locals):
            return None
        if call.func.attr == "set" and len(call.args) == 1 and not call.keywords:
            if not self.total(call.args[0]):
                raise Unsupported(f"argument of {ast.unparse(call)[:60]} could raise")
            return "set", token
        if call.func.attr == "reset" and len(call.args) == 1 and not call.keywords and isinstance(call.args[0], ast.Name) \
                and call.args[0].id in self.cx.tokens and token is None:
            return "reset", None
        raise Unsupported(f"use of a context variable outside `T = V.set(e)` / `V.reset(T)`: {ast.unparse(st)[:60]}")


def _prepare(source: str, target: Target, cfg: Cfg):
    tree = ast.parse(source)
    fn, static = find_method(tree, target.designator)
    cls = target.designator.split(".", 1)[0]
    if target.kind == "range":
        a, b = statement_range(fn, target.start, target.last)
        stmts, before_stmts, after_stmts = fn.body[a:b + 1], fn.body[:a], fn.body[b + 1:]
    else:
        stmts, before_stmts, after_stmts = list(fn.body), [], []
    spliced = {}
    for m in target.splice:
        callee, cstatic = find_method(tree, f"{cls}.{m}")
        if cstatic or len(callee.args.args) != 1 or any(isinstance(n, (ast.Return, ast.Yield, ast.YieldFrom, ast.Await)) for n in ast.walk(callee)):
            raise Unsupported(f"{cls}.{m} cannot be spliced (parameters, return or await)")
        own = set(_stored_names([fn])) | {a.arg for a in fn.args.args}
        mapping = {v: f"{m}__{v}" for v in _stored_names(callee.body) if v in own}     # only the locals that would clash are renamed
        spliced[m] = [_Rename(mapping).visit(copy.deepcopy(st)) for st in callee.body]
    return tree, fn, static, stmts, before_stmts, after_stmts, spliced


_FORBIDDEN = (ast.For, ast.While, ast.FunctionDef, ast.AsyncFunctionDef, ast.ClassDef, ast.Lambda, ast.Global, ast.Nonlocal, ast.NamedExpr,
              ast.Delete, ast.Raise, ast.Yield, ast.YieldFrom, ast.Import, ast.ImportFrom, ast.Assert, ast.Match, ast.AsyncFor, ast.AsyncWith)


def translate(source: str, target: Target, cfg: Cfg, translator_cls=None, prepare=None) -> dict:
    """{"lean", "lean_name", "lead": [[param, type]…], "attrs": [declared attribute inputs], "inputs": [plain inputs], "outputs",
    "externals": [[callee text, param, arity]…]}; `translator_cls` / `prepare`: hooks for the modules built on top of this one
    (harness/pytolean_decide.py) — the defaults are this module's and what the existing plugins emit does not depend on them"""
    tree, fn, static, stmts, before_stmts, after_stmts, spliced = (prepare or _prepare)(source, target, cfg)
    tr = (translator_cls or ProtoTranslator)(tree, cfg, target, fn, static, spliced)
    all_stmts = list(stmts) + [st for body in spliced.values() for st in body]
    for st in all_stmts:
        for n in ast.walk(st):
            if isinstance(n, _FORBIDDEN):
                raise Unsupported(f"{target.designator}: {type(n).__name__} inside the translated statements")
            if isinstance(n, ast.Name) and n.id == "self" and isinstance(n.ctx, ast.Store):
                raise Unsupported("assignment to self")
    params = [a.arg for a in fn.args.args[(0 if static else 1):]]
    tr.locals = set(params) | set(_stored_names([fn])) | {v for body in spliced.values() for v in _stored_names(body)}
    tr.before = set(params) | set(_stored_names(before_stmts))
    # occurrence numbering of the shared attributes, in source order
    for a in target.occurrence_attrs:
        nodes = sorted((n for st in all_stmts for n in ast.walk(st) if pa._is_self_attr(n) and n.attr == a and isinstance(n.ctx, ast.Load)),
                       key=lambda n: (n.lineno, n.col_offset))
        for i, n in enumerate(nodes):
            tr.occ[id(n)] = i + 1
    if target.kind == "method":
        for st in all_stmts:
            for n in ast.walk(st):
                if pa._is_self_attr(n) and isinstance(n.ctx, ast.Store) and n.attr not in tr.out_attrs:
                    tr.out_attrs.append(n.attr)
        # order of first assignment in the SOURCE as executed: the method's own statements, a spliced call standing for its body
        order: list[str] = []

        def visit(body):
            for st in body:
                if isinstance(st, ast.Expr) and isinstance(st.value, ast.Call) and pa._is_self_attr(st.value.func) and st.value.func.attr in spliced:
                    visit(spliced[st.value.func.attr])
                    continue
                heads = [t for t in getattr(st, "targets", [])] + ([st.target] if isinstance(st, (ast.AugAssign, ast.AnnAssign)) else [])
                for t in heads:
                    if pa._is_self_attr(t) and t.attr not in order:
                        order.append(t.attr)
                for field in ("body", "handlers", "orelse", "finalbody"):
                    for child in getattr(st, field, []) or []:
                        visit(child.body if isinstance(child, ast.ExceptHandler) else [child])
        visit(stmts)
        tr.out_attrs = order + [a for a in tr.out_attrs if a not in order]
    else:
        for st in all_stmts:
            for n in ast.walk(st):
                if isinstance(n, ast.Attribute) and isinstance(n.ctx, (ast.Store, ast.Del)):
                    raise Unsupported(f"{target.designator}: attribute assignment {ast.unparse(n)} (only in a `method` target)")
    if target.kind == "range":
        inside = {id(n) for st in stmts for n in ast.walk(st)}
        elsewhere = {n.id for n in ast.walk(fn) if isinstance(n, ast.Name) and id(n) not in inside}
        tr.outputs = [v for v in _stored_names(stmts) if v in elsewhere]
        if not tr.outputs:
            raise Unsupported(f"{target.designator}: the range assigns nothing that the rest of the method mentions")
    tr.cx = Cx(ind="  ")
    body = tr.normal([("seq", list(stmts))])
    # ---- signature
    lead: list[tuple[str, str, bool]] = []
    if cfg.oracle:
        lead.append(("o", "Oracle", "o" in tr.used))
    for pname in cfg.patterns:
        p, ty, _ = PATTERNS[pname]
        lead.append((p, ty, p in tr.used))
    if cfg.use_repr:
        lead.append((REPR_PARAM[0], REPR_PARAM[1], REPR_PARAM[0] in tr.used))
    elif REPR_PARAM[0] in tr.used:
        raise Unsupported(f"{target.designator}: repr() is used but the configuration does not provide `repr_of`")
    for p in cfg.presence.values():
        lead.append((p, "Bool", p in tr.used))
    for callee, x in cfg.externals.items():
        ty = " → ".join(["PyVal"] * x.arity + ["Option PyVal"])
        lead.append((x.param, ty, x.param in tr.used))
    attr_params = []
    for key in list(target.attrs) + [a for a in tr.out_attrs if a not in target.attrs]:
        a, _, n = key.partition("#")
        name = "self_" + ident(a) + (f"_{n}" if n else "")
        attr_params.append((key, name, key in tr.attr_reads or a in tr.out_attrs))
    names = [p for p, _, _ in lead] + [n for _, n, _ in attr_params] + [ident(v) for v in tr.plain_inputs]
    bound_names = {ident(v) for v in tr.locals}
    clash = ({TRACE, "ret_v", ident(target.lean_name)} | {p for p, _, _ in lead} | {n for _, n, _ in attr_params}) & bound_names
    if clash or len(set(names)) != len(names):
        raise Unsupported(f"{target.designator}: variable names clash with generated names: {sorted(clash) or names}")
    sig = " ".join([f"({p if used else '_' + p} : {ty})" for p, ty, used in lead]
                   + [f"({n if used else '_' + n} : PyVal)" for _, n, used in attr_params]
                   + [f"({ident(v)} : PyVal)" for v in tr.plain_inputs])
    rty = "PyVal" if target.kind == "pure" else "Rbacx.PyP.Res"
    head = "" if target.kind == "pure" else f"let {TRACE} : List Rbacx.PyP.Eff := []\n  "
    what = {"pure": f"`{target.designator}` (whole method, no effects, no escaping exception)",
            "range": f"range of `{target.designator}` from `{target.start}` to `{target.last}`",
            "method": f"`{target.designator}` as a state transformer" + (f", with {', '.join('`' + m + '`' for m in target.splice)} translated in place" if target.splice else "")}[target.kind]
    res = {"pure": "the returned value",
           "range": "out = " + (tr.outputs[0] if len(tr.outputs) == 1 else "[" + ", ".join(tr.outputs) + "]") + " (none: an exception escaped), trace = the effects in program order",
           "method": "out = the final values of [" + ", ".join("self." + a for a in tr.out_attrs) + "] (none: an exception escaped), trace = the effects in program order"}[target.kind]
    notes = []
    for p, ty, used in lead:
        if not used:
            continue
        if p == "o":
            notes.append("`o`: the oracle that supplies CPython's `str()`")
        elif p == "dumps_other":
            notes.append("`dumps_other`: what `json.dumps(X, sort_keys=True, separators=(',', ':'), default=str, ensure_ascii=False)` does OUTSIDE the "
                         "float-free JSON values (`some text` / `none` = raised); on them the call is the model's `canonJson` (`Rbacx.PyP.dumpsCanon`)")
        elif p == REPR_PARAM[0]:
            notes.append("`repr_of`: CPython's `repr()` (total)")
        elif ty == "Bool":
            continue
        else:
            callee = next((c for c, x in cfg.externals.items() if x.param == p), None)
            notes.append(f"`{p}`: the call `{callee or p}(…)`, NOT translated — its OUTCOME on its arguments: `some v` = returned `v`, `none` = raised"
                         + (f"; every call appends `Eff.call \"{cfg.externals[callee].effect}\" args` to the trace" if callee and cfg.externals[callee].effect else ""))
    if target.occurrence_attrs:
        notes.append("every textual read of " + ", ".join("`self." + a + "`" for a in target.occurrence_attrs) + " is an input of its own (`…_<n>` in source order): "
                     "the attribute is shared with other threads")
    notes += tr.notes
    inputs_doc = ", ".join(["self." + k for k, _, _ in attr_params] + tr.plain_inputs)
    doc = (f"/-- {what}; inputs: {inputs_doc}; result: {res}" + "".join("; " + n for n in notes)).replace("-/", "- /") + " -/\n"
    return {"lean": f"{doc}def {ident(target.lean_name)} {sig} : {rty} :=\n  {head}{body}\n", "lean_name": target.lean_name, "kind": target.kind,
            "lead": [[p, ty] for p, ty, _ in lead], "attrs": [k for k, _, _ in attr_params], "inputs": list(tr.plain_inputs),
            "outputs": list(tr.outputs) if target.kind == "range" else ["self." + a for a in tr.out_attrs],
            "externals": [[c, x.param, x.arity] for c, x in cfg.externals.items()], "params": params, "static": static}


def method_ref(res: dict) -> MethodRef:
    """how a translated `pure` method is called from another translation"""
    return MethodRef(res["lean_name"], [p for p, _ in res["lead"]], res["attrs"], len(res["inputs"]))


# ---------------------------------------------------------------------- the same statements run by CPython

class _Silent:
    def __getattr__(self, name):
        return lambda *a, **k: None


def as_python(source: str, target: Target, cfg: Cfg, globs: dict, overrides: dict | None = None):
    """the target's statements — verbatim — as a real function compiled from the source text in the module's own globals (the logger
    replaced by a silent one, `overrides` on top): a `range` becomes `async def _fragment(self, <plain inputs>)` returning its output(s),
    a `pure`/`method` target the method itself (and the spliced methods) as plain functions.  Returns {name: function}; `self` is the
    caller's stub."""
    tree, fn, static, stmts, before_stmts, _after, spliced = _prepare(source, target, cfg)
    ns = dict(globs)
    for name in cfg.silent:
        ns[name] = _Silent()
    ns.update(overrides or {})
    cls = target.designator.split(".", 1)[0]
    out = {}
    if target.kind == "range":
        res = translate(source, target, cfg)
        outs = res["outputs"]
        plain = res["inputs"]
        mod = ast.parse(f"async def _fragment(self, {', '.join(plain)}):\n    pass\n    return {outs[0] if len(outs) == 1 else '(' + ', '.join(outs) + ',)'}\n")
        mod.body[0].body[0:1] = [copy.deepcopy(st) for st in stmts]
        ast.fix_missing_locations(mod)
        exec(compile(mod, f"<range of {target.designator}>", "exec"), ns)  # noqa: S102
        out["_fragment"] = ns["_fragment"]
        out["_inputs"] = plain
        return out
    for name in (target.designator.split(".", 1)[1],) + target.splice:
        f, _ = find_method(tree, f"{cls}.{name}")
        f2 = copy.deepcopy(f)
        f2.decorator_list = []
        mod = ast.Module(body=[f2], type_ignores=[])
        ast.fix_missing_locations(mod)
        exec(compile(mod, f"<{cls}.{name}>", "exec"), ns)  # noqa: S102
        out[name] = ns[name]
    return out
